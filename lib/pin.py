#!/usr/bin/env python3
"""dev tool: (re)write lib/pinned/Cxx.txt from the Check commands of Props/Cxx.v.
Run by hand when a property statement is deliberately changed; never run by a check."""
import os, sys
sys.path.insert(0, os.path.dirname(os.path.dirname(os.path.abspath(__file__))))
from lib import pipeline
for prop in sys.argv[1:]:
    src = open(os.path.join(pipeline.COQ, "theories", "Props", prop + ".v")).read()
    st = pipeline.check_statements(src)
    open(os.path.join(pipeline.ROOT, "lib", "pinned", prop + ".txt"), "w").write("\n".join(st) + "\n")
    print(prop, len(st), "statements pinned")
