#!/usr/bin/env python3
"""dev helper: show the proof state after line N of a .v file (not part of any check)."""
import sys, subprocess, os, tempfile
f, n = sys.argv[1], int(sys.argv[2])
lines = open(f).read().split('\n')
src = '\n'.join(lines[:n]) + '\nShow.\n'
d = tempfile.mkdtemp()
t = os.path.join(d, 'Scratch.v')
open(t, 'w').write(src)
r = subprocess.run(['coqc', '-Q', '/verif/coq/theories', 'PG', t], capture_output=True, text=True, timeout=300)
out = (r.stdout + r.stderr)
print('\n'.join(l for l in out.split('\n') if 'WARNING conda' not in l)[-6000:])
