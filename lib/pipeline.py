"""Orchestration shared by every property check.

Stages (DESIGN.md section 3):
  A proof audit   - full .vo build is up to date, Props/Cxx.v re-checked by coqc, its
                    Print Assumptions transcript parsed, pinned statements compared,
                    forbidden-word grep over the development
  B build         - cargo build of the harness against /repo's working tree
  C corpus        - minimised cases kept from earlier rounds
  D correspondence- generated cases: real crate vs extracted Coq model, line by line
  E oracle        - independent specification oracle on the implementation's observations
  F classify      - VIOLATION / KNOWN-FINDING / ok
  G evidence      - evidence/Cxx.json
"""
import fcntl
import hashlib
import json
import os
import re
import subprocess
import sys
import time

ROOT = os.path.dirname(os.path.dirname(os.path.abspath(__file__)))
COQ = os.path.join(ROOT, "coq")
# VERIF_SANDBOX (used only by lib/seedsandbox.py to try seeded changes in parallel without touching /repo): a directory
# holding a copy of the harness whose path dependency is a scratch worktree, and receiving work/, replays/, evidence/
SANDBOX = os.environ.get("VERIF_SANDBOX")
OUTROOT = SANDBOX or ROOT
HARNESS = os.path.join(OUTROOT, "harness")
DRIVER = os.path.join(ROOT, "ocaml", "driver")
WORK = os.path.join(OUTROOT, "work")
REPO = os.path.join(SANDBOX, "repo") if SANDBOX else "/repo"

ALLOWED_AXIOMS = {
    # standard-library axioms that may appear (none is expected; each is named in DESIGN.md section 5)
    "functional_extensionality_dep", "proof_irrelevance", "Eqdep.Eq_rect_eq.eq_rect_eq",
    "JMeq_eq", "classic", "Classical_Prop.classic", "FunctionalExtensionality.functional_extensionality_dep",
}
FORBIDDEN = re.compile(
    r"\b(Admitted|admit|Axiom|Axioms|Parameter|Parameters|Conjecture|Conjectures|Hypothesis|Hypotheses|Variable|Variables)\b"
    r"|Unset\s+Guard|bypass_check|Unset\s+Positivity|Unset\s+Universe|type-in-type|impredicative-set|Admit\s+Obligations")

TRUSTED_BASE = [
    "Coq 8.16.1 kernel (coqc; coqchk in thorough tier); vm_compute used in Examples; no native_compute",
    "axioms: none (every property theorem prints 'Closed under the global context')",
    "extraction: ExtrOcamlBasic only (bool, option, unit, list, prod, sumbool, sumor mapped to OCaml; nat/N/Z stay inductive), OCaml 4.13.1 ocamlopt",
    "hand-written OCaml driver (case parsing, printing), Rust harness (generators, canonical printers), python orchestration: unverified",
    "faithfulness of the hand-written Gallina model to the Rust source: validated only by the differential correspondence run on generated inputs",
    "Rust/LLVM semantics, Vec/VecDeque/BinaryHeap/IndexMap/hashbrown/FixedBitSet, memory safety of unsafe blocks (modelled by their checked meaning): modelled, not verified",
]


def sh(cmd, cwd=None, timeout=3600, env=None):
    e = dict(os.environ)
    e.setdefault("CARGO_NET_OFFLINE", "true")
    if env:
        e.update(env)
    p = subprocess.run(cmd, cwd=cwd, shell=isinstance(cmd, str), capture_output=True, text=True,
                       timeout=timeout, env=e)
    out = "\n".join(l for l in (p.stdout + p.stderr).split("\n") if "WARNING conda" not in l)
    return p.returncode, out


class Lock:
    def __init__(self, name):
        base = os.path.join(ROOT, "work") if name == "coq" else WORK     # the Coq tree is shared by all sandboxes
        os.makedirs(base, exist_ok=True)
        self.path = os.path.join(base, name + ".lock")

    def __enter__(self):
        self.f = open(self.path, "w")
        fcntl.flock(self.f, fcntl.LOCK_EX)

    def __exit__(self, *a):
        fcntl.flock(self.f, fcntl.LOCK_UN)
        self.f.close()


# --------------------------------------------------------------------------- A

def strip_comments(src):
    out, depth, i = [], 0, 0
    while i < len(src):
        if src.startswith("(*", i):
            depth += 1
            i += 2
        elif src.startswith("*)", i) and depth > 0:
            depth -= 1
            i += 2
        else:
            if depth == 0:
                out.append(src[i])
            i += 1
    return "".join(out)


def coq_files():
    res = []
    for d, _, fs in os.walk(os.path.join(COQ, "theories")):
        for f in fs:
            if f.endswith(".v"):
                res.append(os.path.join(d, f))
    res.append(os.path.join(COQ, "extract", "Extract.v"))
    return sorted(res)


def norm_ws(s):
    return re.sub(r"\s+", " ", s).strip()


def check_statements(props_src):
    """The `Check name : statement.` commands of a Props file, normalised."""
    src = strip_comments(props_src)
    return [norm_ws(m.group(0)) for m in re.finditer(r"^Check\s+\w+\s*:.*?\.\s*$", src, re.S | re.M)]


def proof_audit(prop, plugin, tier):
    """Audit Props/<prop>.v and every additional props file the plugin names in EXTRA_PROPS (e.g. C09b)."""
    ok, info = _proof_audit_one(prop, plugin, tier)
    for extra in getattr(plugin, "EXTRA_PROPS", []):
        class _P:
            THEOREMS = []
        ok2, info2 = _proof_audit_one(extra, _P, tier)
        ok = ok and ok2
        info["problems"] += ["[%s] %s" % (extra, x) for x in info2.get("problems", [])]
        for k in ("theorems", "wanted_theorems"):
            info[k] = info.get(k, []) + info2.get(k, [])
        for k in ("print_assumptions", "closed", "pinned_statements"):
            info[k] = info.get(k, 0) + info2.get(k, 0)
        info["axioms"] = sorted(set(info.get("axioms", [])) | set(info2.get("axioms", [])))
    return ok, info


def _proof_audit_one(prop, plugin, tier):
    """Returns (ok, info dict). ok False means a proof obligation no longer checks."""
    info = {"problems": []}
    t0 = time.time()
    with Lock("coq"):
        if not os.path.exists(os.path.join(COQ, "Makefile")):
            sh("coq_makefile -f _CoqProject -o Makefile", cwd=COQ)
        rc, out = sh("timeout 3000 make -j16", cwd=COQ, timeout=3100)
        if rc != 0:
            info["problems"].append("coq build failed: " + out[-1500:])
            return False, info
        props_v = os.path.join(COQ, "theories", "Props", prop + ".v")
        if tier == "thorough":
            # clean re-check of the whole cone: delete the .vo of the props file and rebuild it
            pass
        rc, out = sh(["coqc", "-Q", os.path.join(COQ, "theories"), "PG", props_v], cwd=COQ, timeout=1800)
    if rc != 0:
        info["problems"].append("Props/%s.v does not check: %s" % (prop, out[-1500:]))
        return False, info
    closed = out.count("Closed under the global context")
    axioms = []
    in_ax = False
    for l in out.split("\n"):
        if l.startswith("Axioms:"):
            in_ax = True
            continue
        if in_ax:
            m = re.match(r"^([A-Za-z_][\w.']*)\s*:", l)
            if m:
                axioms.append(m.group(1))
            elif l and not l.startswith(" "):
                in_ax = False
    src = open(props_v).read()
    code = strip_comments(src)
    theorems = re.findall(r"^(?:Theorem|Lemma|Corollary|Example)\s+(\w+)", code, re.M)
    n_pa = len(re.findall(r"^Print Assumptions\s+\w+", code, re.M))
    info["theorems"] = theorems
    info["print_assumptions"] = n_pa
    info["closed"] = closed
    info["axioms"] = sorted(set(axioms))
    bad_ax = [a for a in axioms if a.split(".")[-1] not in {x.split(".")[-1] for x in ALLOWED_AXIOMS}]
    if bad_ax:
        info["problems"].append("axioms outside the allowlist: %s" % bad_ax)
    pinned_path = os.path.join(ROOT, "lib", "pinned", prop + ".txt")
    pinned_names = []
    if os.path.exists(pinned_path):
        pinned_names = [m.group(1) for m in re.finditer(r"^Check\s+(\w+)\s*:", open(pinned_path).read(), re.M)]
    wanted = list(plugin.THEOREMS) or pinned_names
    info["wanted_theorems"] = wanted
    for name in wanted:
        if name not in theorems:
            info["problems"].append("theorem %s missing from Props/%s.v" % (name, prop))
        if not re.search(r"^Print Assumptions\s+%s\s*\." % re.escape(name), code, re.M):
            info["problems"].append("no Print Assumptions for %s" % name)
    if closed + (1 if axioms else 0) < n_pa and not axioms:
        info["problems"].append("Print Assumptions transcript incomplete (%d of %d closed)" % (closed, n_pa))
    # pinned statements
    cur = check_statements(src)
    if os.path.exists(pinned_path):
        pinned = [l.strip() for l in open(pinned_path).read().split("\n") if l.strip()]
        if pinned != cur:
            info["problems"].append("pinned statements differ from the Check commands of Props/%s.v" % prop)
    else:
        info["problems"].append("no pinned statements file for %s" % prop)
    info["pinned_statements"] = len(cur)
    # forbidden words, whole development
    for f in coq_files():
        code_f = strip_comments(open(f).read())
        for m in FORBIDDEN.finditer(code_f):
            word = m.group(0)
            # Variable/Hypothesis are allowed inside a Section only
            if re.match(r"Variable|Variables|Hypothesis|Hypotheses", word):
                before = code_f[:m.start()]
                if len(re.findall(r"^\s*Section\s", before, re.M)) > len(re.findall(r"^\s*End\s", before, re.M)):
                    continue
            info["problems"].append("forbidden construct %r in %s" % (word, os.path.relpath(f, ROOT)))
    info["coq_files"] = len(coq_files())
    info["audit_s"] = round(time.time() - t0, 1)
    return (not info["problems"]), info


def coqchk(prop):
    rc, out = sh("timeout 3000 coqchk -o -silent -Q theories PG PG.Props.%s" % prop, cwd=COQ, timeout=3100)
    return rc, out


# --------------------------------------------------------------------------- B

def build_harness(release=False):
    with Lock("cargo"):
        lock = os.path.join(HARNESS, "Cargo.lock")
        if not os.path.exists(lock):
            sh(["cp", os.path.join(REPO, "Cargo.lock"), lock])
        cmd = "cargo build --offline" + (" --release" if release else "")
        rc, out = sh(cmd, cwd=HARNESS, timeout=3000)
        if rc != 0:
            # the lock file may be stale relative to /repo
            sh(["cp", os.path.join(REPO, "Cargo.lock"), lock])
            rc, out = sh(cmd, cwd=HARNESS, timeout=3000)
    return rc == 0, out


def build_driver():
    with Lock("coq"):
        if not os.path.exists(DRIVER):
            rc, out = sh([os.path.join(ROOT, "ocaml", "build.sh")], timeout=1800)
            return rc == 0, out
    return True, ""


def pgh_bin(release=False):
    return os.path.join(HARNESS, "target", "release" if release else "debug", "pgh")


# --------------------------------------------------------------------------- C/D

def parse_cases(text):
    """cases.txt -> ordered list of (id, header_line, [op lines])"""
    res, cur = [], None
    for l in text.split("\n"):
        l = l.rstrip()
        if not l or l.startswith("#"):
            continue
        if l.startswith("case "):
            cur = [l.split()[1], l, []]
        elif l == "end":
            res.append(tuple(cur))
            cur = None
        elif cur is not None:
            cur[2].append(l)
    return res


def parse_obs(text):
    res, cur = {}, None
    for l in text.split("\n"):
        l = l.rstrip()
        if not l:
            continue
        if l.startswith("case "):
            cur = l.split()[1]
            res[cur] = []
        elif l == "end":
            cur = None
        elif cur is not None:
            res[cur].append(l)
    return res


class HarnessCrash(RuntimeError):
    """the harness process died or hung: the implementation aborted (OOM, stack overflow, abort) or never returned"""
    def __init__(self, stream, how, case_text, tail):
        RuntimeError.__init__(self, "harness %s on stream %s" % (how, stream))
        self.stream, self.how, self.case_text, self.tail = stream, how, case_text, tail


def last_case_of(outdir):
    """the last (unfinished) case the harness wrote before it died"""
    try:
        txt = open(os.path.join(outdir, "cases.txt")).read()
    except OSError:
        return ""
    i = txt.rfind("\ncase ")
    return txt[i + 1:] if i >= 0 else txt


def run_impl(stream, mode_args, outdir, release=False):
    os.makedirs(outdir, exist_ok=True)
    for f in ("cases.txt", "impl.obs"):
        try:
            os.remove(os.path.join(outdir, f))
        except OSError:
            pass
    try:
        # 4 GB address space and 15 minutes per shard: a runaway iterator is an observation, not a reason to stall
        rc, out = sh("ulimit -v 6000000; exec %s %s %s %s" % (pgh_bin(release), stream, " ".join(mode_args), outdir), timeout=900)
    except subprocess.TimeoutExpired:
        raise HarnessCrash(stream, "did not finish within 900 s (an operation never returned)", last_case_of(outdir), "")
    if rc != 0:
        raise HarnessCrash(stream, "died with exit status %d (abort, out of memory or stack overflow inside the crate)" % rc,
                           last_case_of(outdir), out[-1500:])
    return (open(os.path.join(outdir, "cases.txt")).read(),
            open(os.path.join(outdir, "impl.obs")).read(),
            json.load(open(os.path.join(outdir, "stats.json"))))


def run_model(stream, outdir):
    rc, out = sh([DRIVER, stream, os.path.join(outdir, "cases.txt"), os.path.join(outdir, "model.obs")], timeout=3000)
    if rc != 0:
        raise RuntimeError("model driver failed: " + out[-2000:])
    return open(os.path.join(outdir, "model.obs")).read()


def split_ops(obs):
    """observation lines of one case -> list of per-operation line groups (separator `;`);
    streams without separators (one line per op) give one group per line"""
    if ";" not in obs:
        return [[l] for l in obs]
    groups, cur = [], []
    for l in obs:
        if l.strip() == ";":
            groups.append(cur)
            cur = []
        else:
            cur.append(" ".join(l.split()))
    if cur:
        groups.append(cur)
    return groups


def generic_compare(impl, model):
    """index of the first operation whose observation lines differ, or None"""
    a, b = split_ops(impl), split_ops(model)
    for k in range(max(len(a), len(b))):
        x = [" ".join(l.split()) for l in a[k]] if k < len(a) else ["<missing>"]
        y = [" ".join(l.split()) for l in b[k]] if k < len(b) else ["<missing>"]
        if x != y:
            return k
    return None


def obs_prefix(obs, k):
    if not isinstance(k, int):
        return obs
    g = split_ops(obs)[:k + 1]
    return [l for grp in g[-3:] for l in grp + [";"]]


def case_text(header, ops):
    return "\n".join([header] + ops + ["end"]) + "\n"


# --------------------------------------------------------------------------- known findings

def load_known(prop):
    p = os.path.join(ROOT, "known_findings.json")
    if not os.path.exists(p):
        return []
    data = json.load(open(p))
    return [e for e in data.get("findings", []) if e.get("property") == prop and not str(e.get("status", "")).startswith("fixed")]


# --------------------------------------------------------------------------- main driver

def regen_of(label, header):
    m = re.match(r"gen:([^:]+):seed=(\d+):n=(\d+)", label or "")
    if not m:
        return None
    return {"stream": m.group(1), "seed": int(m.group(2)), "case_id": int(header.split()[1])}


def write_replay(prop, name, payload):
    d = os.path.join(OUTROOT, "replays")
    os.makedirs(d, exist_ok=True)
    path = os.path.join(d, name)
    json.dump(payload, open(path, "w"), indent=1)
    return path


def run_check(prop, plugin, tier, seed, replay=None):
    t0 = time.time()
    outdir = os.path.join(WORK, prop)
    os.makedirs(outdir, exist_ok=True)
    violations = []      # (replay_path, no_failing_input_found: bool)
    known_hits = []
    notes = []
    release = getattr(plugin, "RELEASE_TOO", False)

    # ---- A
    audit_ok, audit = proof_audit(prop, plugin, tier)
    chk = None
    if tier == "thorough" and audit_ok:
        for pf in [prop] + list(getattr(plugin, "EXTRA_PROPS", [])):
            rc, out = coqchk(pf)
            chk = {"rc": rc, "tail": out[-600:]}
            if rc != 0:
                audit_ok = False
                audit["problems"].append("coqchk failed on %s: %s" % (pf, out[-800:]))
                break

    # ---- B
    ok, out = build_harness(False)
    harness_ok = ok
    if ok and release:
        ok2, out2 = build_harness(True)
        harness_ok = ok2
        out = out2 if not ok2 else out
    dok, dout = build_driver()
    if not harness_ok:
        path = write_replay(prop, "%s-harness-build.json" % prop,
                            {"property": prop, "kind": "correspondence-cannot-run",
                             "detail": "the harness no longer compiles against /repo", "log": out[-3000:]})
        violations.append((path, True))
    if not dok:
        audit_ok = False
        audit["problems"].append("extraction/driver build failed: " + dout[-800:])

    cov = {"evaluations": 0, "distinct_nontrivial": 0, "samples": [], "histograms": {}}
    disagreements = []
    oracle_failures = []
    seen = set()
    n_nontrivial = 0
    n_cases = 0
    selftest = None

    def process(stream, cases_txt, impl_txt, model_txt, label):
        nonlocal n_nontrivial, n_cases
        cases = parse_cases(cases_txt)
        impl = parse_obs(impl_txt)
        model = parse_obs(model_txt) if model_txt is not None else None
        for cid, header, ops in cases:
            n_cases += 1
            io = impl.get(cid, [])
            h = hashlib.sha1((stream + " " + " ".join(header.split()[2:]) + "\n" + "\n".join(ops)).encode()).hexdigest()
            if h not in seen:
                seen.add(h)
                if plugin.nontrivial(stream, header, ops, io):
                    n_nontrivial += 1
            if len([x for x in cov["samples"] if x["stream"] == stream]) < 2 and plugin.nontrivial(stream, header, ops, io):
                cov["samples"].append({"stream": stream, "case": [header] + ops[:40], "impl_observations": io[:40]})
            if model is not None:
                mo = model.get(cid, [])
                d = plugin.compare(stream, header, ops, io, mo)
                if d is not None:
                    disagreements.append({"stream": stream, "label": label, "header": header, "ops": ops, "impl": io, "model": mo, "at": d})
            f = plugin.oracle(stream, header, ops, io)
            if f is not None:
                oracle_failures.append({"stream": stream, "label": label, "header": header, "ops": ops, "impl": io, "failure": f})

    if harness_ok and dok:
        try:
            streams = getattr(plugin, "STREAMS", None) or [(prop, plugin.QUICK_N, plugin.THOROUGH_N)]
            if replay:
                rp = json.load(open(replay))
                txt = rp.get("case") or ""
                stream = rp.get("stream") or streams[0][0]
                open(os.path.join(outdir, "replay_case.txt"), "w").write(txt)
                regen = rp.get("regen")
                for rel in ([False, True] if release else [False]):
                    if regen:
                        # view-based streams: the case is regenerated from its seed and position
                        c, i, st = run_impl(stream, ["gen", str(regen["seed"]), str(regen["case_id"] + 1)], outdir, rel)
                        m = run_model(stream, outdir)
                        keep = str(regen["case_id"])
                        c = "".join(case_text(h, o) for (cid, h, o) in parse_cases(c) if cid == keep)
                    else:
                        c, i, st = run_impl(stream, ["replay", os.path.join(outdir, "replay_case.txt")], outdir, rel)
                        m = run_model(stream, outdir)
                    process(stream, c, i, m, "replay" + (":release" if rel else ""))
            else:
                # ---- C corpus: corpus/<prop>/<stream>-*.txt
                cdir = os.path.join(ROOT, "corpus", prop)
                if os.path.isdir(cdir):
                    for f in sorted(os.listdir(cdir)):
                        if not f.endswith(".txt"):
                            continue
                        stream = f.split("-")[0]
                        for rel in ([False, True] if release else [False]):
                            c, i, st = run_impl(stream, ["replay", os.path.join(cdir, f)], outdir, rel)
                            m = run_model(stream, outdir)
                            process(stream, c, i, m, "corpus:" + f + (":release" if rel else ""))
                # ---- D generated
                shard = getattr(plugin, "SHARD", 5000)
                for (stream, qn, tn) in streams:
                    n = qn if tier == "quick" else tn
                    done = 0
                    k = 0
                    while done < n:
                        cnt = min(shard, n - done)
                        for rel in ([False, True] if release else [False]):
                            c, i, st = run_impl(stream, ["gen", str(seed + 7919 * k), str(cnt)], outdir, rel)
                            m = run_model(stream, outdir)
                            process(stream, c, i, m, "gen:%s:seed=%d:n=%d%s" % (stream, seed + 7919 * k, cnt, ":release" if rel else ""))
                            for kk, v in st.items():
                                cov["histograms"][stream + "." + kk] = cov["histograms"].get(stream + "." + kk, 0) + v
                            # self-test: a planted wrong observation must be flagged
                            if selftest is None or (selftest.get("skipped") and not rel):
                                selftest = plugin_selftest(plugin, stream, c, i, m)
                        done += cnt
                        k += 1
                    # ---- E extra oracle-only stream (thorough)
                    if tier == "thorough" and getattr(plugin, "ORACLE_ONLY_N", 0):
                        c, i, st = run_impl(stream, ["gen", str(seed + 104729), str(plugin.ORACLE_ONLY_N)], outdir)
                        process(stream, c, i, None, "oracle-only:" + stream)
        except HarnessCrash as e:
            path = write_replay(prop, "%s-implementation-aborts-or-hangs.json" % prop,
                                {"property": prop, "kind": "property-fails-on-implementation",
                                 "failure": {"class": "implementation-aborts-or-hangs", "how": e.how},
                                 "stream": e.stream, "detail": str(e),
                                 "case": e.case_text[:20000],
                                 "note": "the last case of the list is the one that was running; an unfinished case has no 'end' line",
                                 "stderr_tail": e.tail})
            violations.append((path, False))
        except RuntimeError as e:
            path = write_replay(prop, "%s-run-failure.json" % prop,
                                {"property": prop, "kind": "correspondence-cannot-run", "detail": str(e)})
            violations.append((path, True))

    # ---- F classify
    known = load_known(prop)
    reported = set()
    for f in oracle_failures:
        cls = f["failure"].get("class", "unclassified")
        hit = None
        for kf in known:
            if kf.get("class") == cls:
                hit = kf
                break
        if hit is not None:
            if hit["id"] not in reported:
                reported.add(hit["id"])
                known_hits.append(hit)
            continue
        if ("oracle", cls) in reported:
            continue
        reported.add(("oracle", cls))
        ops = plugin.shrink(f["stream"], f["header"], f["ops"], f["impl"], f["failure"]) if hasattr(plugin, "shrink") else f["ops"]
        path = write_replay(prop, "%s-%d-oracle-%s.json" % (prop, seed, re.sub(r"\W+", "_", cls)[:40]),
                            {"property": prop, "kind": "property-fails-on-implementation", "seed": seed, "stream": f["stream"],
                             "where": f["label"], "failure": f["failure"], "regen": regen_of(f["label"], f["header"]),
                             "case": case_text(f["header"], ops), "impl_observations": f["impl"]})
        violations.append((path, False))
    if disagreements:
        # a disagreement whose input also fails the oracle is already reported above with that input
        # (a known finding does not count: the models mirror the recorded defects exactly, so a disagreement on such an input
        # is a new difference and must not hide behind the known one)
        known_classes = {kf.get("class") for kf in known}
        failing_inputs = {(f["header"], tuple(f["ops"])) for f in oracle_failures
                          if f["failure"].get("class", "unclassified") not in known_classes}
        pure = [d for d in disagreements if (d["header"], tuple(d["ops"])) not in failing_inputs]
        if pure and not any(not nf for _, nf in violations):
            d = pure[0]
            k = d["at"]
            path = write_replay(prop, "%s-%d-correspondence.json" % (prop, seed),
                                {"property": prop, "kind": "correspondence-broken", "seed": seed, "stream": d["stream"],
                                 "detail": "implementation and Coq model disagree; the oracle found no input on which "
                                           "the property itself fails (%d cases searched)" % n_cases,
                                 "correspondence": "pgh %s vs extracted %s" % (d["stream"], ", ".join(plugin.MODEL_FILES)),
                                 "where": d["label"], "first_difference_at_op": k, "regen": regen_of(d["label"], d["header"]),
                                 "case": case_text(d["header"], d["ops"][:k + 1] if isinstance(k, int) else d["ops"]),
                                 "impl_observations": obs_prefix(d["impl"], k),
                                 "model_observations": obs_prefix(d["model"], k),
                                 "disagreeing_cases": len(pure)})
            violations.append((path, True))
        elif pure:
            notes.append("%d correspondence disagreements besides the reported failing input" % len(pure))
    if not audit_ok and not any(not nf for _, nf in violations):
        path = write_replay(prop, "%s-proof-audit.json" % prop,
                            {"property": prop, "kind": "proof-obligation-broken",
                             "theorems": list(plugin.THEOREMS) or audit.get("wanted_theorems", []), "problems": audit["problems"],
                             "detail": "no failing input found on %d cases searched by the oracle" % n_cases})
        violations.append((path, True))
    if selftest is not None and not selftest["ok"]:
        path = write_replay(prop, "%s-selftest.json" % prop,
                            {"property": prop, "kind": "machinery-selftest-failed", "detail": selftest})
        violations.append((path, True))

    # ---- G evidence
    wall = time.time() - t0
    thm_names = list(plugin.THEOREMS) or audit.get("wanted_theorems", [])
    nthm = max(1, len(thm_names))
    discharged = nthm if audit_ok else max(0, nthm - 1)
    cov.update({
        "obligations": nthm,
        "discharged": discharged,
        "checker_cmd": "make -C coq (full .vo build) && coqc -Q coq/theories PG coq/theories/Props/%s.v%s"
                       % (prop, " && coqchk -o -silent PG.Props.%s" % prop if tier == "thorough" else ""),
        "trusted_base": TRUSTED_BASE + getattr(plugin, "EXTRA_TRUSTED", []),
        "theorems": thm_names,
        "theorem_scope": plugin.SCOPE,
        "evaluations": n_cases,
        "distinct_nontrivial": n_nontrivial,
        "rule": plugin.RULE,
        "traces_validated_against_impl": n_cases - len(disagreements),
        "correspondence_disagreements": len(disagreements),
        "oracle_failures": len(oracle_failures),
        "known_findings_hit": [k["id"] for k in known_hits],
        "proof_audit": audit,
        "selftest": selftest,
        "exhaustive": False,
        "notes": notes,
    })
    if chk:
        cov["coqchk"] = chk
    ev = {
        "property_id": prop, "tier": tier, "seed": seed, "level": plugin.LEVEL,
        "coverage": cov,
        "assumptions": plugin.ASSUMPTIONS,
        "wall_s": round(wall, 2),
        "violations": len(violations),
    }
    if not cov["samples"]:
        cov["samples"] = [{"note": "no non-trivial case generated"}]
    os.makedirs(os.path.join(OUTROOT, "evidence"), exist_ok=True)
    json.dump(ev, open(os.path.join(OUTROOT, "evidence", prop + ".json"), "w"), indent=1)

    for k in known_hits:
        print("KNOWN-FINDING: property=%s %s" % (prop, k.get("what", k["id"])))
    for path, nf in violations:
        print("VIOLATION property=%s replay=%s%s" % (prop, path, " no-failing-input-found" if nf else ""))
    print("%s %s: %d cases (%d distinct non-trivial), %d disagreements, %d oracle failures, audit %s, %.1fs"
          % (prop, tier, n_cases, n_nontrivial, len(disagreements), len(oracle_failures),
             "ok" if audit_ok else "FAILED", wall))
    return 1 if violations else 0


def plugin_selftest(plugin, stream, cases_txt, impl_txt, model_txt):
    """Plant one wrong implementation observation and require both the diff and the oracle
    machinery to be able to see it (the diff must; the oracle should when the plugin says so)."""
    cases = parse_cases(cases_txt)
    impl = parse_obs(impl_txt)
    model = parse_obs(model_txt)
    last = None
    tried = 0
    for cid, header, ops in cases:
        io = impl.get(cid, [])
        planted = plugin.plant(stream, header, ops, io) if hasattr(plugin, "plant") else None
        if planted is None or [l for l in planted if l != ";"] == [l for l in io if l != ";"]:
            continue        # nothing to plant here, or the planted line happens to equal the real one
        d = plugin.compare(stream, header, ops, planted, model.get(cid, []))
        o = plugin.oracle(stream, header, ops, planted)
        ok = d is not None and (o is not None or not getattr(plugin, "PLANT_ORACLE", True))
        last = {"ok": ok, "diff_saw_it": d is not None, "oracle_saw_it": o is not None, "case": cid, "stream": stream}
        tried += 1
        # a planted value can be right by accident (a dropped element that was a duplicate, an index that maps to the same
        # node): the self-test fails only when three different planted cases in a row go unnoticed
        if ok or tried >= 3:
            last["planted_cases_tried"] = tried
            return last
    if last is not None:
        last["planted_cases_tried"] = tried
        return last
    return {"ok": True, "skipped": "no plantable case"}
