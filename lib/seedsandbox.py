#!/usr/bin/env python3
"""Try one seeded change in a sandbox: a scratch worktree of /repo at HEAD with the patch applied, a copy of the
harness pointing at it, and the property's check run with VERIF_SANDBOX set.  /repo itself is not touched, so
several slots can run in parallel.  The official procedure (git -C /repo apply ...; ./check; checkout) is
lib/seedtest.py; this script exists for throughput and gives the same verdicts.
usage: seedsandbox.py <slot> <prop> <dir with patch.diff> [--also Cxx,Cyy]"""
import json
import os
import subprocess
import sys
import time

ROOT = os.path.dirname(os.path.dirname(os.path.abspath(__file__)))


def sh(cmd, **kw):
    p = subprocess.run(cmd, shell=isinstance(cmd, str), stdout=subprocess.PIPE, stderr=subprocess.STDOUT, text=True, **kw)
    return p.returncode, p.stdout


def main():
    slot, prop, d = sys.argv[1], sys.argv[2], sys.argv[3]
    also = sys.argv[sys.argv.index("--also") + 1].split(",") if "--also" in sys.argv else []
    sb = "/tmp/seedrun/" + slot
    repo = sb + "/repo"
    os.makedirs(sb, exist_ok=True)
    if not os.path.exists(repo):
        sh(["git", "-C", "/repo", "worktree", "add", "-q", "--detach", repo, "HEAD"])
    head = sh("git -C /repo rev-parse HEAD")[1].strip()
    sh("git -C %s checkout -q -- . && git -C %s checkout -q --detach %s" % (repo, repo, head))
    sh("rsync -a --delete --exclude target %s/harness/ %s/harness/" % (ROOT, sb))
    ct = open(sb + "/harness/Cargo.toml").read().replace('path = "/repo"', 'path = "%s"' % repo)
    open(sb + "/harness/Cargo.toml", "w").write(ct)
    if not os.path.exists(repo + "/Cargo.lock"):
        sh("cp /repo/Cargo.lock %s/Cargo.lock" % repo)
    patch = os.path.join(d, "patch.diff")
    rc, out = sh(["git", "-C", repo, "apply", "--check", patch])
    if rc != 0:
        print(json.dumps({"error": "patch does not apply to HEAD: " + out[-400:]}))
        return 2
    results = {}
    try:
        sh(["git", "-C", repo, "apply", patch])
        for p in [prop] + also:
            t0 = time.time()
            env = dict(os.environ, VERIF_SANDBOX=sb)
            rc, out = sh([os.path.join(ROOT, "check"), p], cwd=ROOT, env=env)
            lines = [l for l in out.split("\n") if l.startswith(("VIOLATION", "KNOWN-FINDING")) or " quick:" in l]
            r = {"exit": rc, "lines": lines, "seconds": round(time.time() - t0, 1)}
            for l in lines:
                if l.startswith("VIOLATION") and "replay=" in l and "replay_kind" not in r:
                    rp = l.split("replay=")[1].split()[0]
                    try:
                        j = json.load(open(rp))
                        r["replay_kind"] = j.get("kind")
                        f = j.get("failure") or {}
                        r["failure_class"] = f.get("class") if isinstance(f, dict) else None
                        r["no_failing_input"] = l.rstrip().endswith("no-failing-input-found")
                    except Exception as e:  # noqa
                        r["replay_error"] = str(e)
            results[p] = r
    finally:
        sh("git -C %s checkout -q -- ." % repo)
    print(json.dumps(results, indent=1))
    return 0


if __name__ == "__main__":
    sys.exit(main())
