import sys, importlib
sys.path.insert(0,'/verif')
from lib import pipeline
prop, stream, n = sys.argv[1], sys.argv[2], sys.argv[3]
plugin = importlib.import_module('lib.props.'+prop.lower())
c,i,st = pipeline.run_impl(stream, ['gen','5',n], '/verif/work/'+stream)
m = pipeline.run_model(stream, '/verif/work/'+stream)
cases = pipeline.parse_cases(c); io = pipeline.parse_obs(i); mo = pipeline.parse_obs(m)
nd=nf=nt=0; shown=0
for cid,h,ops in cases:
    d = plugin.compare(stream,h,ops,io[cid],mo[cid])
    f = plugin.oracle(stream,h,ops,io[cid])
    nt += plugin.nontrivial(stream,h,ops,io[cid])
    if d is not None:
        nd+=1
        if shown<2: shown+=1; print('DISAGREE',cid,h,d,ops[d] if d < len(ops) else None, pipeline.split_ops(io[cid])[d][:5], pipeline.split_ops(mo[cid])[d][:5])
    if f is not None:
        nf+=1
        if shown<4: shown+=1; print('ORACLE',cid,h,f)
print('cases',len(cases),'disagree',nd,'oracle fail',nf,'nontrivial',nt)
