#!/usr/bin/env python3
"""Confirm the seeded changes of one property in its scratch worktree (never in /repo):
for each /tmp/seed/out/<id>/mK: the clean tree's demo exits 0; with the patch applied the crate builds, the
whole test suite passes, and the demo exits 1.  Writes confirm.json next to the patch.
usage: seedconfirm.py <id> [scratch root, default /tmp/seed]"""
import json
import os
import re
import shutil
import subprocess
import sys


def sh(cmd, cwd=None, timeout=3000):
    env = dict(os.environ, CARGO_NET_OFFLINE="true")
    p = subprocess.run(cmd, shell=True, cwd=cwd, stdout=subprocess.PIPE, stderr=subprocess.STDOUT, text=True, timeout=timeout, env=env)
    return p.returncode, p.stdout


def run_demo(proj, demo_rs):
    os.makedirs(os.path.join(proj, "src"), exist_ok=True)
    shutil.copy(demo_rs, os.path.join(proj, "src", "main.rs"))
    rc, out = sh("cargo run --offline 2>&1", cwd=proj)
    return rc, out[-1500:]


def main():
    pid = sys.argv[1]
    root = sys.argv[2] if len(sys.argv) > 2 else "/tmp/seed"
    wt = os.path.join(root, pid)
    outd = os.path.join(root, "out", pid)
    proj = os.path.join(outd, "confirm_proj")
    os.makedirs(os.path.join(proj, "src"), exist_ok=True)
    open(os.path.join(proj, "Cargo.toml"), "w").write(
        '[package]\nname = "demo"\nversion = "0.1.0"\nedition = "2021"\n[dependencies]\npetgraph = { path = "%s", features = ["serde-1"] }\n'
        'serde_json = "1"\nbincode = "1.3"\n[workspace]\n' % wt)
    rc, out = sh("git status --short", cwd=wt)
    if out.strip():
        sh("git checkout -- .", cwd=wt)
    sh("cargo build --offline", cwd=wt)
    if os.path.exists(os.path.join(wt, "Cargo.lock")):
        shutil.copy(os.path.join(wt, "Cargo.lock"), os.path.join(proj, "Cargo.lock"))
    for k in sorted(d for d in os.listdir(outd) if re.fullmatch(r"m\d+", d)):
        md = os.path.join(outd, k)
        if os.path.exists(os.path.join(md, "confirm.json")):
            continue      # confirmed in an earlier round
        res = {"property": pid, "mutant": k}
        try:
            patch = os.path.join(md, "patch.diff")
            demo = os.path.join(md, "demo.rs")
            rc, out = run_demo(proj, demo)
            res["clean_demo_exit"] = rc
            rc, out = sh("git apply --check %s" % patch, cwd=wt)
            res["applies"] = rc == 0
            if rc != 0:
                res["error"] = out[-500:]
            else:
                sh("git apply %s" % patch, cwd=wt)
                rc, out = sh("cargo build --offline 2>&1 | tail -3", cwd=wt)
                res["builds"] = "error" not in out
                rc, out = sh("cargo test --workspace --no-fail-fast --offline 2>&1 | grep -E '^test result|FAILED|failed'", cwd=wt)
                passed = sum(int(m) for m in re.findall(r"(\d+) passed", out))
                failed = sum(int(m) for m in re.findall(r"(\d+) failed", out))
                res["tests_passed"], res["tests_failed"] = passed, failed
                rc, out = run_demo(proj, demo)
                res["mutated_demo_exit"] = rc
                res["mutated_demo_tail"] = out[-600:]
        finally:
            sh("git checkout -- .", cwd=wt)
        res["confirmed"] = bool(res.get("clean_demo_exit") == 0 and res.get("applies") and res.get("builds")
                                and res.get("tests_failed") == 0 and res.get("tests_passed", 0) > 300
                                and res.get("mutated_demo_exit") not in (0, None))
        json.dump(res, open(os.path.join(md, "confirm.json"), "w"), indent=1)
        print(pid, k, "confirmed" if res["confirmed"] else "NOT CONFIRMED", {x: res.get(x) for x in ("clean_demo_exit", "tests_passed", "tests_failed", "mutated_demo_exit")})


if __name__ == "__main__":
    main()
