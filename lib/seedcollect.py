#!/usr/bin/env python3
"""Collect the confirmed seeded changes from the scratch area into /verif/seeded/<id>-mK/ (patch.diff, demo.rs,
demo.txt, meta.json extended with the confirmation and with what the property's check said) and write
seeded/SUMMARY.md.  usage: seedcollect.py [scratch root, default /tmp/seed]"""
import glob
import json
import os
import shutil
import sys

ROOT = os.path.dirname(os.path.dirname(os.path.abspath(__file__)))


def main():
    root = sys.argv[1] if len(sys.argv) > 1 else "/tmp/seed"
    dest = os.path.join(ROOT, "seeded")
    os.makedirs(dest, exist_ok=True)
    notes = {}
    npath = os.path.join(dest, "notes.json")
    if os.path.exists(npath):
        notes = json.load(open(npath))
    rows = []
    for md in sorted(glob.glob(os.path.join(root, "out", "C*", "m[0-9]"))):
        if not os.path.isdir(md):
            continue
        pid, k = md.split("/")[-2], md.split("/")[-1]
        name = "%s-%s" % (pid, k)
        try:
            conf = json.load(open(os.path.join(md, "confirm.json")))
        except Exception:
            conf = {}
        try:
            res = json.load(open(os.path.join(md, "result.json"))).get(pid, {})
        except Exception:
            res = {}
        try:
            meta = json.load(open(os.path.join(md, "meta.json")))
        except Exception:
            meta = {}
        override = notes.get(name, {})
        confirmed = override.get("confirmed", conf.get("confirmed", False))
        if not confirmed:
            rows.append((name, meta.get("summary", ""), "NOT CONFIRMED - not kept", "", ""))
            continue
        out = os.path.join(dest, name)
        os.makedirs(out, exist_ok=True)
        for f in ("patch.diff", "demo.rs", "demo.txt"):
            if os.path.exists(os.path.join(md, f)):
                shutil.copy(os.path.join(md, f), os.path.join(out, f))
        verdict = ("caught: failing input reported (%s)" % res.get("failure_class") if res.get("exit") == 1 and not res.get("no_failing_input")
                   else "caught without a failing input (%s)" % res.get("replay_kind") if res.get("exit") == 1
                   else "MISSED" if res.get("exit") == 0 else "not run")
        meta.update({
            "confirmed": {"clean_demo_exit": conf.get("clean_demo_exit"), "tests_passed_with_patch": conf.get("tests_passed"),
                          "tests_failed_with_patch": conf.get("tests_failed"), "mutated_demo_exit": conf.get("mutated_demo_exit"),
                          "note": override.get("confirm_note", "")},
            "check": {"command": "./check %s (quick tier) with the patch applied to a scratch worktree of /repo HEAD" % pid,
                      "exit": res.get("exit"), "violation_kind": res.get("replay_kind"), "failure_class": res.get("failure_class"),
                      "verdict": verdict, "first_run": override.get("first_run", ""), "strengthened": override.get("strengthened", "")},
        })
        json.dump(meta, open(os.path.join(out, "meta.json"), "w"), indent=1)
        rows.append((name, meta.get("summary", ""), verdict, override.get("first_run", ""), override.get("strengthened", "")))
    with open(os.path.join(dest, "SUMMARY.md"), "w") as f:
        f.write("# Seeded breaking changes and what the checks said\n\n"
                "Each change compiles, passes the whole unedited test suite and breaks its property (confirmed in a scratch\n"
                "worktree, see each meta.json). `verdict` is the outcome of `./check <id>` (quick tier) with the change applied;\n"
                "`first run` is filled in where the first attempt missed it and the machinery was strengthened.\n\n"
                "| change | what was changed | verdict of the check | first run | strengthened by |\n|---|---|---|---|---|\n")
        for r in rows:
            f.write("| %s | %s | %s | %s | %s |\n" % tuple(str(x).replace("|", "/").replace("\n", " ") for x in r))
    print(len(rows), "changes;", sum(1 for r in rows if r[2].startswith("caught")), "caught,",
          sum(1 for r in rows if r[2] == "MISSED"), "missed,", sum(1 for r in rows if "NOT CONFIRMED" in r[2]), "not confirmed")


if __name__ == "__main__":
    main()
