#!/usr/bin/env python3
"""Apply one seeded change to /repo, run the property's check, undo the change, report.
usage: seedtest.py <prop> <dir with patch.diff> [--tier quick|thorough] [--also Cxx,Cyy]
Never leaves /repo modified: the patch is reverted with `git checkout -- .` in a finally block."""
import json
import os
import subprocess
import sys
import time

ROOT = os.path.dirname(os.path.dirname(os.path.abspath(__file__)))


def sh(cmd, **kw):
    p = subprocess.run(cmd, shell=isinstance(cmd, str), stdout=subprocess.PIPE, stderr=subprocess.STDOUT, text=True, **kw)
    return p.returncode, p.stdout


def main():
    prop, d = sys.argv[1], sys.argv[2]
    tier = "quick"
    also = []
    if "--tier" in sys.argv:
        tier = sys.argv[sys.argv.index("--tier") + 1]
    if "--also" in sys.argv:
        also = sys.argv[sys.argv.index("--also") + 1].split(",")
    patch = os.path.join(d, "patch.diff")
    rc, out = sh("git -C /repo status --short")
    if out.strip():
        print("refusing: /repo is not clean:\n" + out)
        return 2
    rc, out = sh(["git", "-C", "/repo", "apply", "--check", patch])
    if rc != 0:
        print("patch does not apply: " + out)
        return 2
    results = {}
    try:
        sh(["git", "-C", "/repo", "apply", patch])
        for p in [prop] + also:
            t0 = time.time()
            rc, out = sh([os.path.join(ROOT, "check"), p, "--tier", tier], cwd=ROOT)
            lines = [l for l in out.split("\n") if l.startswith(("VIOLATION", "KNOWN-FINDING")) or " quick:" in l or " thorough:" in l]
            results[p] = {"exit": rc, "lines": lines, "seconds": round(time.time() - t0, 1)}
            replay = None
            for l in lines:
                if l.startswith("VIOLATION") and "replay=" in l:
                    replay = l.split("replay=")[1].split()[0]
            if replay and os.path.exists(replay):
                try:
                    r = json.load(open(replay))
                    results[p]["replay_kind"] = r.get("kind")
                    f = r.get("failure") or {}
                    results[p]["failure_class"] = f.get("class") if isinstance(f, dict) else None
                except Exception as e:  # noqa
                    results[p]["replay_error"] = str(e)
    finally:
        sh("git -C /repo checkout -- .")
    rc, out = sh("git -C /repo status --short")
    results["_repo_clean_after"] = (out.strip() == "")
    print(json.dumps(results, indent=1))
    return 0


if __name__ == "__main__":
    sys.exit(main())
