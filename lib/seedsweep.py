#!/usr/bin/env python3
"""Run every check on the UNCHANGED tree for several seeds, in a sandbox slot (a scratch worktree of /repo at HEAD and a copy
of the harness), so that several sweeps can run side by side.  Prints every VIOLATION line and one summary line per check.
usage: seedsweep.py <slot> <seed> [<seed> ...]      (a false alarm for some seed is a defect of the machinery)"""
import os
import subprocess
import sys

ROOT = os.path.dirname(os.path.dirname(os.path.abspath(__file__)))


def sh(cmd, **kw):
    p = subprocess.run(cmd, shell=isinstance(cmd, str), stdout=subprocess.PIPE, stderr=subprocess.STDOUT, text=True, **kw)
    return p.returncode, p.stdout


def main():
    slot, seeds = sys.argv[1], sys.argv[2:]
    sb = "/tmp/seedrun/" + slot
    repo = sb + "/repo"
    os.makedirs(sb, exist_ok=True)
    if not os.path.exists(repo):
        sh(["git", "-C", "/repo", "worktree", "add", "-q", "--detach", repo, "HEAD"])
    head = sh("git -C /repo rev-parse HEAD")[1].strip()
    sh("git -C %s checkout -q -- . && git -C %s checkout -q --detach %s" % (repo, repo, head))
    sh("rsync -a --delete --exclude target %s/harness/ %s/harness/" % (ROOT, sb))
    ct = open(sb + "/harness/Cargo.toml").read().replace('path = "/repo"', 'path = "%s"' % repo)
    open(sb + "/harness/Cargo.toml", "w").write(ct)
    if not os.path.exists(repo + "/Cargo.lock"):
        sh("cp /repo/Cargo.lock %s/Cargo.lock" % repo)
    bad = 0
    for seed in seeds:
        for i in range(1, 21):
            p = "C%02d" % i
            env = dict(os.environ, VERIF_SANDBOX=sb, VERIF_SEED=seed)
            rc, out = sh([os.path.join(ROOT, "check"), p], cwd=ROOT, env=env)
            lines = [l for l in out.split("\n") if l.startswith("VIOLATION") or " quick:" in l]
            if rc != 0 or any(l.startswith("VIOLATION") for l in lines):
                bad += 1
            print("seed %s %s rc=%d %s" % (seed, p, rc, " | ".join(lines)), flush=True)
    print("sweep done: %d problems" % bad, flush=True)


if __name__ == "__main__":
    main()
