"""C04 — MatrixGraph: plugin for the check pipeline."""
from lib import pipeline

LEVEL = "proof"
MODEL_FILES = ["Model/MatrixM.v"]
THEOREMS = []
STREAMS = [("C04", 900, 40000)]
SHARD = 3000
RELEASE_TOO = True
RULE = ("histories of add_node/try_add_node/remove_node/add_edge/update_edge/try_update_edge/add_or_update_edge/"
        "remove_edge/try_remove_edge/clear and queries, edge operations between live nodes, Directed and Undirected, "
        "Option and NotZero null element, u8/u16/u32/usize, with_capacity(k) for k = 0, odd, even; size tiers: most "
        "histories stay <= 17 nodes, one in eight reaches 20..35, one in 200 reaches 65 (crossing the 4/8/16/32/64 growth "
        "steps), one in 156 fills a u8 graph to its 255-node limit; after every mutating call the whole structure is "
        "dumped (counts, node references, edge references, edges/has_edge of every id below node_bound, incoming edges); "
        "debug and release builds. distinct = sha1 of the case; non-trivial = at least one matrix growth "
        "(an edge at an id >= 4) and one removal followed by a re-insertion")
ASSUMPTIONS = [
    "the Gallina model mirrors src/matrix_graph.rs (checked by the differential run on generated histories only)",
    "IndexSet is modelled as an insertion-ordered duplicate-free list with pop = last",
    "operations between non-existent nodes are outside the property's quantifier and are not generated "
    "(update_edge happily stores edges between ids that do not exist)",
    "hash order is irrelevant: ids are produced in ascending order by IdIterator",
]
SCOPE = "see Props/C04.v"


def nontrivial(stream, header, ops, obs):
    grew = any(o.split()[0] in ("add_edge", "update_edge", "add_or_update_edge") and max(int(x) for x in o.split()[1:3]) >= 4
               for o in ops)
    removed = False
    for o in ops:
        t = o.split()[0]
        if t in ("remove_node", "remove_edge", "try_remove_edge"):
            removed = True
        elif removed and t in ("add_node", "add_edge", "update_edge") and grew:
            return True
    return False


def compare(stream, header, ops, impl, model):
    return pipeline.generic_compare(impl, model)


def triples(xs):
    return [tuple(xs[i:i + 3]) for i in range(0, len(xs) - 2, 3)]


def oracle(stream, header, ops, obs):
    groups = pipeline.split_ops(obs)
    if len(groups) != len(ops):
        return {"class": "missing-observations", "got": len(groups), "want": len(ops)}
    h = [int(x) for x in header.split()[2:]]
    directed, notzero, cap, capcheck = h[0] == 1, h[1] == 1, h[3], h[4] == 1
    nodes = {}
    edges = {}      # key -> weight (None = unknown after a panicking add_edge)
    key = (lambda a, b: (a, b)) if directed else (lambda a, b: (min(a, b), max(a, b)))

    def bad(k, cls, want=None):
        return {"class": cls, "op_index": k, "op": ops[k], "got": groups[k][:8], "want": want}

    def nums(l):
        return [int(x) for x in l.split()[1:]]

    def wmatch(got, want):
        return want is None or got == want

    def check_battery(k, lines):
        if not lines or lines[0].split()[0] != "counts":
            return bad(k, "matrix-battery-missing")
        if any("mismatch" in x for x in lines):
            return bad(k, "matrix-accessors-disagree-with-each-other", [x for x in lines if "mismatch" in x][:2])
        c = nums(lines[0])
        if c[0] != len(nodes) or c[1] != len(edges):
            return bad(k, "matrix-node-or-edge-count-wrong", "counts %d %d" % (len(nodes), len(edges)))
        nl = nums(lines[1])
        got_nodes = [(nl[i], nl[i + 1]) for i in range(0, len(nl), 2)]
        if sorted(got_nodes) != sorted(nodes.items()) or len(set(i for i, _ in got_nodes)) != len(got_nodes):
            return bad(k, "matrix-node-references-wrong", sorted(nodes.items()))
        ub = c[2]
        if any(i >= ub for i in nodes):
            return bad(k, "matrix-node-bound-below-live-id")
        if len(lines) == 2:
            return None
        er = triples(nums(lines[2]))
        seen = {}
        for (a, b, w) in er:
            kk = key(a, b)
            if kk in seen or kk not in edges or not wmatch(w, edges[kk]):
                return bad(k, "matrix-edge-references-wrong", sorted(edges.items()))
            seen[kk] = w
        if len(seen) != len(edges):
            return bad(k, "matrix-edge-references-wrong", sorted(edges.items()))
        for kk, w in seen.items():
            edges[kk] = w
        idx = 3
        for a in range(ub):
            out = nums(lines[idx]); idx += 1
            has = nums(lines[idx]); idx += 1
            if out[0] != a or has[0] != a:
                return bad(k, "matrix-battery-misaligned")
            want = sorted((a, b, edges[key(a, b)]) for b in range(ub) if key(a, b) in edges and a in nodes and b in nodes)
            if sorted(triples(out[1:])) != want:
                return bad(k, "matrix-edges-of-node-wrong", want)
            if has[1:] != [b for (_, b, _) in want]:
                return bad(k, "matrix-has-edge-wrong", [b for (_, b, _) in want])
            if directed:
                inn = nums(lines[idx]); idx += 1
                wanti = sorted((s, edges[(s, a)]) for s in range(ub) if (s, a) in edges)
                goti = sorted(((y if x == a else x), w) if (x == a or y == a) else (-1, w) for (x, y, w) in triples(inn[1:]))
                # a self-loop reports (a, a)
                if goti != wanti:
                    return bad(k, "matrix-incoming-edges-wrong", wanti)
        return None

    for k, (o, g) in enumerate(zip(ops, groups)):
        t = o.split()
        a = [int(x) for x in t[1:]]
        first = g[0] if g else ""
        e = None
        name = t[0]
        if name in ("add_node", "try_add_node"):
            if capcheck and len(nodes) == cap:
                want = "panic" if name == "add_node" else "limit"
                if first != want:
                    return bad(k, "matrix-index-limit-not-reported", want)
            else:
                if not first.startswith("nat "):
                    return bad(k, "matrix-add-node-failed", "nat <fresh id>")
                i = int(first.split()[1])
                if i in nodes:
                    return bad(k, "matrix-new-node-got-live-id", "an id that is not live")
                nodes[i] = a[0]
            e = check_battery(k, g[1:])
        elif name == "remove_node":
            if a[0] in nodes:
                if first != "nat %d" % nodes[a[0]]:
                    return bad(k, "matrix-remove-node-wrong-weight", "nat %d" % nodes[a[0]])
                del nodes[a[0]]
                edges = {kk: w for kk, w in edges.items() if a[0] not in kk}
            elif first != "panic":
                return bad(k, "matrix-remove-absent-node-did-not-panic", "panic")
            e = check_battery(k, g[1:])
        elif name in ("add_edge", "update_edge", "try_update_edge", "add_or_update_edge"):
            x, y, w = a
            if x not in nodes or y not in nodes:
                return None   # outside the property's quantifier: stop judging this history
            kk = key(x, y)
            if notzero and w == 0:
                if first != "panic":
                    return bad(k, "matrix-zero-weight-accepted-by-notzero", "panic")
            elif name == "add_edge":
                if kk in edges:
                    if first != "panic":
                        return bad(k, "matrix-add-existing-edge-did-not-panic", "panic")
                    edges[kk] = None      # overwritten before the panic: either weight is accepted afterwards
                else:
                    if first != "unit":
                        return bad(k, "matrix-add-edge-failed", "unit")
                    edges[kk] = w
            else:
                if name == "try_update_edge" and first.startswith("err"):
                    pass   # capacity-based rejection: nothing may change (checked by the battery)
                else:
                    want = "none" if kk not in edges else ("some %d" % edges[kk] if edges[kk] is not None else None)
                    if want is not None and first != want:
                        return bad(k, "matrix-update-edge-previous-weight-wrong", want)
                    edges[kk] = w
            e = check_battery(k, g[1:])
        elif name in ("remove_edge", "try_remove_edge"):
            x, y = a
            kk = key(x, y)
            if kk in edges:
                w = edges[kk]
                want = None if w is None else ("nat %d" % w if name == "remove_edge" else "some %d" % w)
                if want is not None and first != want:
                    return bad(k, "matrix-remove-edge-wrong-weight", want)
                if first in ("panic", "none"):
                    return bad(k, "matrix-remove-existing-edge-failed")
                del edges[kk]
            else:
                want = "panic" if name == "remove_edge" else "none"
                if first != want:
                    return bad(k, "matrix-remove-missing-edge", want)
            e = check_battery(k, g[1:])
        elif name == "clear":
            nodes, edges = {}, {}
            e = check_battery(k, g[1:])
        elif name == "has_edge":
            want = "bool %d" % int(key(a[0], a[1]) in edges)
            if first != want:
                return bad(k, "matrix-has-edge-wrong", want)
        elif name == "get_edge_weight":
            kk = key(a[0], a[1])
            if kk in edges and edges[kk] is not None:
                if first != "some %d" % edges[kk]:
                    return bad(k, "matrix-edge-weight-wrong", "some %d" % edges[kk])
            elif kk not in edges and first != "none":
                return bad(k, "matrix-edge-weight-wrong", "none")
        elif name == "get_node_weight":
            want = "some %d" % nodes[a[0]] if a[0] in nodes else "none"
            if first != want:
                return bad(k, "matrix-node-weight-wrong", want)
        if e:
            return e
    return None


def plant(stream, header, ops, obs):
    groups = pipeline.split_ops(obs)
    for k, (o, g) in enumerate(zip(ops, groups)):
        if o.startswith("has_edge") and g and g[0].startswith("bool"):
            new = []
            for j, gg in enumerate(groups):
                new += ([("bool 0" if g[0] == "bool 1" else "bool 1")] if j == k else gg) + [";"]
            if oracle(stream, header, ops, new) is None:
                continue
            return new
    return None


def shrink(stream, header, ops, obs, failure):
    k = failure.get("op_index")
    return ops[:k + 1] if isinstance(k, int) else ops
