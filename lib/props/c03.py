"""C03 — GraphMap: plugin for the check pipeline."""
from collections import Counter
from lib import pipeline

LEVEL = "proof"
MODEL_FILES = ["Model/GraphMapM.v"]
THEOREMS = []
STREAMS = [("C03", 1500, 60000)]
SHARD = 3000
RELEASE_TOO = True
RULE = ("(every add_edge is repeated through data::Build::add_edge on a clone; the battery also walks all_edges() and nodes() from the back, and checks EdgeIndexable) histories of add_node/remove_node/add_edge/remove_edge/clear/edge_weight_mut/extend/into_graph+from_graph and "
        "queries over a pool of 3..7 i32 node values including negatives, 12% self-loops, reciprocal directed pairs, "
        "removals aimed at existing edges in either orientation, Directed and Undirected, RandomState and FxHasher, "
        "debug and release builds; after every mutating call the whole map is dumped (nodes, all_edges, and for every "
        "node neighbors / neighbors_directed x2 / edges / edges_directed x2, to_index/from_index). "
        "distinct = sha1 of the case; non-trivial = an edge removed (directly or through its endpoint) and an edge added later")
ASSUMPTIONS = [
    "the Gallina model mirrors src/graphmap.rs (checked by the differential run on generated histories only)",
    "IndexMap is modelled as an insertion-ordered association list with swap_remove; hashing itself (indexmap, hashbrown) is trusted",
    "node values are integers; the theorems use only decidable equality and a total order on them",
]
SCOPE = "see Props/C03.v"


def nontrivial(stream, header, ops, obs):
    removed = False
    for o in ops:
        t = o.split()[0]
        if t in ("remove_edge", "remove_node"):
            removed = True
        elif removed and t in ("add_edge", "extend"):
            return True
    return False


def compare(stream, header, ops, impl, model):
    return pipeline.generic_compare(impl, model)


def nums(l):
    return [int(x) for x in l.split()[1:]]


def trip(xs):
    return [tuple(xs[i:i + 3]) for i in range(0, len(xs) - 2, 3)]


def oracle(stream, header, ops, obs):
    groups = pipeline.split_ops(obs)
    if len(groups) != len(ops):
        return {"class": "missing-observations", "got": len(groups), "want": len(ops)}
    directed = header.split()[2] == "1"
    nodes = []          # insertion-insensitive: a set, kept as list for messages
    edges = {}
    key = (lambda a, b: (a, b)) if directed else (lambda a, b: (min(a, b), max(a, b)))

    def bad(k, cls, want=None):
        return {"class": cls, "op_index": k, "op": ops[k], "got": groups[k][:10], "want": want}

    def add_edge(a, b, w):
        for x in (a, b):
            if x not in nodes:
                nodes.append(x)
        old = edges.get(key(a, b))
        edges[key(a, b)] = w
        return old

    def out_edges(a):
        if directed:
            return [(a, y, w) for (x, y), w in edges.items() if x == a]
        return [(a, (y if x == a else x), w) for (x, y), w in edges.items() if x == a or y == a]

    def in_edges(a):
        if directed:
            return [(x, a, w) for (x, y), w in edges.items() if y == a]
        return [((y if x == a else x), a, w) for (x, y), w in edges.items() if x == a or y == a]

    def check_battery(k, lines):
        if len(lines) < 3:
            return bad(k, "graphmap-battery-missing")
        if lines[0] != "counts %d %d" % (len(nodes), len(edges)):
            return bad(k, "graphmap-counts-wrong", "counts %d %d" % (len(nodes), len(edges)))
        nl = nums(lines[1])
        if sorted(nl) != sorted(nodes) or len(set(nl)) != len(nl):
            return bad(k, "graphmap-nodes-wrong", sorted(nodes))
        er = trip(nums(lines[2]))
        if Counter((key(a, b), w) for (a, b, w) in er) != Counter(edges.items()):
            return bad(k, "graphmap-all-edges-wrong", sorted(edges.items()))
        if len(lines) != 3 + 6 * len(nl):
            return bad(k, "graphmap-battery-misaligned-or-flagged", lines[3 + 6 * len(nl):][:3])
        for j, a in enumerate(nl):
            blk = lines[3 + 6 * j: 9 + 6 * j]
            vals = [nums(x) for x in blk]
            if any(v[0] != a for v in vals):
                return bad(k, "graphmap-battery-misaligned")
            oe, ie = out_edges(a), in_edges(a)
            want_nb = Counter(y for (_, y, _) in oe)
            want_in = Counter(x for (x, _, _) in ie)
            if Counter(vals[0][1:]) != want_nb:
                return bad(k, "graphmap-neighbors-wrong", sorted(want_nb.elements()))
            if Counter(vals[1][1:]) != want_nb:
                return bad(k, "graphmap-neighbors-outgoing-wrong", sorted(want_nb.elements()))
            if Counter(vals[2][1:]) != want_in:
                return bad(k, "graphmap-neighbors-incoming-wrong", sorted(want_in.elements()))
            if Counter(trip(vals[3][1:])) != Counter(oe):
                return bad(k, "graphmap-edges-wrong", sorted(oe))
            if Counter(trip(vals[4][1:])) != Counter(oe):
                return bad(k, "graphmap-edges-outgoing-wrong", sorted(oe))
            if Counter(trip(vals[5][1:])) != Counter(ie):
                return bad(k, "graphmap-edges-incoming-wrong", sorted(ie))
        return None

    for k, (o, g) in enumerate(zip(ops, groups)):
        t = o.split()
        a = [int(x) for x in t[1:]]
        first = g[0] if g else ""
        e = None
        name = t[0]
        if name == "add_node":
            if first != "some %d" % a[0]:
                return bad(k, "graphmap-add-node-return", "some %d" % a[0])
            if a[0] not in nodes:
                nodes.append(a[0])
            e = check_battery(k, g[1:])
        elif name == "remove_node":
            want = "bool %d" % int(a[0] in nodes)
            if first != want:
                return bad(k, "graphmap-remove-node-return", want)
            if a[0] in nodes:
                nodes.remove(a[0])
                edges = {kk: w for kk, w in edges.items() if a[0] not in kk}
            e = check_battery(k, g[1:])
        elif name == "add_edge":
            old = add_edge(*a)
            want = "none" if old is None else "some %d" % old
            if first != want:
                return bad(k, "graphmap-add-edge-previous-weight", want)
            e = check_battery(k, g[1:])
        elif name == "remove_edge":
            old = edges.pop(key(a[0], a[1]), None)
            want = "none" if old is None else "some %d" % old
            if first != want:
                return bad(k, "graphmap-remove-edge-return", want)
            e = check_battery(k, g[1:])
        elif name == "clear":
            nodes, edges = [], {}
            e = check_battery(k, g[1:])
        elif name == "set_edge_weight":
            kk = key(a[0], a[1])
            if first != "bool %d" % int(kk in edges):
                return bad(k, "graphmap-edge-weight-mut", "bool %d" % int(kk in edges))
            if kk in edges:
                edges[kk] = a[2]
            e = check_battery(k, g[1:])
        elif name == "extend":
            for (x, y, w) in trip(a):
                add_edge(x, y, w)
            e = check_battery(k, g[1:])
        elif name == "contains_node":
            if first != "bool %d" % int(a[0] in nodes):
                return bad(k, "graphmap-contains-node-wrong")
        elif name == "contains_edge":
            if first != "bool %d" % int(key(a[0], a[1]) in edges):
                return bad(k, "graphmap-contains-edge-wrong")
        elif name == "edge_weight":
            w = edges.get(key(a[0], a[1]))
            want = "none" if w is None else "some %d" % w
            if first != want:
                return bad(k, "graphmap-edge-weight-wrong", want)
        elif name == "neighbors":
            if Counter(nums(first)[1:]) != Counter(y for (_, y, _) in out_edges(a[0])):
                return bad(k, "graphmap-neighbors-wrong")
        elif name == "edges_directed":
            want = out_edges(a[0]) if a[1] == 1 else in_edges(a[0])
            if Counter(trip(nums(first)[1:])) != Counter(want):
                return bad(k, "graphmap-edges-directed-wrong", sorted(want))
        elif name == "into_graph":
            if len(g) != 2:
                return bad(k, "graphmap-into-from-graph-mismatch")
            gn = nums(g[0])
            if sorted(gn) != sorted(nodes) or len(set(gn)) != len(gn):
                return bad(k, "graphmap-into-graph-nodes-wrong")
            ge = trip(nums(g[1]))
            try:
                got = Counter((key(gn[s], gn[t]), w) for (s, t, w) in ge)
            except IndexError:
                return bad(k, "graphmap-into-graph-edge-index-out-of-range")
            if got != Counter(edges.items()):
                return bad(k, "graphmap-into-graph-edges-wrong")
        if e:
            return e
    return None


def plant(stream, header, ops, obs):
    groups = pipeline.split_ops(obs)
    for k, (o, g) in enumerate(zip(ops, groups)):
        if o.startswith("contains_edge") and g and g[0].startswith("bool"):
            new = []
            for j, gg in enumerate(groups):
                new += ([("bool 0" if g[0] == "bool 1" else "bool 1")] if j == k else gg) + [";"]
            return new
    return None


def shrink(stream, header, ops, obs, failure):
    k = failure.get("op_index")
    return ops[:k + 1] if isinstance(k, int) else ops
