"""C06 — one consistent graph through the visit traits, for every type and adaptor: plugin for the check pipeline.
The oracle re-derives, from edge_references and node_identifiers alone, what every other trait must show, and what each
adaptor must present (reversed / symmetrised / node-induced / edge-restricted / identical graph)."""
from collections import Counter
from lib import pipeline

LEVEL = "proof"
MODEL_FILES = ["Model/FullView.v"]
THEOREMS = []
EXTRA_PROPS = ["C06b"]
STREAMS = [("C06", 3000, 100000)]
SHARD = 3000
RELEASE_TOO = True
RULE = ("random multigraphs of 1..8 nodes (self-loops, parallel edges where the type allows) held in Graph (after random swap-removals "
        "of nodes and edges), StableGraph with node and edge vacancies, GraphMap (shuffled insertion, a removed node), MatrixGraph "
        "directed and undirected with removed ids, Csr directed and undirected, adj::List; both edge types; every trait the type "
        "implements is dumped: node_identifiers, node_references, node_count, node_bound, to_index/from_index round trip, visit_map "
        "length, edge_references, edge_count, edge_bound, edges/neighbors and edges_directed/neighbors_directed(Incoming and "
        "Outgoing) of every node with the reported source and target, is_adjacent for all ordered pairs; then the same dump through "
        "Reversed, UndirectedAdaptor, NodeFiltered (20-bit random mask), EdgeFiltered (weight mod m), Frozen, and eleven stackings of "
        "depth 2 (Reversed o NodeFiltered, NodeFiltered o Reversed, EdgeFiltered o NodeFiltered, Reversed o Reversed, ...); the "
        "extracted Coq checker judges the base dump, the Coq adaptor functions predict every adaptor dump line by line; debug and "
        "release. distinct = sha1 of the case; non-trivial = at least 3 edges and a vacancy or a filter that removes something")
ASSUMPTIONS = [
    "the base dump is taken from the running crate; the Coq model starts from it (it is the input of the checker and of the adaptor functions)",
    "edge ids of MatrixGraph and adj::List are synthesised from the reported endpoints / successor position; Csr edge ids are not compared across traits",
]
SCOPE = "see Props/C06.v"

OPS_BASE = ("node", "out", "in", "nb", "nbin", "erefs", "nrefs", "adj")


def ints(t):
    return [int(x) for x in t]


def quads(a):
    return [tuple(a[i:i + 4]) for i in range(0, len(a) - 3, 4)]


def new_fv(directed, bound, vcap, ecount, ebound, ncount, compact, ids_ok, has_in, has_adj):
    return {"directed": directed, "bound": bound, "vcap": vcap, "ecount": ecount, "ebound": ebound, "ncount": ncount,
            "compact": compact, "ids_ok": ids_ok, "has_in": has_in, "has_adj": has_adj,
            "nodes": [], "nrefs": [], "out": {}, "in": {}, "nb": {}, "nbin": {}, "erefs": [], "adj": {}, "flags": []}


def parse_base(header, ops):
    h = ints(header.split()[2:])
    f = new_fv(h[0] == 1, h[1], h[2], h[3], h[4], h[7], h[8] == 1, h[9] == 1, h[10] == 1, h[11] == 1)
    f["kind"] = h[6]
    queries = []
    for k, o in enumerate(ops):
        t = o.split()
        a = ints(t[1:])
        if t[0] == "node":
            f["nodes"].append(a[0])
        elif t[0] == "out":
            f["out"][a[0]] = quads(a[1:])
        elif t[0] == "in":
            f["in"][a[0]] = quads(a[1:])
        elif t[0] == "nb":
            f["nb"][a[0]] = a[1:]
        elif t[0] == "nbin":
            f["nbin"][a[0]] = a[1:]
        elif t[0] == "erefs":
            f["erefs"] = quads(a)
        elif t[0] == "nrefs":
            f["nrefs"] = [(a[i], a[i + 1]) for i in range(0, len(a) - 1, 2)]
        elif t[0] == "adj":
            f["adj"][a[0]] = a[1:]
        else:
            queries.append((k, t[0], a))
    return f, queries


def parse_dump(lines, ids_ok):
    """an adaptor's observation -> fview; which traits exist is read off the lines present"""
    f = None
    for l in lines:
        t = l.split()
        if not t:
            continue
        a = ints(t[1:]) if all(x.lstrip("-").isdigit() for x in t[1:]) else []
        if t[0] == "vhdr":
            f = new_fv(a[0] == 1, a[1], a[2], a[3], a[4], a[5], a[6] == 1, ids_ok, False, False)
        elif f is None:
            continue
        elif t[0] == "nodes":
            f["nodes"] = a
        elif t[0] == "nrefs":
            f["nrefs"] = [(a[i], a[i + 1]) for i in range(0, len(a) - 1, 2)]
        elif t[0] == "out":
            f["out"][a[0]] = quads(a[1:])
        elif t[0] == "in":
            f["in"][a[0]] = quads(a[1:])
            f["has_in"] = True
        elif t[0] == "nb":
            f["nb"][a[0]] = a[1:]
        elif t[0] == "nbin":
            f["nbin"][a[0]] = a[1:]
        elif t[0] == "erefs":
            f["erefs"] = quads(a)
        elif t[0] == "adj":
            f["adj"][a[0]] = a[1:]
            f["has_adj"] = True
        elif "mismatch" in t[0]:
            f["flags"].append(t[0])
    return f


def key(f, q):
    return q if f["ids_ok"] else q[1:]


def check_view(f):
    """the consistency demanded by the property, decided from edge_references and node_identifiers; returns a class or None"""
    nodes = f["nodes"]
    if f["flags"]:
        return "view-" + f["flags"][0]
    if len(set(nodes)) != len(nodes) or any(not (0 <= a < f["bound"]) for a in nodes):
        return "view-node-identifiers-repeat-or-exceed-node-bound"
    if f["vcap"] >= 0 and any(a >= f["vcap"] for a in nodes):
        return "view-visit-map-too-short-for-a-live-node"
    if f["ncount"] >= 0 and f["ncount"] != len(nodes):
        return "view-node-count-disagrees-with-node-identifiers"
    if f["compact"] and sorted(nodes) != list(range(f["bound"])):
        return "view-compact-indexable-but-indices-are-not-0-to-node-bound"
    if [a for (a, _) in f["nrefs"]] != nodes:
        return "view-node-references-disagree-with-node-identifiers"
    er = f["erefs"]
    if any(s not in nodes or t not in nodes for (_, s, t, _) in er):
        return "view-edge-references-name-a-node-that-is-not-listed"
    if f["ecount"] >= 0 and f["ecount"] != len(er):
        return "view-edge-count-disagrees-with-edge-references"
    if f["ids_ok"]:
        ids = [e for (e, _, _, _) in er]
        if len(set(ids)) != len(ids):
            return "view-edge-references-yield-an-edge-twice"
        if f["ebound"] >= 0 and any(e >= f["ebound"] for e in ids):
            return "view-edge-index-exceeds-edge-bound"
    if list(f["out"]) != nodes or list(f["nb"]) != nodes:
        return "view-edges-or-neighbors-missing-for-a-node"
    d = f["directed"]
    for a in nodes:
        want = Counter()
        for q in er:
            (e, s, t, w) = q
            if s == a:
                want[key(f, q)] += 1
            elif not d and t == a:
                want[key(f, (e, t, s, w))] += 1
        got = Counter(key(f, q) for q in f["out"][a])
        if got != want:
            if any(q[1] != a for q in f["out"][a]) and Counter(key(f, q if q[1] == a else (q[0], q[2], q[1], q[3])) for q in f["out"][a]) == want:
                return "view-edges-not-oriented-from-the-queried-node"
            return "view-edges-of-a-node-are-not-the-matching-edge-references"
        if f["nb"][a] != [q[2] for q in f["out"][a]]:
            return "view-neighbors-disagree-with-edges"
    if f["has_in"]:
        if list(f["in"]) != nodes or list(f["nbin"]) != nodes:
            return "view-incoming-edges-missing-for-a-node"
        for a in nodes:
            want = Counter()
            for q in er:
                (e, s, t, w) = q
                if t == a:
                    want[key(f, q)] += 1
                elif not d and s == a:
                    want[key(f, (e, t, s, w))] += 1
            if Counter(key(f, q) for q in f["in"][a]) != want:
                return "view-incoming-edges-are-not-the-matching-edge-references"
            if f["nbin"][a] != [q[1] for q in f["in"][a]]:
                return "view-incoming-neighbors-disagree-with-incoming-edges"
    if f["has_adj"]:
        pairs = {(s, t) for (_, s, t, _) in er}
        if not d:
            pairs |= {(t, s) for (s, t) in pairs}
        for a in nodes:
            if set(f["adj"].get(a, [])) != {b for b in nodes if (a, b) in pairs}:
                return "view-is-adjacent-disagrees-with-the-edges"
    return None


def node_pred(p1, p2, n):
    return (p1 >> (n % 20)) & 1 == 1 or p2 == n


def edge_pred(p1, p2, w):
    return w % max(1, p1) != p2


def expect(kind, p1, p2, nodes, erefs, directed):
    """(nodes, erefs, directed) the adaptor must present"""
    if kind == 1:
        return nodes, [(e, t, s, w) for (e, s, t, w) in erefs], directed
    if kind == 2:
        return nodes, erefs, False
    if kind == 3:
        keep = [a for a in nodes if node_pred(p1, p2, a)]
        return keep, [q for q in erefs if q[1] in keep and q[2] in keep], directed
    if kind == 4:
        return nodes, [q for q in erefs if edge_pred(p1, p2, q[3])], directed
    return nodes, erefs, directed


NAMES = {1: "reversed", 2: "undirected-adaptor", 3: "node-filtered", 4: "edge-filtered", 5: "frozen"}


def canon_groups(obs):
    out = []
    for g in pipeline.split_ops(obs):
        out.append([l for l in g if l != "nat -1"])
    return out


def compare(stream, header, ops, impl, model):
    a = pipeline.split_ops(impl)
    b = pipeline.split_ops(model)
    if header.split()[8] == "13":
        # the harness put a dangling edge into a MatrixGraph on purpose (known finding): the graph is outside the model's
        # invariant, the case only witnesses the finding and is judged by the oracle
        return None
    for k in range(max(len(a), len(b))):
        x = a[k] if k < len(a) else None
        y = b[k] if k < len(b) else None
        if x is not None and y is not None and x and x[0] == "nat -1":
            x, y = x[1:], y[1:]          # no consistency claim made for this adaptor (known finding)
        if x is not None:
            x = [l for l in x if "mismatch" not in l]
        if x != y:
            return k
    return None


def nontrivial(stream, header, ops, obs):
    f, qs = parse_base(header, ops)
    if len(f["erefs"]) < 3:
        return False
    if len(f["nodes"]) < f["bound"]:
        return True
    groups = pipeline.split_ops(obs)
    for (k, name, a) in qs:
        if name.startswith("adaptor") and a[0] in (3, 4):
            g = parse_dump(groups[k], f["ids_ok"])
            if g and (len(g["nodes"]) < len(f["nodes"]) or len(g["erefs"]) < len(f["erefs"])):
                return True
    return False


def oracle(stream, header, ops, obs):
    groups = pipeline.split_ops(obs)
    if len(groups) != len(ops):
        return {"class": "missing-observations", "got": len(groups), "want": len(ops)}
    f, qs = parse_base(header, ops)

    def bad(k, cls, want=None):
        return {"class": cls, "op_index": k, "op": ops[k][:60], "got": groups[k][:3], "want": want, "kind": f["kind"], "directed": f["directed"]}

    for (k, name, a) in qs:
        g = groups[k]
        if name == "consistent":
            f["flags"] = [l for l in g if "mismatch" in l]
            cls = check_view(f)
            if cls == "view-edge-references-name-a-node-that-is-not-listed" and f["kind"] == 13:
                # known finding: the harness called update_edge(live, removed id) on purpose (kind 13); a dangling edge that
                # appears by itself on a MatrixGraph (kind 3) keeps the general class and is reported
                cls = "matrixgraph-edge-to-an-absent-node"
            if cls:
                return bad(k, cls)
            continue
        if not g or g[0] == "panic":
            return bad(k, "adaptor-panicked-on-a-valid-graph")
        d = parse_dump(g, f["ids_ok"])
        if d is None:
            return bad(k, "adaptor-dump-malformed")
        steps = [(a[0], a[1], a[2])] + ([(a[3], a[4], a[5])] if name == "adaptor2" else [])
        nodes, erefs, directed = f["nodes"], f["erefs"], f["directed"]
        for (kd, p1, p2) in steps:
            nodes, erefs, directed = expect(kd, p1, p2, nodes, erefs, directed)
        tag = "-of-".join(NAMES[s[0]] for s in reversed(steps))
        if d["nodes"] != nodes or d["directed"] != directed or d["bound"] != f["bound"]:
            return bad(k, tag + "-presents-the-wrong-node-set-or-edge-type", nodes)
        if Counter(key(f, q) for q in d["erefs"]) != Counter(key(f, q) for q in erefs):
            return bad(k, tag + "-edge-references-are-not-the-expected-edge-set", erefs[:6])
        cls = check_view(d)
        if cls:
            if any(s[0] == 2 for s in steps) and cls in ("view-edges-not-oriented-from-the-queried-node",
                                                         "view-edges-of-a-node-are-not-the-matching-edge-references"):
                loops_twice = any(sum(1 for q in d["out"][x] if q[1] == x and q[2] == x) >
                                  sum(1 for q in d["erefs"] if q[1] == x and q[2] == x) for x in d["nodes"])
                if not f["directed"] and cls.endswith("references"):
                    return bad(k, "undirected-adaptor-over-an-undirected-graph-lists-every-edge-twice")
                return bad(k, "undirected-adaptor-self-loop-listed-twice" if (cls.endswith("references") and loops_twice)
                           else "undirected-adaptor-edges-not-oriented-from-the-queried-node" if cls.endswith("node")
                           else tag + "-" + cls)
            return bad(k, tag + "-" + cls)
    return None


def plant(stream, header, ops, obs):
    groups = pipeline.split_ops(obs)
    for k, (o, g) in enumerate(zip(ops, groups)):
        if o.startswith("adaptor 1") and g and len(g) > 3:
            for j, l in enumerate(g):
                if l.startswith("erefs") and len(l.split()) > 4:
                    x = l.split()
                    x[2], x[3] = x[3], x[2]
                    if x[2] == x[3]:
                        continue
                    newg = g[:j] + [" ".join(x)] + g[j + 1:]
                    new = []
                    for q, gg in enumerate(groups):
                        new += (newg if q == k else gg) + [";"]
                    return new
    return None
