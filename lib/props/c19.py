"""C19 — UnionFind: plugin for the check pipeline."""
LEVEL = "proof"
RELEASE_TOO = True
MODEL_FILES = ["Model/UnionFindM.v"]
EXTRA_PROPS = ["C19b"]
THEOREMS = ["C19_refines", "C19_outputs", "C19_equiv_iff_connected",
            "C19_compression_invisible", "C19_err_unchanged", "C19_labeling"]
SCOPE = ("all call histories of new/new_set/find/find_mut/try_find/try_find_mut/equiv/try_equiv/union/"
         "try_union/into_labeling with in- and out-of-range arguments, any length, any size "
         "(index width enters only through which arguments are representable)")
QUICK_N = 3000
THOROUGH_N = 120000
SHARD = 6000
ORACLE_ONLY_N = 40000
RULE = ("histories generated from one SplitMix64 state (VERIF_SEED): 4..60 calls, 90% in-range arguments, "
        "u8/u16/u32/usize, one in eight starts at 250..255 elements of a u8 structure and grows to 256; "
        "distinct = sha1 of (n0, ops); non-trivial = at least two merging unions and a later find/equiv/labeling query")
ASSUMPTIONS = [
    "the Gallina model mirrors src/unionfind.rs (checked by differential run on generated histories only)",
    "capacity operations (reserve, shrink_to, ...) are the identity on the model; the harness calls the real ones",
    "rank is a nat in the model and a u8 in the crate: C19b_rank_bound proves every rank <= log2(len) <= 63 in every reachable state, so the u8 never overflows",
    "UnionFind::<u8>::new(n) for n > 256 wraps K::new and is outside the property's quantifier",
]


def is_union(op):
    return op.startswith("un ") or op.startswith("tun ")


def nontrivial(stream, header, ops, obs):
    merges = 0
    for o, v in zip(ops, obs):
        if is_union(o) and v in ("b true", "r ok true"):
            merges += 1
        elif merges >= 2 and o.split()[0] in ("f", "fm", "tf", "tfm", "eq", "teq", "lab"):
            return True
    return False


def norm(l):
    return " ".join(l.split())


def compare(stream, header, ops, impl, model):
    for k in range(max(len(impl), len(model), len(ops))):
        a = norm(impl[k]) if k < len(impl) else "<missing>"
        b = norm(model[k]) if k < len(model) else "<missing>"
        if a != b:
            return k
    return None


def oracle(stream, header, ops, obs):
    """Specification oracle, independent of the Coq model and of which member represents a class:
    a naive partition (list of labels) driven by the operations; every observation must be an
    answer the property allows."""
    n = int(header.split()[3])
    lab = list(range(n))          # class label per element
    rep = {}                      # class label -> representative observed since the class last changed

    def see_rep(x, r, k):
        if not (0 <= r < len(lab)) or lab[r] != lab[x]:
            return {"class": "representative-outside-class", "op_index": k, "op": ops[k], "got": obs[k]}
        c = lab[x]
        if c in rep and rep[c] != r:
            return {"class": "representative-not-fixed", "op_index": k, "op": ops[k], "got": obs[k],
                    "earlier": rep[c]}
        rep[c] = r
        return None

    if len(obs) != len(ops):
        return {"class": "missing-observations", "got": len(obs), "want": len(ops)}
    for k, (o, v) in enumerate(zip(ops, obs)):
        t = o.split()
        v = norm(v)
        n = len(lab)
        bad = lambda want: {"class": "wrong-answer:" + t[0], "op_index": k, "op": o, "got": v, "want": want}
        if t[0] == "ns":
            if v != "n %d" % n:
                return bad("n %d" % n)
            lab.append(max(lab) + 1 if lab else 0)
        elif t[0] in ("f", "fm"):
            x = int(t[1])
            if x >= n:
                if v != "panic":
                    return bad("panic")
            else:
                if not v.startswith("n "):
                    return bad("n <rep>")
                e = see_rep(x, int(v.split()[1]), k)
                if e:
                    return e
        elif t[0] in ("tf", "tfm"):
            x = int(t[1])
            if x >= n:
                if v != "o none":
                    return bad("o none")
            else:
                if not v.startswith("o ") or v == "o none":
                    return bad("o <rep>")
                e = see_rep(x, int(v.split()[1]), k)
                if e:
                    return e
        elif t[0] == "eq":
            x, y = int(t[1]), int(t[2])
            want = "panic" if (x >= n or y >= n) else "b %s" % str(lab[x] == lab[y]).lower()
            if v != want:
                return bad(want)
        elif t[0] == "teq":
            x, y = int(t[1]), int(t[2])
            want = ("r err %d" % x) if x >= n else ("r err %d" % y) if y >= n else "r ok %s" % str(lab[x] == lab[y]).lower()
            if v != want:
                return bad(want)
        elif t[0] in ("un", "tun"):
            x, y = int(t[1]), int(t[2])
            if x == y:
                merged, err = False, None
            elif x >= n:
                merged, err = False, x
            elif y >= n:
                merged, err = False, y
            else:
                merged, err = lab[x] != lab[y], None
            if t[0] == "un":
                want = "panic" if err is not None else "b %s" % str(merged).lower()
            else:
                want = ("r err %d" % err) if err is not None else "r ok %s" % str(merged).lower()
            if v != want:
                return bad(want)
            if merged:
                a, b = lab[x], lab[y]
                lab = [a if c == b else c for c in lab]
                rep.pop(a, None)
                rep.pop(b, None)
        elif t[0] == "lab":
            if not v.startswith("l"):
                return bad("l ...")
            l = [int(z) for z in v.split()[1:]]
            if len(l) != n:
                return bad("labeling of length %d" % n)
            for x, r in enumerate(l):
                e = see_rep(x, r, k)
                if e:
                    return e
        elif t[0] == "len":
            if v != "n %d" % n:
                return bad("n %d" % n)
        elif t[0] == "cap":
            if v != "u":
                return bad("u")
    return None


def plant(stream, header, ops, obs):
    """flip one equiv answer"""
    for k, (o, v) in enumerate(zip(ops, obs)):
        if o.startswith("eq ") and v.startswith("b "):
            p = list(obs)
            p[k] = "b false" if v == "b true" else "b true"
            return p
    return None


def shrink(stream, header, ops, obs, failure):
    k = failure.get("op_index")
    return ops[:k + 1] if isinstance(k, int) else ops
