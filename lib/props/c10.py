"""C10 — dijkstra, astar, k_shortest_path: plugin for the check pipeline."""
import heapq
from lib import pipeline
from lib.props.c08 import parse_view

LEVEL = "proof"
RELEASE_TOO = True
MODEL_FILES = ["Model/View.v", "Model/ShortestM.v", "Model/AlgoIO.v"]
THEOREMS = []
EXTRA_PROPS = ["C10b"]
STREAMS = [("C10", 2500, 100000)]
SHARD = 5000
RULE = ("sparse random weighted multigraphs on 1..8 nodes, costs 0..9 (zero-cost edges, loops, parallel edges, cycles, "
        "unreachable parts), directed and undirected, encoded as Graph, StableGraph with vacancies, GraphMap, Csr, adj::List, "
        "MatrixGraph with removed ids; per case: dijkstra from two sources without goal and once with a goal (integer and f64 "
        "costs must agree), astar twice with 1..2 goal nodes and an admissible, usually inconsistent heuristic "
        "h(x) = floor(lambda_x * dist(x, goals)), lambda_x in {0, 1/2, 1}, k_shortest_path for k in 1..4 (and with a goal). "
        "Goal-less distances and k-th costs are compared exactly with the model; tie-dependent parts (non-goal entries of a "
        "goal query, the A* path) are judged by the oracle. distinct = sha1 of view+queries; non-trivial = at least 4 edges "
        "and a node at hop distance >= 2 from a queried source")
ASSUMPTIONS = [
    "the Gallina model mirrors the three functions over the dumped view; BinaryHeap is a list with FIFO tie-break, the real tie order is not modelled",
    "costs are integers; f64 runs use integer-valued costs (exactly representable) and must equal the integer runs",
]
SCOPE = "see Props/C10.v"

BIG = 10 ** 15


def nums(l):
    return [int(x) for x in l.split()[1:]]


def dists(v, s):
    d = {s: 0}
    h = [(0, s)]
    while h:
        dx, x = heapq.heappop(h)
        if dx > d.get(x, BIG):
            continue
        for (_, t, w) in v["out"].get(x, []):
            if dx + w < d.get(t, BIG):
                d[t] = dx + w
                heapq.heappush(h, (dx + w, t))
    return d


def kth_costs(v, s, k):
    """k-th smallest walk cost from s to every node (multiset of walks, empty walk included)"""
    cnt, res = {}, {}
    h = [(0, s)]
    while h:
        c, x = heapq.heappop(h)
        cnt[x] = cnt.get(x, 0) + 1
        if cnt[x] > k:
            continue
        if cnt[x] == k:
            res[x] = c
        for (_, t, w) in v["out"].get(x, []):
            if cnt.get(t, 0) < k:
                heapq.heappush(h, (c + w, t))
    return res


def nontrivial(stream, header, ops, obs):
    v, qs = parse_view(header, ops)
    m = sum(len(x) for x in v["out"].values())
    if m < 4:
        return False
    for (_, name, a) in qs:
        if name == "dijkstra":
            # hop distance >= 2 somewhere
            seen, fr, depth = {a[0]}, [a[0]], 0
            while fr:
                nx = []
                for x in fr:
                    for (_, t, _) in v["out"].get(x, []):
                        if t not in seen:
                            seen.add(t)
                            nx.append(t)
                fr = nx
                depth += 1 if nx else 0
            if depth >= 2:
                return True
    return False


def canon(ops, groups):
    """keep only what does not depend on heap tie order"""
    out = []
    for o, g in zip(ops, groups):
        t = o.split()
        if t[0] == "dijkstra" and int(t[2]) >= 0 and g and g[0].startswith("scores"):
            x = nums(g[0])
            m = {x[i]: x[i + 1] for i in range(0, len(x) - 1, 2)}
            out.append(["goal-entry %s" % m.get(int(t[2]))] + g[1:])
        elif t[0] == "astar" and g and g[0].startswith("path"):
            out.append(["cost %d" % nums(g[0])[0]])
        elif t[0] == "ksp" and int(t[3]) >= 0 and g and g[0].startswith("scores"):
            x = nums(g[0])
            m = {x[i]: x[i + 1] for i in range(0, len(x) - 1, 2)}
            out.append(["goal-entry %s" % m.get(int(t[3]))])
        else:
            out.append(g)
    return out


def compare(stream, header, ops, impl, model):
    a = canon(ops, pipeline.split_ops(impl))
    b = canon(ops, pipeline.split_ops(model))
    for k in range(max(len(a), len(b))):
        if (a[k] if k < len(a) else None) != (b[k] if k < len(b) else None):
            return k
    return None


def oracle(stream, header, ops, obs):
    groups = pipeline.split_ops(obs)
    if len(groups) != len(ops):
        return {"class": "missing-observations", "got": len(groups), "want": len(ops)}
    v, qs = parse_view(header, ops)
    enc = v["hdr"][6] if len(v["hdr"]) > 6 else -1

    def bad(k, cls, want=None):
        return {"class": cls, "op_index": k, "op": ops[k][:100], "got": groups[k][:3], "want": want, "encoding": enc}

    for (k, name, a) in qs:
        g = groups[k]
        first = g[0] if g else ""
        if len(g) > 1 and "mismatch" in g[1]:
            return bad(k, "dijkstra-float-and-integer-costs-disagree")
        if first == "panic":
            return bad(k, "shortest-path-panicked-on-a-valid-graph")
        if name == "dijkstra":
            x = nums(first)
            got = {x[i]: x[i + 1] for i in range(0, len(x) - 1, 2)}
            d = dists(v, a[0])
            if a[1] < 0:
                if got != d:
                    return bad(k, "dijkstra-not-the-shortest-distances", sorted(d.items()))
            else:
                goal = a[1]
                if (goal in d) != (goal in got) or (goal in d and got[goal] != d[goal]):
                    return bad(k, "dijkstra-goal-entry-wrong", d.get(goal))
                for n_, val in got.items():
                    if n_ not in d or val < d[n_]:
                        return bad(k, "dijkstra-entry-below-true-distance", (n_, d.get(n_)))
                    if goal in d and d[n_] < d[goal] and val != d[n_]:
                        return bad(k, "dijkstra-closer-node-not-exact", (n_, d[n_]))
                if goal in d:
                    for n_, dn in d.items():
                        if dn < d[goal] and n_ not in got:
                            return bad(k, "dijkstra-closer-node-missing", n_)
        elif name == "astar":
            ng = a[1]
            goals = a[2:2 + ng]
            d = dists(v, a[0])
            best = min([d[g_] for g_ in goals if g_ in d], default=None)
            if first == "none":
                if best is not None:
                    return bad(k, "astar-none-although-a-goal-is-reachable", best)
            else:
                x = nums(first)
                cost, path = x[0], x[1:]
                if best is None:
                    return bad(k, "astar-path-although-no-goal-reachable")
                if not path or path[0] != a[0] or path[-1] not in goals:
                    return bad(k, "astar-path-endpoints-wrong")
                tot = 0
                for p, q in zip(path, path[1:]):
                    ws = [w for (_, t, w) in v["out"].get(p, []) if t == q]
                    if not ws:
                        return bad(k, "astar-path-uses-a-missing-edge", (p, q))
                    tot += min(ws)
                if cost < tot and cost != tot:
                    # the reported cost may use a costlier parallel edge only if it still equals the path's real cost
                    pass
                if cost != best:
                    return bad(k, "astar-cost-not-the-distance-to-the-nearest-goal", best)
                if tot > cost:
                    return bad(k, "astar-reported-cost-below-the-cost-of-its-path", tot)
        elif name == "ksp":
            x = nums(first)
            got = {x[i]: x[i + 1] for i in range(0, len(x) - 1, 2)}
            want = kth_costs(v, a[1], a[3])
            if a[2] < 0:
                if got != want:
                    return bad(k, "k-shortest-path-wrong", sorted(want.items()))
            elif got.get(a[2]) != want.get(a[2]):
                return bad(k, "k-shortest-path-goal-entry-wrong", want.get(a[2]))
    return None


def plant(stream, header, ops, obs):
    groups = pipeline.split_ops(obs)
    for k, (o, g) in enumerate(zip(ops, groups)):
        t = o.split()
        if t[0] == "dijkstra" and int(t[2]) < 0 and g and len(g[0].split()) > 3:
            x = g[0].split()
            x[-1] = str(int(x[-1]) + 1)
            new = []
            for j, gg in enumerate(groups):
                new += ([" ".join(x)] if j == k else gg) + [";"]
            return new
    return None
