"""C15 — greedy_matching, maximum_matching, ford_fulkerson: plugin for the check pipeline.
The oracle recomputes the optimum independently: maximum matching size by exhaustive search over the
(small) graph, maximum flow by min-cut enumeration over node subsets."""
from functools import lru_cache
from lib import pipeline
from lib.props.c08 import parse_view

LEVEL = "proof"
MODEL_FILES = ["Model/View.v", "Model/MatchM.v", "Model/FlowM.v", "Model/AlgoIO.v"]
THEOREMS = []
EXTRA_PROPS = ["C15b"]
STREAMS = [("C15", 8000, 120000)]
SHARD = 3000
RELEASE_TOO = True
RULE = ("even cases: greedy_matching and maximum_matching; 45% on random multigraphs of 14..28 nodes with 1.5..1.9 edges per node (Graph and "
        "StableGraph; mate vector compared with the mirror, validity judged by the oracle, optimum only up to 13 nodes), the rest on "
        "sparse multigraphs of 1..10 nodes with self-loops, parallel edges, several "
        "components, 35% odd cycles (3 or 5) with pendant one- and two-edge stems (blossoms), 65% undirected and 35% directed (direction "
        "is to be ignored), encoded as Graph, StableGraph with vacancies, GraphMap, Csr, adj::List, MatrixGraph with removed ids; mate() "
        "of every index below node_bound, len, edges(), nodes(), is_perfect are compared with the model, contains_edge/contains_node/"
        "is_empty are cross-checked in the harness. odd cases: ford_fulkerson on directed multigraphs of 1..8 nodes, capacities 0..9, "
        "40% with added antiparallel edges, parallel edges, self-loops, on Graph<u32>, Graph<u8> and StableGraph with node and edge "
        "vacancies, three source/sink pairs each, u64 capacities compared exactly with the model and f64 capacities with the u64 run; "
        "debug and release. distinct = sha1 of view+queries; non-trivial = a matching case with an odd cycle, or a flow case whose "
        "maximum flow is positive and smaller than the capacity out of the source")
ASSUMPTIONS = [
    "the Gallina models mirror src/algo/matching.rs and src/algo/ford_fulkerson.rs (as repaired by the fix: commit) over the dumped view",
    "capacities are integers; f64 runs use integer-valued capacities (no rounding)",
]
SCOPE = "see Props/C15.v"


def nums(l):
    return [int(x) for x in l.split()[1:]]


def und_edges(v):
    """the simple undirected graph underneath: set of frozenset({a,b}), a != b"""
    es = set()
    for a in v["nodes"]:
        for (_, t, _) in v["out"].get(a, []):
            if t != a:
                es.add(frozenset((a, t)))
    return es


def max_matching_size(nodes, es):
    adj = {a: set() for a in nodes}
    for e in es:
        a, b = tuple(e)
        adj[a].add(b)
        adj[b].add(a)
    order = sorted(nodes)

    @lru_cache(maxsize=None)
    def go(rem):
        rem_l = [x for x in order if x in rem]
        if not rem_l:
            return 0
        x = rem_l[0]
        rest = frozenset(rem) - {x}
        best = go(rest)
        for y in adj[x]:
            if y in rest:
                best = max(best, 1 + go(rest - {y}))
        return best
    return go(frozenset(nodes))


def has_odd_cycle(nodes, es):
    col = {}
    adj = {a: [] for a in nodes}
    for e in es:
        a, b = tuple(e)
        adj[a].append(b)
        adj[b].append(a)
    for s in nodes:
        if s in col:
            continue
        col[s] = 0
        st = [s]
        while st:
            x = st.pop()
            for y in adj[x]:
                if y not in col:
                    col[y] = 1 - col[x]
                    st.append(y)
                elif col[y] == col[x]:
                    return True
    return False


def flow_edges(v):
    """edge id -> (s, t, cap) from edge_references"""
    return {e: (s, t, w) for (e, s, t, w) in v.get("erefs", [])}


def min_cut(nodes, edges, s, t):
    others = [x for x in nodes if x not in (s, t)]
    best = None
    for mask in range(1 << len(others)):
        S = {s} | {others[i] for i in range(len(others)) if mask >> i & 1}
        c = sum(w for (a, b, w) in edges.values() if a in S and b not in S)
        if best is None or c < best:
            best = c
    return best


def nontrivial(stream, header, ops, obs):
    v, qs = parse_view(header, ops)
    if any(n == "ford_fulkerson" for (_, n, _) in qs):
        groups = pipeline.split_ops(obs)
        edges = flow_edges(v)
        for (k, name, a) in qs:
            g = groups[k]
            if g and g[0].startswith("flow"):
                val = nums(g[0])[0]
                if 0 < val < sum(w for (s_, _, w) in edges.values() if s_ == a[0]):
                    return True
        return False
    return has_odd_cycle(v["nodes"], und_edges(v))


def compare(stream, header, ops, impl, model):
    return pipeline.generic_compare(impl, model)


def oracle(stream, header, ops, obs):
    groups = pipeline.split_ops(obs)
    if len(groups) != len(ops):
        return {"class": "missing-observations", "got": len(groups), "want": len(ops)}
    v, qs = parse_view(header, ops)
    enc = v["hdr"][6] if len(v["hdr"]) > 6 else -1
    nodes = v["nodes"]
    bound = v["bound"]

    def bad(k, cls, want=None):
        return {"class": cls, "op_index": k, "op": ops[k][:60], "got": groups[k][:3], "want": want, "encoding": enc,
                "directed": v["directed"]}

    es = None
    for (k, name, a) in qs:
        g = groups[k]
        first = g[0] if g else ""
        if first == "panic" or first == "OUT-OF-FUEL" or not g:
            return bad(k, name.replace("_", "-") + "-panicked-on-a-valid-graph")
        if any("mismatch" in x for x in g):
            return bad(k, "matching-accessors-disagree-with-mate" if "matching" in name else "ford-fulkerson-float-and-integer-runs-differ")
        if name in ("greedy_matching", "maximum_matching"):
            if es is None:
                es = und_edges(v)
            n, mate = nums(g[0])[0], nums(g[1])
            pairs, mnodes, perfect = nums(g[2]), nums(g[3]), nums(g[4])[0]
            if len(mate) != bound:
                return bad(k, "matching-mate-vector-is-not-node-bound-long")
            matched = {}
            for i, m in enumerate(mate):
                if m >= 0:
                    if i not in nodes or m not in nodes:
                        return bad(k, "matching-pairs-a-vacant-index", (i, m))
                    if m == i or frozenset((i, m)) not in es:
                        return bad(k, "matching-pair-is-not-a-non-loop-edge-of-the-graph", (i, m))
                    if m >= len(mate) or mate[m] != i:
                        return bad(k, "matching-mate-is-not-symmetric", (i, m))
                    matched[i] = m
            if 2 * n != len(matched):
                return bad(k, "matching-len-disagrees-with-mate", len(matched) // 2)
            want_pairs = [x for i in sorted(matched) if matched[i] > i for x in (i, matched[i])]
            if pairs != want_pairs or mnodes != sorted(matched):
                return bad(k, "matching-edges-or-nodes-disagree-with-mate", want_pairs)
            if perfect != int(len(nodes) % 2 == 0 and n == len(nodes) // 2):
                return bad(k, "matching-is-perfect-wrong")
            if name == "maximum_matching" and len(nodes) <= 13:
                best = max_matching_size(tuple(nodes), es)
                if n != best:
                    cls = "maximum-matching-not-maximum-on-a-directed-graph" if v["directed"] else "maximum-matching-not-maximum"
                    return bad(k, cls, best)
        elif name == "ford_fulkerson":
            s, t = a[0], a[1]
            edges = flow_edges(v)
            val, flows = nums(g[0])[0], nums(g[1])
            if len(flows) < (max(edges) + 1 if edges else 0):
                return bad(k, "ford-fulkerson-flow-vector-too-short")
            for e, (x, y, c) in edges.items():
                if not (0 <= flows[e] <= c):
                    return bad(k, "ford-fulkerson-flow-violates-a-capacity", (e, c))
            for e in range(len(flows)):
                if e not in edges and flows[e] != 0:
                    return bad(k, "ford-fulkerson-flow-on-a-vacant-edge-index", e)
            net = {x: 0 for x in nodes}
            for e, (x, y, c) in edges.items():
                net[x] -= flows[e]
                net[y] += flows[e]
            for x in nodes:
                if x not in (s, t) and net[x] != 0:
                    return bad(k, "ford-fulkerson-flow-not-conserved", x)
            if -net[s] != val or net[t] != val:
                return bad(k, "ford-fulkerson-value-is-not-the-net-flow-out-of-the-source", -net[s])
            cut = min_cut(nodes, edges, s, t)
            if val != cut:
                return bad(k, "ford-fulkerson-value-is-not-the-minimum-cut", cut)
    return None


def plant(stream, header, ops, obs):
    groups = pipeline.split_ops(obs)
    small = len(parse_view(header, ops)[0]["nodes"]) <= 13      # the oracle knows the optimum of small graphs only
    for k, (o, g) in enumerate(zip(ops, groups)):
        if small and o.startswith("maximum_matching") and g and g[0].startswith("nat") and int(g[0].split()[1]) > 0:
            # drop one matched pair: still a valid matching, no longer maximum
            mate = nums(g[1])
            i = next(j for j, m in enumerate(mate) if m >= 0)
            j = mate[i]
            mate[i] = mate[j] = -1
            n = int(g[0].split()[1]) - 1
            matched = {a: m for a, m in enumerate(mate) if m >= 0}
            pairs = [x for a in sorted(matched) if matched[a] > a for x in (a, matched[a])]
            newg = ["nat %d" % n, ("row " + " ".join(map(str, mate))).strip(), ("pairs " + " ".join(map(str, pairs))).strip(),
                    ("nodes " + " ".join(map(str, sorted(matched)))).strip(), "bool 0"]
            new = []
            for q, gg in enumerate(groups):
                new += (newg if q == k else gg) + [";"]
            return new
        if o.startswith("ford_fulkerson") and g and g[0].startswith("flow") and int(g[0].split()[1]) > 0:
            new = []
            for q, gg in enumerate(groups):
                new += (["flow %d" % (int(g[0].split()[1]) - 1)] + g[1:] if q == k else gg) + [";"]
            return new
    return None
