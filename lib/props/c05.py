"""C05 — Csr and adj::List: plugin for the check pipeline."""
from lib import pipeline

LEVEL = "proof"
RELEASE_TOO = True
MODEL_FILES = ["Model/CsrM.v", "Model/AdjListM.v"]
THEOREMS = []  # filled below from the Props file contents expected
STREAMS = [("C05csr", 500, 20000), ("C05list", 1200, 60000)]
SHARD = 2500
ORACLE_ONLY_N = 0
RULE = ("Csr (from_sorted_edges lists half dense, half sparse with targets beyond the largest source): histories of add_node/try_add_edge/add_edge/clear_edges/contains_edge/out_degree/slices, 10% out-of-range "
        "endpoints, Directed and Undirected, u8/u16/u32/usize; one case in six builds a row of 30..48 neighbours around one "
        "node in ascending, descending or shuffled order (both sides of the 32-neighbour binary-search cutoff) with membership "
        "queries after every insertion past 28; one in twelve feeds from_sorted_edges sorted or perturbed input. "
        "List: histories of add_node/add_edge/update_edge/clear and every query, stale and out-of-range edge indices included. "
        "After every mutating call the whole structure is dumped. distinct = sha1 of the case; non-trivial = at least 3 "
        "successful edge insertions and one later query or rejected insertion")
ASSUMPTIONS = [
    "the Gallina models mirror src/csr.rs and src/adj.rs (checked by the differential run on generated histories only)",
    "slice::binary_search is modelled by the size-halving loop of core; on a strictly ascending row its result is unique, which is what the theorem uses",
    "index-width wrap-around (Ix::new(i) as u8 beyond 255 nodes) is outside the generated histories",
    "weights are opaque numbers",
]
SCOPE = "see Props/C05.v"


def nontrivial(stream, header, ops, obs):
    groups = pipeline.split_ops(obs)
    ins = 0
    for o, g in zip(ops, groups):
        name = o.split()[0]
        first = g[0] if g else ""
        if name in ("try_add_edge", "add_edge", "update_edge") and (first.startswith("bool 1") or first.startswith("eidx")):
            ins += 1
        elif ins >= 3 and (name in ("contains_edge", "find_edge", "out_degree", "edge_weight", "edge_endpoints", "neighbors")
                           or first in ("bool 0", "panic") or first.startswith("err")):
            return True
        if name == "from_sorted_edges" and len(o.split()) > 7:
            return True
    return False


def compare(stream, header, ops, impl, model):
    return pipeline.generic_compare(impl, model)


def nums(l):
    return [int(x) for x in l.split()[1:]]


# --------------------------------------------------------------------------- oracles

def oracle(stream, header, ops, obs):
    groups = pipeline.split_ops(obs)
    if len(groups) != len(ops):
        return {"class": "missing-observations", "got": len(groups), "want": len(ops)}
    if stream == "C05csr":
        return oracle_csr(header, ops, groups)
    return oracle_list(header, ops, groups)


def oracle_csr(header, ops, groups):
    h = [int(x) for x in header.split()[2:]]
    directed, n0 = h[0] == 1, h[1]
    nw = [0] * n0
    edges = {}   # (a,b) -> w ; undirected: both orientations

    def bad(k, cls, want=None):
        return {"class": cls, "op_index": k, "op": ops[k], "got": groups[k][:6], "want": want}

    def check_battery(k, lines):
        n = len(nw)
        m = len(edges) if directed else sum(1 for (a, b) in edges if a <= b)
        want = ["counts %d %d" % (n, m), ("nw " + " ".join(map(str, nw))).strip()]
        if lines[:2] != want:
            return bad(k, "csr-counts-or-node-weights-wrong", want)
        rows = lines[3:]
        if len(rows) != 2 * n:
            return bad(k, "csr-row-dump-incomplete", "%d rows" % n)
        flat = []
        eidx = 0
        for a in range(n):
            ts = sorted(b for (x, b) in edges if x == a)
            wr = "row " + " ".join(map(str, [a] + ts))
            ww = "wrow " + " ".join(map(str, [a] + [edges[(a, t)] for t in ts]))
            if rows[2 * a] != wr:
                return bad(k, "csr-row-not-the-inserted-targets-ascending", wr)
            if rows[2 * a + 1] != ww:
                return bad(k, "csr-weights-wrong", ww)
            for t in ts:
                # an undirected edge is yielded only from its smaller endpoint; the index counts every stored entry
                if directed or t >= a:
                    flat += [eidx, a, t, edges[(a, t)]]
                eidx += 1
        if lines[2] != ("erefs " + " ".join(map(str, flat))).strip():
            return bad(k, "csr-edge-references-disagree-with-rows")
        return None

    for k, (o, g) in enumerate(zip(ops, groups)):
        t = o.split()
        a = [int(x) for x in t[1:]]
        n = len(nw)
        first = g[0] if g else ""
        if t[0] == "add_node":
            if first != "idx %d" % n:
                return bad(k, "csr-add-node-index", "idx %d" % n)
            nw.append(a[0])
            e = check_battery(k, g[1:])
        elif t[0] in ("try_add_edge", "add_edge"):
            x, y, w = a
            if x >= n or y >= n:
                want = "panic" if t[0] == "add_edge" else "err %d %d" % (x, y)
                if first != want:
                    return bad(k, "csr-out-of-range-endpoint-not-rejected", want)
            elif (x, y) in edges:
                if first != "bool 0":
                    return bad(k, "csr-add-existing-edge-not-false", "bool 0")
            else:
                if first != "bool 1":
                    return bad(k, "csr-add-new-edge-not-true", "bool 1")
                edges[(x, y)] = w
                if not directed:
                    edges[(y, x)] = w
            e = check_battery(k, g[1:])
        elif t[0] == "clear_edges":
            edges = {}
            e = check_battery(k, g[1:])
        elif t[0] == "contains_edge":
            e = None
            if a[0] < n:
                want = "bool %d" % int((a[0], a[1]) in edges)
                if first != want:
                    return bad(k, "csr-contains-edge-wrong", want)
        elif t[0] == "out_degree":
            e = None
            if a[0] < n:
                want = "nat %d" % sum(1 for (x, _) in edges if x == a[0])
                if first != want:
                    return bad(k, "csr-out-degree-wrong", want)
        elif t[0] in ("neighbors_slice", "edges_slice"):
            e = None
            if a[0] < n:
                ts = sorted(b for (x, b) in edges if x == a[0])
                vals = ts if t[0] == "neighbors_slice" else [edges[(a[0], b)] for b in ts]
                want = ("row " if t[0] == "neighbors_slice" else "wrow ") + " ".join(map(str, [a[0]] + vals))
                if first != want:
                    return bad(k, "csr-slice-wrong", want)
        elif t[0] == "from_sorted_edges":
            tr = [(a[i], a[i + 1], a[i + 2]) for i in range(0, len(a) - 2, 3)]
            pairs = [(x, y) for (x, y, _) in tr]
            ok = all(pairs[i] < pairs[i + 1] for i in range(len(pairs) - 1))
            e = None
            if not ok:
                if first != "notsorted":
                    return bad(k, "csr-from-sorted-edges-accepts-unsorted", "notsorted")
            else:
                if first != "unit":
                    return bad(k, "csr-from-sorted-edges-rejects-sorted", "unit")
                nn = (max(max(x, y) for (x, y) in pairs) + 1) if pairs else 0
                nw = [0] * nn
                edges = {(x, y): w for (x, y, w) in tr}
                e = check_battery(k, g[1:])
        else:
            e = None
        if e:
            return e
    return None


def oracle_list(header, ops, groups):
    rows = []

    def bad(k, cls, want=None):
        return {"class": cls, "op_index": k, "op": ops[k], "got": groups[k][:6], "want": want}

    def check_battery(k, lines):
        n = len(rows)
        m = sum(len(r) for r in rows)
        er, ei = [], []
        for a, r in enumerate(rows):
            for i, (b, w) in enumerate(r):
                er += [a, i, b, w]
                ei += [a, i]
        want = ["counts %d %d" % (n, m), ("erefs " + " ".join(map(str, er))).strip(),
                ("eidxs " + " ".join(map(str, ei))).strip()]
        if lines != want:
            return bad(k, "list-structure-differs-from-insertions", want)
        return None

    for k, (o, g) in enumerate(zip(ops, groups)):
        t = o.split()
        a = [int(x) for x in t[1:]]
        n = len(rows)
        first = g[0] if g else ""
        e = None
        if t[0] == "add_node":
            if first != "nat %d" % n:
                return bad(k, "list-add-node-index", "nat %d" % n)
            rows.append([])
            e = check_battery(k, g[1:])
        elif t[0] == "add_edge":
            x, y, w = a
            if x >= n or y >= n:
                if first != "panic":
                    return bad(k, "list-add-edge-out-of-range-endpoint-not-rejected", "panic")
            else:
                if first != "eidx %d %d" % (x, len(rows[x])):
                    return bad(k, "list-add-edge-index", "eidx %d %d" % (x, len(rows[x])))
                rows[x].append((y, w))
            e = check_battery(k, g[1:])
        elif t[0] == "update_edge":
            x, y, w = a
            if x >= n or y >= n:
                if first != "panic":
                    return bad(k, "list-update-edge-out-of-range-endpoint-not-rejected", "panic")
            else:
                idx = next((i for i, (b, _) in enumerate(rows[x]) if b == y), None)
                if idx is None:
                    idx = len(rows[x])
                    rows[x].append((y, w))
                else:
                    rows[x][idx] = (y, w)
                if first != "eidx %d %d" % (x, idx):
                    return bad(k, "list-update-edge-index", "eidx %d %d" % (x, idx))
            e = check_battery(k, g[1:])
        elif t[0] == "clear":
            rows = []
            e = check_battery(k, g[1:])
        elif t[0] == "contains_edge":
            want = "bool %d" % int(a[0] < n and any(b == a[1] for (b, _) in rows[a[0]]))
            if first != want:
                return bad(k, "list-contains-edge-wrong", want)
        elif t[0] == "find_edge":
            idx = next((i for i, (b, _) in enumerate(rows[a[0]]) if b == a[1]), None) if a[0] < n else None
            want = "none" if idx is None else "pair %d %d" % (a[0], idx)
            if first != want:
                return bad(k, "list-find-edge-wrong", want)
        elif t[0] in ("edge_endpoints", "edge_weight"):
            ok = a[0] < n and a[1] < len(rows[a[0]])
            if not ok:
                want = "none"
            elif t[0] == "edge_endpoints":
                want = "pair %d %d" % (a[0], rows[a[0]][a[1]][0])
            else:
                want = "nat %d" % rows[a[0]][a[1]][1]
            if first != want:
                return bad(k, "list-edge-lookup-wrong", want)
        elif t[0] == "set_edge_weight":
            ok = a[0] < n and a[1] < len(rows[a[0]])
            if first != "bool %d" % int(ok):
                return bad(k, "list-edge-weight-mut-wrong", "bool %d" % int(ok))
            if ok:
                rows[a[0]][a[1]] = (rows[a[0]][a[1]][0], a[2])
            e = check_battery(k, g[1:])
        elif t[0] == "edge_indices_from":
            want = "panic" if a[0] >= n else ("eidxs " + " ".join("%d %d" % (a[0], i) for i in range(len(rows[a[0]])))).strip()
            if first != want:
                return bad(k, "list-edge-indices-from-wrong", want)
        elif t[0] == "neighbors":
            want = "panic" if a[0] >= n else ("row " + " ".join(str(b) for (b, _) in rows[a[0]])).strip()
            if first != want:
                return bad(k, "list-neighbors-wrong", want)
        if e:
            return e
    return None


def plant(stream, header, ops, obs):
    groups = pipeline.split_ops(obs)
    for k, (o, g) in enumerate(zip(ops, groups)):
        if o.startswith("contains_edge") and g and g[0].startswith("bool") and int(o.split()[1]) < 3:
            # only plant where the oracle judges (queried node exists): node index small and case has nodes
            g2 = [("bool 0" if g[0] == "bool 1" else "bool 1")]
            new = []
            for j, gg in enumerate(groups):
                new += (g2 if j == k else gg) + [";"]
            if oracle(stream, header, ops, new) is None:
                continue
            return new
    return None


def shrink(stream, header, ops, obs, failure):
    k = failure.get("op_index")
    return ops[:k + 1] if isinstance(k, int) else ops
