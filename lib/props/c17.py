"""C17 — serde round trip and robustness: plugin for the check pipeline."""
from lib import pipeline

LEVEL = "proof"
MODEL_FILES = ["Model/SerdeM.v", "Model/SerdeIO.v", "Model/GraphM.v", "Model/StableM.v", "Model/SerdeGM.v", "Model/GraphMapM.v"]
THEOREMS = []
EXTRA_PROPS = ["C17b"]
STREAMS = [("C17g", 1200, 40000), ("C17s", 1200, 40000), ("C17m", 1500, 40000)]
SHARD = 1500
RELEASE_TOO = True
RULE = ("Graph and StableGraph histories (add/remove nodes and edges, reverse) interleaved with: ser (the serde value is "
        "compared with the model's wire value; the JSON and bincode byte streams are both decoded again inside the harness and "
        "must give the same graph), roundtrip (deserialize own value and continue on the result), deser of generated wire values "
        "(0..5 nodes, hole lists sorted/unsorted/duplicated/out of range, 12% bad or vacant endpoints, null edges, 10% wrong edge "
        "property), xload (a Graph stream loaded as StableGraph and back), bytemut (12 byte-level mutations of the JSON and bincode "
        "streams: truncate, bit flip, splice; any Ok result is then used further), and one case in 60 a u8 graph with 254 then 255 "
        "nodes; u16/u32 otherwise; debug and release. distinct = sha1 of the case; non-trivial = a round trip of a graph with at "
        "least one removal before it, or a deser of a wire with holes. Stream C17m: GraphMap<i32,i32> histories (the C03 operations, "
        "directed and undirected, RandomState and fxhash) interleaved with ser (wire compared with the model and, by the oracle, with "
        "the map's own nodes and edges; JSON and bincode decoded again; 12 byte-level mutations), roundtrip (continue on the reloaded "
        "map, node order included) and deser of generated wires (0..6 node weights 15% duplicated, parallel and antiparallel edges, "
        "self-loops, 6% holes, 4% null edges, 6% wrong edge property, 5% endpoints out of range); non-trivial = a roundtrip after a "
        "removal or a deser wire with a duplicated node weight or a repeated edge")
ASSUMPTIONS = [
    "the model works on the serde VALUE (nodes, node_holes, edge_property, edges); serde_json and bincode byte codecs are trusted and only exercised differentially",
    "weights are u32 numbers (i32 keys and weights for GraphMap)",
]
SCOPE = "see Props/C17.v"


def nums(l):
    return [int(x) for x in l.split()[1:]]


def nontrivial(stream, header, ops, obs):
    if stream == "C17m":
        return nontrivial_gm(header, ops)
    removed = False
    for o in ops:
        t = o.split()
        if t[0] in ("remove_node", "remove_edge"):
            removed = True
        elif t[0] == "roundtrip" and removed:
            return True
        elif t[0] == "deser" and len(t) > 2:
            a = [int(x) for x in t[1:]]
            if a[1 + a[0]] > 0:
                return True
    return False


def compare(stream, header, ops, impl, model):
    return pipeline.generic_compare(impl, model)


def canon_battery(lines):
    out = []
    for l in lines:
        t = l.split()
        if t and t[0] in ("nbo", "nbi", "nbu"):
            out.append(" ".join(t[:2] + sorted(t[2:], key=int)))
        elif t and t[0] in ("edo", "edi"):
            q = sorted(tuple(int(x) for x in t[i:i + 4]) for i in range(2, len(t) - 3, 4))
            out.append(" ".join(t[:2] + [str(x) for c in q for x in c]))
        else:
            out.append(l)
    return out


def parse_wire(a):
    nn = a[0]
    nodes = a[1:1 + nn]
    nh = a[1 + nn]
    holes = a[2 + nn:2 + nn + nh]
    p = 2 + nn + nh
    directed = a[p] == 1
    ne = a[p + 1]
    edges = []
    for k in range(ne):
        c = a[p + 2 + 4 * k:p + 6 + 4 * k]
        edges.append(tuple(c[1:]) if c[0] == 1 else None)
    return nodes, holes, directed, edges


def expect_deser(stable, directed, cap, capcheck, wire):
    """(ok, slots, edges) per the documented acceptance rules; slots: weight or None per index"""
    nodes, holes, wdir, edges = wire
    if wdir != directed:
        return False, None, None
    if capcheck and len(edges) >= cap:
        return False, None, None
    if not stable:
        if holes or any(e is None for e in edges):
            return False, None, None
        slots = list(nodes)
    else:
        total = len(nodes) + len(holes)
        slots, pos, rest = [], 0, list(nodes)
        for h in holes:
            if not (pos <= h < total):
                return False, None, None
            k = h - pos
            if len(rest) < k:
                return False, None, None
            slots += rest[:k] + [None]
            rest = rest[k:]
            pos = h + 1
        slots += rest
    if capcheck and len(slots) >= cap:
        return False, None, None
    for e in edges:
        if e is not None:
            for x in e[:2]:
                if x >= len(slots) or slots[x] is None:
                    return False, None, None
    return True, slots, edges


def nontrivial_gm(header, ops):
    removed = False
    for o in ops:
        t = o.split()
        if t[0] in ("remove_node", "remove_edge"):
            removed = True
        elif t[0] == "roundtrip" and removed:
            return True
        elif t[0] == "deser":
            nodes, holes, wdir, edges = parse_wire([int(x) for x in t[1:]])
            es = [e[:2] for e in edges if e is not None]
            if len(set(nodes)) != len(nodes) or len(set(es)) != len(es):
                return True
    return False


def gm_key(directed, a, b):
    return (a, b) if directed or a <= b else (b, a)


def gm_content(bat):
    """(node list, [(key, weight)] in all_edges order) from a GraphMap battery"""
    n = nums(bat[1])
    e = nums(bat[2])
    return n, [((e[i], e[i + 1]), e[i + 2]) for i in range(0, len(e) - 2, 3)]


def oracle_gm(header, ops, obs):
    groups = pipeline.split_ops(obs)
    if len(groups) != len(ops):
        return {"class": "missing-observations", "got": len(groups), "want": len(ops)}
    directed = int(header.split()[2]) == 1
    cur = ([], [])

    def bad(k, cls, want=None):
        return {"class": cls, "op_index": k, "op": ops[k][:100], "got": groups[k][:4], "want": want}

    for k, (o, g) in enumerate(zip(ops, groups)):
        t = o.split()
        a = [int(x) for x in t[1:]]
        name = t[0]
        first = g[0] if g else ""
        if first == "panic" and name in ("ser", "roundtrip", "deser"):
            return bad(k, "serde-deserialization-panicked")
        if any("battery-panic" in x or "mismatch" in x for x in g):
            return bad(k, "serde-graph-inconsistent-under-further-use")
        if any(x.startswith("panic-on-mutated") for x in g):
            return bad(k, "serde-mutated-stream-panics-or-corrupts")
        if any(x.startswith("codec-") for x in g):
            return bad(k, "serde-json-or-bincode-round-trip-differs")
        if name == "ser":
            nodes, holes, wdir, edges = parse_wire(nums(first))
            if cur is not None:
                want_edges = sorted(cur[1])
                try:
                    got_edges = sorted((gm_key(directed, nodes[e[0]], nodes[e[1]]), e[2]) for e in edges)
                except (TypeError, IndexError):
                    got_edges = None
                if nodes != cur[0] or holes or wdir != directed or got_edges != want_edges:
                    return bad(k, "serde-graphmap-stream-is-not-the-map", [cur[0], want_edges])
        elif name == "roundtrip":
            if first != "unit":
                return bad(k, "serde-round-trip-rejected-its-own-output")
            new = gm_content(g[1:])
            if cur is not None and (new[0] != cur[0] or sorted(new[1]) != sorted(cur[1])):
                return bad(k, "serde-round-trip-changed-the-graph", [cur[0], sorted(cur[1])])
            cur = new
        elif name == "deser":
            nodes, holes, wdir, edges = parse_wire(a)
            ok = not holes and wdir == directed and all(e is not None and 0 <= e[0] < len(nodes) and 0 <= e[1] < len(nodes) for e in edges)
            if (first == "unit") != ok:
                return bad(k, "serde-accepts-or-rejects-the-wrong-input", "Ok" if ok else "Err")
            if ok:
                want_nodes = list(dict.fromkeys(nodes))
                want_edges = {}
                for e in edges:
                    want_edges[gm_key(directed, nodes[e[0]], nodes[e[1]])] = e[2]
                new = gm_content(g[1:])
                if new[0] != want_nodes or new[1] != list(want_edges.items()):
                    return bad(k, "serde-loaded-graph-differs-from-the-stream", [want_nodes, list(want_edges.items())])
                cur = new
        elif len(g) > 3 and g[1].startswith("counts"):
            cur = gm_content(g[1:])
    return None


def oracle(stream, header, ops, obs):
    if stream == "C17m":
        return oracle_gm(header, ops, obs)
    groups = pipeline.split_ops(obs)
    if len(groups) != len(ops):
        return {"class": "missing-observations", "got": len(groups), "want": len(ops)}
    h = [int(x) for x in header.split()[2:]]
    directed, cap, capcheck = h[0] == 1, h[2], h[3] == 1
    stable = stream == "C17s"
    last_battery = None      # canonical battery of the current graph, when known

    def bad(k, cls, want=None):
        return {"class": cls, "op_index": k, "op": ops[k][:100], "got": groups[k][:4], "want": want}

    def content(bat):
        """(slots dict index->weight, edges dict index->(s,t,w)) from a battery"""
        if stable:
            n = nums(bat[1])
            e = nums(bat[2])
            return ({n[i]: n[i + 1] for i in range(0, len(n) - 1, 2)},
                    {e[i]: tuple(e[i + 1:i + 4]) for i in range(0, len(e) - 3, 4)})
        n = nums(bat[1])
        e = nums(bat[2])
        return (dict(enumerate(n)), {i // 3: tuple(e[i:i + 3]) for i in range(0, len(e) - 2, 3)})

    for k, (o, g) in enumerate(zip(ops, groups)):
        t = o.split()
        a = [int(x) for x in t[1:]]
        name = t[0]
        first = g[0] if g else ""
        if any("battery-panic" in x or "mismatch" in x for x in g):
            return bad(k, "serde-graph-inconsistent-under-further-use")
        if name == "ser":
            if len(g) > 1:
                return bad(k, "serde-json-or-bincode-round-trip-differs", g[1])
        elif name == "roundtrip":
            if first == "panic":
                return bad(k, "serde-deserialization-panicked")
            if first == "err":
                if last_battery is not None:
                    n_slots = int(last_battery[0].split()[3 if stable else 1])
                    n_edges = int(last_battery[0].split()[4 if stable else 2])
                    if capcheck and (n_slots >= cap or n_edges >= cap):
                        return bad(k, "serde-full-graph-not-reloadable", "Ok")
                return bad(k, "serde-round-trip-rejected-its-own-output")
            new = canon_battery(g[1:])
            if last_battery is not None:
                old = last_battery
                if stable:
                    # vacancies beyond the bounds are not part of the stream; bounds and contents must agree
                    if new != old:
                        return bad(k, "serde-round-trip-changed-the-graph")
                elif new != old:
                    return bad(k, "serde-round-trip-changed-the-graph")
            last_battery = new
        elif name == "deser":
            if first == "panic":
                return bad(k, "serde-deserialization-panicked")
            ok, slots, edges = expect_deser(stable, directed, cap, capcheck, parse_wire(a))
            if (first == "unit") != ok:
                return bad(k, "serde-accepts-or-rejects-the-wrong-input", "Ok" if ok else "Err")
            if ok:
                got_nodes, got_edges = content(g[1:])
                want_nodes = {i: w for i, w in enumerate(slots) if w is not None}
                want_edges = {i: tuple(e) for i, e in enumerate(edges) if e is not None}
                if got_nodes != want_nodes or got_edges != want_edges:
                    return bad(k, "serde-loaded-graph-differs-from-the-stream", [want_nodes, want_edges])
                last_battery = canon_battery(g[1:])
        elif name == "xload":
            if first == "panic":
                return bad(k, "serde-deserialization-panicked")
            if last_battery is not None:
                nodes_now, edges_now = content(last_battery)
                if not stable:
                    if first != "unit":
                        n_slots = len(nodes_now)
                        if not (capcheck and (n_slots >= cap or len(edges_now) >= cap)):
                            return bad(k, "serde-graph-stream-rejected-by-stablegraph")
                    else:
                        n = nums(g[2])
                        e = nums(g[3])
                        if {n[i]: n[i + 1] for i in range(0, len(n) - 1, 2)} != nodes_now or \
                                {e[i]: tuple(e[i + 1:i + 4]) for i in range(0, len(e) - 3, 4)} != edges_now:
                            return bad(k, "serde-cross-load-changed-indices")
                else:
                    bounds = nums(last_battery[0])
                    vac = len(nodes_now) != bounds[2] or len(edges_now) != bounds[3]
                    if vac and first == "unit":
                        return bad(k, "serde-stablegraph-stream-with-vacancies-accepted-by-graph")
                    if not vac and first != "unit":
                        return bad(k, "serde-vacancy-free-stablegraph-stream-rejected-by-graph")
        elif name == "bytemut":
            if first != "robust":
                return bad(k, "serde-mutated-stream-panics-or-corrupts", first)
        else:
            # a history operation: remember the battery when the op dumped one
            if len(g) > 3:
                last_battery = canon_battery(g[1:])
    return None


def plant(stream, header, ops, obs):
    groups = pipeline.split_ops(obs)
    for k, (o, g) in enumerate(zip(ops, groups)):
        if o.startswith("deser") and g and g[0] == "err":
            new = []
            for j, gg in enumerate(groups):
                new += ((["unit"] + groups[max(0, k - 1)][1:]) if j == k else gg) + [";"]
            if oracle(stream, header, ops, new) is None:
                continue
            return new
    return None


def shrink(stream, header, ops, obs, failure):
    k = failure.get("op_index")
    return ops[:k + 1] if isinstance(k, int) else ops
