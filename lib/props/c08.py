"""C08 — Dfs, Bfs, DfsPostOrder, Topo, depth_first_search: plugin for the check pipeline."""
from lib import pipeline

LEVEL = "proof"
RELEASE_TOO = True
MODEL_FILES = ["Model/View.v", "Model/Traversal.v"]
THEOREMS = []
STREAMS = [("C08", 4000, 150000)]
SHARD = 5000
RULE = ("sparse random directed and undirected multigraphs on 1..9 nodes (10% self-loops, 12% parallel edges, unreachable "
        "parts, cycles) built as Graph<u32>, Graph<u8>, StableGraph with vacancies, GraphMap, Csr, adj::List, MatrixGraph with "
        "removed ids, Reversed<&Graph> and NodeFiltered<&Graph>; the graph is dumped through the visit traits and 3..7 queries "
        "are run: Dfs, Dfs+move_to after k steps, Dfs+reset, DfsPostOrder (+move_to), Bfs, Topo, Topo::with_initials, "
        "depth_first_search with 1..3 start nodes (or all) and 0..3 control rules (Prune/Break on a given event kind and node); "
        "emitted sequences are compared exactly with the model. distinct = sha1 of view+queries; non-trivial = the view has a "
        "cycle or at least two components, and at least 3 edges")
ASSUMPTIONS = [
    "the Gallina model mirrors src/visit/traversal.rs and src/visit/dfsvisit.rs over the dumped view (checked by the differential run only)",
    "FixedBitSet::put panics out of range and contains() returns false there; HashSet visit maps are unbounded",
    "visitor closures are rule tables keyed by (event kind, node); arbitrary closures are a model parameter (ctl)",
]
SCOPE = "see Props/C08.v"


def parse_view(header, ops):
    h = [int(x) for x in header.split()[2:]]
    nodes, out, inn, queries, erefs = [], {}, {}, [], []
    for k, o in enumerate(ops):
        t = o.split()
        a = [int(x) for x in t[1:]]
        if t[0] == "node":
            nodes.append(a[0])
        elif t[0] == "out":
            out[a[0]] = [(a[i], a[i + 1], a[i + 2]) for i in range(1, len(a) - 2, 3)]
        elif t[0] == "in":
            inn[a[0]] = [(a[i], a[i + 1], a[i + 2]) for i in range(1, len(a) - 2, 3)]
        elif t[0] == "erefs":
            erefs = [(a[i], a[i + 1], a[i + 2], a[i + 3]) for i in range(0, len(a) - 3, 4)]
        elif t[0] == "neighbors_edges_mismatch":
            pass
        else:
            queries.append((k, t[0], a))
    if not inn:
        for a in nodes:
            inn.setdefault(a, [])
        for a in nodes:
            for (e, t_, w) in out.get(a, []):
                inn.setdefault(t_, []).append((e, a, w))
    return {"directed": h[0] == 1, "bound": h[1], "vcap": h[2], "nodes": nodes, "out": out, "in": inn, "hdr": h,
            "erefs": erefs}, queries


def succ(v, a):
    return [t for (_, t, _) in v["out"].get(a, [])]


def reach(v, s, blocked=()):
    if s in blocked:
        return set()
    seen, st = {s}, [s]
    while st:
        x = st.pop()
        for y in succ(v, x):
            if y not in seen and y not in blocked:
                seen.add(y)
                st.append(y)
    return seen


def nontrivial(stream, header, ops, obs):
    v, qs = parse_view(header, ops)
    m = sum(len(x) for x in v["out"].values())
    if m < 3 or not v["nodes"]:
        return False
    comp = reach(v, v["nodes"][0])
    cyc = any(a in reach(v, t) for a in v["nodes"] for t in succ(v, a))
    return cyc or len(comp) < len(v["nodes"])


def compare(stream, header, ops, impl, model):
    return pipeline.generic_compare(impl, model)


def nums(l):
    return [int(x) for x in l.split()[1:]]


def hops(v, s):
    d, q = {s: 0}, [s]
    while q:
        x = q.pop(0)
        for y in succ(v, x):
            if y not in d:
                d[y] = d[x] + 1
                q.append(y)
    return d


def oracle(stream, header, ops, obs):
    groups = pipeline.split_ops(obs)
    if len(groups) != len(ops):
        return {"class": "missing-observations", "got": len(groups), "want": len(ops)}
    v, qs = parse_view(header, ops)
    cap = v["vcap"]

    def bad(k, cls, want=None):
        return {"class": cls, "op_index": k, "op": ops[k][:100], "got": groups[k][:3], "want": want}

    def in_cap(x):
        return cap < 0 or x < cap

    for (k, name, a) in qs:
        g = groups[k]
        first = g[0] if g else ""
        if first == "panic":
            # a panic is legitimate only when some node index is beyond the visit map (a view defect, C06's business)
            idx = [x for x in a] + v["nodes"]
            if all(in_cap(x) for x in v["nodes"]) and name not in ("dfsvisit",) and all(in_cap(x) for x in a[:1]):
                # start inside the map and all nodes inside the map: nothing may panic
                if name in ("dfs", "bfs", "dfspost", "topo"):
                    return bad(k, "traversal-panicked-on-a-valid-graph")
            continue
        if name == "dfs":
            s = nums(first)
            want = reach(v, a[0])
            if len(s) != len(set(s)) or set(s) != want:
                return bad(k, "dfs-not-exactly-the-reachable-nodes", sorted(want))
        elif name == "dfs_reset":
            s = nums(first)
            w1, w2 = reach(v, a[0]), reach(v, a[1])
            if len(s) != len(w1) + len(w2) or set(s[:len(w1)]) != w1 or set(s[len(w1):]) != w2:
                return bad(k, "dfs-reset-wrong", [sorted(w1), sorted(w2)])
        elif name == "dfspost_reset":
            s = nums(first)
            w1, w2 = reach(v, a[0]), reach(v, a[1])
            if len(s) != len(w1) + len(w2) or set(s[:len(w1)]) != w1 or set(s[len(w1):]) != w2:
                return bad(k, "dfspost-reset-does-not-restart-from-an-empty-walker", [sorted(w1), sorted(w2)])
        elif name == "dfs_moveto":
            s = nums(first)
            full = reach(v, a[0])
            pre = s[:min(a[1], len(full))]
            if len(pre) < min(a[1], len(full)) or not set(pre) <= full:
                return bad(k, "dfs-prefix-wrong")
            rest = s[len(pre):]
            want = reach(v, a[2], blocked=set(pre))
            if len(set(s)) != len(s) or set(rest) != want:
                return bad(k, "dfs-move-to-wrong", sorted(want))
        elif name == "dfspost":
            s = nums(first)
            want = reach(v, a[0])
            if len(s) != len(set(s)) or set(s) != want:
                return bad(k, "dfspost-not-exactly-the-reachable-nodes", sorted(want))
            pos = {x: i for i, x in enumerate(s)}
            for u in s:
                for w in succ(v, u):
                    if w != u and u not in reach(v, w) and pos[w] > pos[u]:
                        return bad(k, "dfspost-node-before-a-successor-that-cannot-reach-it", (u, w))
        elif name == "bfs":
            s = nums(first)
            d = hops(v, a[0])
            if len(s) != len(set(s)) or set(s) != set(d):
                return bad(k, "bfs-not-exactly-the-reachable-nodes", sorted(d))
            if any(d[s[i]] > d[s[i + 1]] for i in range(len(s) - 1)):
                return bad(k, "bfs-hop-distance-decreases")
        elif name == "topo":
            s = nums(first)
            # Kahn on the view: nodes neither on nor downstream of a cycle
            indeg = {x: len(v["in"].get(x, [])) for x in v["nodes"]}
            ready = [x for x in v["nodes"] if indeg[x] == 0]
            want = set()
            while ready:
                x = ready.pop()
                want.add(x)
                for y in succ(v, x):
                    indeg[y] -= 1
                    if indeg[y] == 0:
                        ready.append(y)
            if len(s) != len(set(s)) or set(s) != want:
                return bad(k, "topo-does-not-emit-exactly-the-nodes-off-every-cycle", sorted(want))
            pos = {x: i for i, x in enumerate(s)}
            for u in s:
                for (_, p, _) in v["in"].get(u, []):
                    if p not in pos or pos[p] > pos[u]:
                        return bad(k, "topo-node-before-a-predecessor", (u, p))
        elif name == "dfsvisit":
            if first.startswith("events-result-visitor-mismatch"):
                # the harness ran the same scripted visitor as Control, as Ok(Control) and with Err in place of Break
                return bad(k, "dfsvisit-result-visitor-not-honoured-like-control")
            x = nums(first)
            brk, evs = x[0], [tuple(x[i:i + 3]) for i in range(1, len(x) - 2, 3)]
            ns = a[0]
            rules = [tuple(a[1 + ns + i: 4 + ns + i]) for i in range(0, len(a) - 1 - ns - 2, 3)]
            disc, fin, stack, time = set(), set(), [], 0
            for j, (kind, p, q) in enumerate(evs):
                act = 0
                key = p if kind in (0, 4) else q
                for (rk, rn, ra) in rules:
                    if rk == kind and rn == key:
                        act = ra
                        break
                if kind == 0:
                    if p in disc or q != time:
                        return bad(k, "dfsvisit-discover-twice-or-time-not-increasing", j)
                    disc.add(p)
                    stack.append(p)
                    time += 1
                elif kind == 4:
                    if not stack or stack[-1] != p or q != time or p in fin:
                        return bad(k, "dfsvisit-finish-not-well-nested", j)
                    stack.pop()
                    fin.add(p)
                    time += 1
                else:
                    if not stack or stack[-1] != p or q not in succ(v, p):
                        return bad(k, "dfsvisit-edge-event-not-from-the-current-node", j)
                    if kind == 1 and q in disc:
                        return bad(k, "dfsvisit-tree-edge-to-discovered-node", j)
                    if kind == 2 and not (q in disc and q not in fin):
                        return bad(k, "dfsvisit-back-edge-target-not-an-unfinished-ancestor", j)
                    if kind == 3 and q not in fin:
                        return bad(k, "dfsvisit-cross-forward-edge-target-not-finished", j)
                if act == 2:
                    if j != len(evs) - 1 or brk != 1:
                        return bad(k, "dfsvisit-break-not-honoured", j)
            if brk == 0 and stack:
                return bad(k, "dfsvisit-unfinished-node-without-break")
            if not rules and brk == 0:
                want = set()
                for s_ in a[1:1 + ns]:
                    want |= reach(v, s_)
                if disc != want or fin != want:
                    return bad(k, "dfsvisit-does-not-cover-the-reachable-nodes", sorted(want))
    return None


def plant(stream, header, ops, obs):
    groups = pipeline.split_ops(obs)
    for k, (o, g) in enumerate(zip(ops, groups)):
        if o.startswith("bfs ") and g and g[0].startswith("seq") and len(g[0].split()) > 3:
            x = g[0].split()
            x[1], x[-1] = x[-1], x[1]
            new = []
            for j, gg in enumerate(groups):
                new += ([" ".join(x)] if j == k else gg) + [";"]
            if oracle(stream, header, ops, new) is None:
                continue
            return new
    return None
