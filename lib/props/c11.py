"""C11 — bellman_ford, spfa, floyd_warshall, find_negative_cycle: plugin for the check pipeline."""
from lib import pipeline
from lib.props.c08 import parse_view, reach

LEVEL = "proof"
RELEASE_TOO = True
MODEL_FILES = ["Model/View.v", "Model/ShortestM.v", "Model/AlgoIO.v"]
THEOREMS = []
EXTRA_PROPS = ["C11b"]
STREAMS = [("C11", 2500, 100000)]
SHARD = 5000
RULE = ("sparse random weighted multigraphs on 1..8 nodes, costs -6..9, with unreachable parts, directed (70% of the "
        "undirected ones are made non-negative, since a negative undirected edge is already a negative cycle), one case in "
        "five an acyclic graph on 7..11 nodes with exponentially spread negative costs, 12% of the others with non-negative costs "
        "near i32::MAX on half of their edges (path sums overflow i32: the i32 instances must skip, not wrap); every bellman_ford query "
        "is repeated on an f32 copy; encodings Graph, StableGraph with "
        "vacancies, GraphMap, Csr, adj::List, MatrixGraph with removed ids; per case bellman_ford (f64), find_negative_cycle "
        "(f64), spfa (i32) from two sources, floyd_warshall or floyd_warshall_path (i32) on compact types; everything is "
        "compared exactly with the model. distinct = sha1 of view+queries; non-trivial = at least one negative edge and 4 edges")
ASSUMPTIONS = [
    "the Gallina model mirrors the four functions over the dumped view as repaired by the fix: commits",
    "f64 costs are modelled by integers plus +infinity (integer-valued inputs, no rounding); i32 costs with overflowing_add written out",
    "the no-overflow side condition: no simple-path cost leaves the i32 range (true for the generated costs)",
]
SCOPE = "see Props/C11.v"

INF = 2000000000
I32MAX = 2147483647


def nums(l):
    return [int(x) for x in l.split()[1:]]


def nontrivial(stream, header, ops, obs):
    v, qs = parse_view(header, ops)
    ws = [w for l in v["out"].values() for (_, _, w) in l]
    return len(ws) >= 4 and any(w < 0 for w in ws)


def compare(stream, header, ops, impl, model):
    return pipeline.generic_compare(impl, model)


def bf_exact(v, s):
    """(dist or None if a negative cycle is reachable from s)"""
    nodes = set(v["nodes"]) | {s}
    d = {s: 0}
    edges = [(a, t, w) for a in v["nodes"] for (_, t, w) in v["out"].get(a, [])]
    for _ in range(len(nodes) + 1):
        ch = False
        for (a, t, w) in edges:
            if a in d and d[a] + w < d.get(t, 10 ** 15):
                d[t] = d[a] + w
                ch = True
        if not ch:
            return d
    return None


def oracle(stream, header, ops, obs):
    groups = pipeline.split_ops(obs)
    if len(groups) != len(ops):
        return {"class": "missing-observations", "got": len(groups), "want": len(ops)}
    v, qs = parse_view(header, ops)
    enc = v["hdr"][6] if len(v["hdr"]) > 6 else -1
    bound = v["bound"]

    def bad(k, cls, want=None):
        return {"class": cls, "op_index": k, "op": ops[k][:100], "got": groups[k][:3], "want": want, "encoding": enc}

    def wmin(a, b):
        ws = [w for (_, t, w) in v["out"].get(a, []) if t == b]
        return min(ws) if ws else None

    bf_err = {}
    for (k, name, a) in qs:
        g = groups[k]
        first = g[0] if g else ""
        if first == "panic":
            return bad(k, "negative-cost-algorithm-panicked-on-a-valid-graph")
        if any("f32-twin-mismatch" in x for x in g):
            return bad(k, "bellman-ford-f32-and-f64-runs-differ")
        if name in ("bellman_ford", "spfa"):
            d = bf_exact(v, a[0])
            inf = INF if name == "bellman_ford" else I32MAX
            if name == "bellman_ford":
                bf_err[a[0]] = (first == "err")
            if d is None:
                if first != "err":
                    return bad(k, name + "-missed-a-reachable-negative-cycle")
                continue
            if first == "err":
                return bad(k, name + "-reports-a-negative-cycle-that-does-not-exist")
            dist, pred = nums(g[0]), nums(g[1])
            if len(dist) != bound or len(pred) != bound:
                return bad(k, name + "-vector-length-is-not-node-bound")
            for x in range(bound):
                want = d.get(x, inf)
                beyond = name == "spfa" and want >= I32MAX     # no path sum below max() exists: every candidate is skipped or not smaller, the node stays at max()
                if beyond:
                    want = I32MAX
                if dist[x] != want:
                    return bad(k, name + "-distance-wrong", (x, want))
                if x == a[0] or x not in d or beyond:
                    if pred[x] != -1:
                        return bad(k, name + "-predecessor-on-source-or-unreachable-node", x)
                else:
                    p = pred[x]
                    w = wmin(p, x) if p >= 0 else None
                    if p < 0 or p not in d or w is None or d[p] + w != d[x]:
                        return bad(k, name + "-predecessor-not-on-a-shortest-path", (x, p))
        elif name == "find_negative_cycle":
            d = bf_exact(v, a[0])
            if a[0] in bf_err and (first != "none") != bf_err[a[0]]:
                return bad(k, "find-negative-cycle-disagrees-with-bellman-ford")
            if d is not None:
                if first != "none":
                    return bad(k, "find-negative-cycle-invents-a-cycle")
                continue
            if first == "none":
                return bad(k, "find-negative-cycle-missed-a-reachable-negative-cycle")
            c = nums(first)
            tot = 0
            for p, q in zip(c, c[1:] + c[:1]):
                w = wmin(p, q)
                if w is None:
                    return bad(k, "find-negative-cycle-sequence-is-not-a-closed-walk-along-edges", (p, q))
                tot += w
            if tot >= 0:
                return bad(k, "find-negative-cycle-walk-is-not-negative", tot)
        elif name in ("floyd_warshall", "floyd_warshall_path"):
            n = len(v["nodes"])
            allneg = any(bf_exact(v, s) is None for s in v["nodes"])
            if allneg:
                if first != "err":
                    return bad(k, "floyd-warshall-missed-a-negative-cycle")
                continue
            if first == "err":
                return bad(k, "floyd-warshall-reports-a-negative-cycle-that-does-not-exist")
            m = nums(g[0])
            if len(m) != n * n:
                return bad(k, "floyd-warshall-matrix-size")
            D = {s: bf_exact(v, s) for s in range(n)}
            for i in range(n):
                for j in range(n):
                    want = min(D[i].get(j, I32MAX), I32MAX)       # a distance beyond i32 is never formed: the pair stays at max()
                    if m[i * n + j] != want:
                        return bad(k, "floyd-warshall-distance-wrong", (i, j, want))
            if name == "floyd_warshall_path" and len(g) > 1:
                pv = nums(g[1])
                for i in range(n):
                    for j in range(n):
                        p = pv[i * n + j]
                        if j not in D[i] or D[i][j] >= I32MAX:
                            if p != -1:
                                return bad(k, "floyd-warshall-predecessor-for-unreachable-pair", (i, j))
                        elif i != j:
                            w = wmin(p, j) if p >= 0 else None
                            if p < 0 or p not in D[i] or w is None or D[i][p] + w != D[i][j]:
                                return bad(k, "floyd-warshall-predecessor-not-on-a-shortest-path", (i, j, p))
    return None


def plant(stream, header, ops, obs):
    groups = pipeline.split_ops(obs)
    for k, (o, g) in enumerate(zip(ops, groups)):
        if o.startswith("bellman_ford") and g and g[0].startswith("dist") and len(g[0].split()) > 2:
            x = g[0].split()
            x[1] = str(int(x[1]) + 1)
            new = []
            for j, gg in enumerate(groups):
                new += ([" ".join(x)] + g[1:] if j == k else gg) + [";"]
            return new
    return None
