"""C01 — Graph: plugin for the check pipeline.  The oracle is a plain stamped multigraph."""
from collections import Counter
from lib import pipeline

LEVEL = "proof"
MODEL_FILES = ["Model/GraphM.v", "Model/GraphIO.v"]
THEOREMS = []
EXTRA_PROPS = ["C01b"]
STREAMS = [("C01", 1500, 60000)]
SHARD = 1500
RELEASE_TOO = True
RULE = ("histories of add/try_add node and edge (20% self-loops, 20% repeats of an existing pair), update_edge, "
        "remove_node, remove_edge, reverse, clear, clear_edges, retain_nodes/retain_edges (predicate on weights), "
        "extend_with_edges, filter_map, map, into_edge_type, weight updates and queries; index arguments 85% live, 10% in "
        "[len, len+2], 5% end(); Directed and Undirected, u8/u16/u32/usize; one case in 120 fills a u8 graph to 255 nodes "
        "and 255 edges and keeps going; after every mutating call the whole graph is dumped (weights, endpoints, externals, "
        "and per node neighbors x3, edges x2); debug and release builds. distinct = sha1 of the case; non-trivial = at "
        "least one removal after at least two edge insertions")
ASSUMPTIONS = [
    "the Gallina model mirrors src/graph_impl/mod.rs (checked by the differential run on generated histories only)",
    "u16/u32/usize histories stay below the index limit, where behaviour does not depend on the width; only u8 runs at its limit",
    "retain_*/filter_map closures are weight predicates (w mod m != r); arbitrary closures are a model parameter",
    "first_edge/next_edge/WalkNeighbors expose the link order: compared with the model and judged by the oracle against 'most recently added first'",
]
SCOPE = "see Props/C01.v"

MUT = ("add_node", "try_add_node", "add_edge", "try_add_edge", "update_edge", "try_update_edge", "remove_node",
       "remove_edge", "reverse", "clear", "clear_edges", "retain_nodes", "retain_edges", "extend_with_edges",
       "filter_map", "into_edge_type", "set_node_weight", "set_edge_weight", "map")


def nontrivial(stream, header, ops, obs):
    ins = 0
    for o in ops:
        t = o.split()[0]
        if t in ("add_edge", "try_add_edge", "update_edge", "extend_with_edges"):
            ins += 1
        elif ins >= 2 and t in ("remove_node", "remove_edge", "retain_nodes", "retain_edges", "filter_map"):
            return True
    return False


def compare(stream, header, ops, impl, model):
    return pipeline.generic_compare(impl, model)


def nums(l):
    return [int(x) for x in l.split()[1:]]


def chunks(xs, k):
    return [tuple(xs[i:i + k]) for i in range(0, len(xs) - k + 1, k)]


class Spec:
    """nodes: weights; edges: [s, t, w, stamp] in edge-index order"""

    def __init__(self, directed, cap, capcheck):
        self.d, self.cap, self.cc = directed, cap, capcheck
        self.nodes, self.edges, self.stamp = [], [], 0

    def joins(self, e, a, b):
        return (e[0] == a and e[1] == b) or (not self.d and e[0] == b and e[1] == a)

    def add_node(self, w):
        if self.cc and len(self.nodes) == self.cap:
            return "limit"
        self.nodes.append(w)
        return len(self.nodes) - 1

    def add_edge(self, a, b, w):
        if self.cc and len(self.edges) == self.cap:
            return "elimit"
        if max(a, b) >= len(self.nodes):
            return "oob"
        self.stamp += 1
        self.edges.append([a, b, w, self.stamp])
        return len(self.edges) - 1

    def remove_edge(self, e):
        if e >= len(self.edges):
            return None
        w = self.edges[e][2]
        self.edges[e] = self.edges[-1]
        self.edges.pop()
        return w

    def remove_node(self, a):
        """returns weight; edge ORDER after this is unspecified (any order of incident removals)"""
        if a >= len(self.nodes):
            return None
        w = self.nodes[a]
        self.edges = [e for e in self.edges if e[0] != a and e[1] != a]
        last = len(self.nodes) - 1
        self.nodes[a] = self.nodes[last]
        self.nodes.pop()
        for e in self.edges:
            if e[0] == last:
                e[0] = a
            if e[1] == last:
                e[1] = a
        return w

    def adopt_edge_order(self, el):
        """el: implementation's (s,t,w) per index; must be a permutation of ours; adopt its order"""
        pool = {}
        for e in sorted(self.edges, key=lambda e: -e[3]):
            pool.setdefault((e[0], e[1], e[2]), []).append(e)
        new = []
        for k in el:
            if not pool.get(k):
                return False
            new.append(pool[k].pop())
        if any(pool.values()):
            return False
        self.edges = new
        return True


def oracle(stream, header, ops, obs):
    groups = pipeline.split_ops(obs)
    if len(groups) != len(ops):
        return {"class": "missing-observations", "got": len(groups), "want": len(ops)}
    h = [int(x) for x in header.split()[2:]]
    sp = Spec(h[0] == 1, h[2], h[3] == 1)

    def bad(k, cls, want=None):
        return {"class": cls, "op_index": k, "op": ops[k][:80], "got": groups[k][:8], "want": want}

    def check_battery(k, lines, loose_edge_order=False):
        n, m = len(sp.nodes), len(sp.edges)
        if len(lines) != 5 + 5 * n or lines[0] != "counts %d %d" % (n, m):
            return bad(k, "graph-counts-wrong", "counts %d %d" % (n, m))
        if nums(lines[1]) != sp.nodes:
            return bad(k, "graph-node-weights-wrong", sp.nodes)
        el = chunks(nums(lines[2]), 3)
        if loose_edge_order:
            if not sp.adopt_edge_order(el):
                return bad(k, "graph-edges-after-node-removal-wrong", sorted((e[0], e[1], e[2]) for e in sp.edges))
        elif el != [(e[0], e[1], e[2]) for e in sp.edges]:
            return bad(k, "graph-edge-list-wrong", [(e[0], e[1], e[2]) for e in sp.edges])
        d = sp.d
        outs = {a: [] for a in range(n)}
        ins = {a: [] for a in range(n)}
        for i, e in enumerate(sp.edges):
            outs[e[0]].append((i, e))
            ins[e[1]].append((i, e))
        for a in range(n):
            outs[a].sort(key=lambda x: -x[1][3])
            ins[a].sort(key=lambda x: -x[1][3])
        exto = [a for a in range(n) if not outs[a] and (d or not ins[a])]
        exti = [a for a in range(n) if not ins[a] and (d or not outs[a])]
        if nums(lines[3]) != exto or nums(lines[4]) != exti:
            return bad(k, "graph-externals-wrong", [exto, exti])
        for a in range(n):
            blk = [nums(x) for x in lines[5 + 5 * a: 10 + 5 * a]]
            if any(b[0] != a for b in blk):
                return bad(k, "graph-battery-misaligned")
            nbo, nbi, nbu = blk[0][1:], blk[1][1:], blk[2][1:]
            edo, edi = chunks(blk[3][1:], 4), chunks(blk[4][1:], 4)
            und = [e[1] for (_, e) in outs[a]] + [e[0] for (_, e) in ins[a] if e[0] != a]
            if Counter(nbu) != Counter(und):
                return bad(k, "graph-neighbors-undirected-wrong", sorted(und))
            if d:
                if nbo != [e[1] for (_, e) in outs[a]]:
                    return bad(k, "graph-directed-neighbors-not-most-recent-first", [e[1] for (_, e) in outs[a]])
                if nbi != [e[0] for (_, e) in ins[a]]:
                    return bad(k, "graph-directed-incoming-neighbors-wrong", [e[0] for (_, e) in ins[a]])
                if [x[1:] for x in edo] != [(e[0], e[1], e[2]) for (_, e) in outs[a]] or \
                        sorted(x[0] for x in edo) != sorted(i for (i, _) in outs[a]):
                    return bad(k, "graph-directed-edges-wrong")
                if [x[1:] for x in edi] != [(e[0], e[1], e[2]) for (_, e) in ins[a]] or \
                        sorted(x[0] for x in edi) != sorted(i for (i, _) in ins[a]):
                    return bad(k, "graph-directed-incoming-edges-wrong")
            else:
                if Counter(nbo) != Counter(und) or Counter(nbi) != Counter(und):
                    return bad(k, "graph-undirected-neighbors-wrong", sorted(und))
                inc = [(i, a, e[1], e[2]) for (i, e) in outs[a]] + [(i, a, e[0], e[2]) for (i, e) in ins[a] if e[0] != a]
                if Counter(edo) != Counter(inc):
                    return bad(k, "graph-undirected-edges-wrong", sorted(inc))
                if Counter(edi) != Counter((i, t, s, w) for (i, s, t, w) in inc):
                    return bad(k, "graph-undirected-incoming-edges-wrong")
            for x in edo + edi:
                i = x[0]
                if i >= m or Counter([x[1], x[2]]) != Counter([sp.edges[i][0], sp.edges[i][1]]) or x[3] != sp.edges[i][2]:
                    return bad(k, "graph-edge-reference-does-not-match-its-index")
        return None

    for k, (o, g) in enumerate(zip(ops, groups)):
        t = o.split()
        a = [int(x) for x in t[1:]]
        name = t[0]
        first = g[0] if g else ""
        loose = False
        if name in ("add_node", "try_add_node"):
            r = sp.add_node(a[0])
            want = ("panic" if name == "add_node" else "limit") if r == "limit" else "idx %d" % r
            if first != want:
                return bad(k, "graph-add-node-wrong", want)
        elif name in ("add_edge", "try_add_edge"):
            r = sp.add_edge(*a)
            want = ("panic" if name == "add_edge" else r) if isinstance(r, str) else "idx %d" % r
            if first != want:
                return bad(k, "graph-add-edge-wrong", want)
        elif name in ("update_edge", "try_update_edge"):
            x, y, w = a
            existing = [i for i, e in enumerate(sp.edges) if sp.joins(e, x, y)]
            if first.startswith("idx "):
                i = int(first.split()[1])
                if i in existing:
                    sp.edges[i][2] = w
                elif existing:
                    return bad(k, "graph-update-edge-ignored-existing-edge", "one of %s" % existing)
                else:
                    r = sp.add_edge(x, y, w)
                    if r != i:
                        return bad(k, "graph-update-edge-wrong", r)
            else:
                if existing:
                    return bad(k, "graph-update-edge-failed-on-existing-edge")
                r = sp.add_edge(x, y, w)
                want = ("panic" if name == "update_edge" else r) if isinstance(r, str) else "idx %d" % r
                if first != want:
                    return bad(k, "graph-update-edge-wrong", want)
        elif name == "remove_node":
            w = sp.remove_node(a[0])
            want = "none" if w is None else "some %d" % w
            if first != want:
                return bad(k, "graph-remove-node-wrong", want)
            loose = True
        elif name == "remove_edge":
            w = sp.remove_edge(a[0])
            want = "none" if w is None else "some %d" % w
            if first != want:
                return bad(k, "graph-remove-edge-wrong", want)
        elif name == "reverse":
            for e in sp.edges:
                e[0], e[1] = e[1], e[0]
        elif name == "clear":
            sp.nodes, sp.edges = [], []
        elif name == "clear_edges":
            sp.edges = []
        elif name == "retain_nodes":
            m_, r_ = a
            for i in reversed(range(len(sp.nodes))):
                if sp.nodes[i] % m_ == r_:
                    sp.remove_node(i)
            loose = True
        elif name == "retain_edges":
            m_, r_ = a
            for i in reversed(range(len(sp.edges))):
                if sp.edges[i][2] % m_ == r_:
                    sp.remove_edge(i)
        elif name == "extend_with_edges":
            ok = True
            for (s, t_, w) in chunks(a, 3):
                while max(s, t_) >= len(sp.nodes):
                    if sp.add_node(0) == "limit":
                        ok = False
                        break
                if not ok or isinstance(sp.add_edge(s, t_, w), str):
                    ok = False
                    break
            if first != ("unit" if ok else "panic"):
                return bad(k, "graph-extend-with-edges-wrong", "unit" if ok else "panic")
        elif name == "filter_map":
            m_, r_, m2, r2 = a
            imap, nodes2 = {}, []
            for i, w in enumerate(sp.nodes):
                if w % m_ != r_:
                    imap[i] = len(nodes2)
                    nodes2.append(w + 1)
            edges2 = []
            for e in sp.edges:
                if e[0] in imap and e[1] in imap and e[2] % m2 != r2:
                    edges2.append([imap[e[0]], imap[e[1]], e[2] + 1, len(edges2) + 1])
            sp.nodes, sp.edges, sp.stamp = nodes2, edges2, len(edges2)
        elif name == "map":
            sp.nodes = [w + 1 for w in sp.nodes]
            for e in sp.edges:
                e[2] += 1
        elif name == "into_edge_type":
            sp.d = not sp.d
        elif name == "set_node_weight":
            ok = a[0] < len(sp.nodes)
            if ok:
                sp.nodes[a[0]] = a[1]
            if first != "bool %d" % int(ok):
                return bad(k, "graph-node-weight-mut-wrong")
        elif name == "set_edge_weight":
            ok = a[0] < len(sp.edges)
            if ok:
                sp.edges[a[0]][2] = a[1]
            if first != "bool %d" % int(ok):
                return bad(k, "graph-edge-weight-mut-wrong")
        elif name == "node_weight":
            want = "some %d" % sp.nodes[a[0]] if a[0] < len(sp.nodes) else "none"
            if first != want:
                return bad(k, "graph-node-weight-wrong", want)
        elif name == "edge_weight":
            want = "some %d" % sp.edges[a[0]][2] if a[0] < len(sp.edges) else "none"
            if first != want:
                return bad(k, "graph-edge-weight-wrong", want)
        elif name == "edge_endpoints":
            want = "pair %d %d" % (sp.edges[a[0]][0], sp.edges[a[0]][1]) if a[0] < len(sp.edges) else "none"
            if first != want:
                return bad(k, "graph-edge-endpoints-wrong", want)
        elif name == "find_edge":
            existing = [i for i, e in enumerate(sp.edges) if sp.joins(e, a[0], a[1])]
            if first == "none":
                if existing:
                    return bad(k, "graph-find-edge-missed-an-edge", existing)
            elif first.startswith("some"):
                if int(first.split()[1]) not in existing:
                    return bad(k, "graph-find-edge-wrong", existing)
            else:
                return bad(k, "graph-find-edge-wrong")
        elif name == "find_edge_undirected":
            ex = [(i, 0) for i, e in enumerate(sp.edges) if e[0] == a[0] and e[1] == a[1]] + \
                 [(i, 1) for i, e in enumerate(sp.edges) if e[1] == a[0] and e[0] == a[1]]
            if first == "none":
                if ex:
                    return bad(k, "graph-find-edge-undirected-missed-an-edge", ex)
            elif tuple(nums(first)) not in ex:
                return bad(k, "graph-find-edge-undirected-wrong", ex)
        elif name == "edges_connecting":
            got = chunks(nums(first), 4) if first.startswith("econn") else None
            x, y = a
            if sp.d:
                want = [(i, e[0], e[1], e[2]) for i, e in sorted(enumerate(sp.edges), key=lambda p: -p[1][3])
                        if e[0] == x and e[1] == y]
                if got is None or [g_[1:] for g_ in got] != [w_[1:] for w_ in want] or Counter(got) != Counter(want):
                    return bad(k, "graph-edges-connecting-wrong", want)
            else:
                want = [(i, x, y, e[2]) for i, e in enumerate(sp.edges) if sp.joins(e, x, y)]
                if got is None or Counter(got) != Counter(want):
                    return bad(k, "graph-edges-connecting-wrong", want)
        elif name in ("first_edge", "next_edge", "walker"):
            # the raw adjacency lists: list 0 of a node = the edges it is the source of, list 1 = those it is the target of,
            # each most recently added first
            kdir = 0 if a[1] == 0 else 1       # harness: 0 = Outgoing
            def lst(x, kd):
                return [i for i, e in sorted(enumerate(sp.edges), key=lambda p: -p[1][3]) if e[kd] == x]
            if name == "first_edge":
                l = lst(a[0], kdir) if a[0] < len(sp.nodes) else []
                want = "some %d" % l[0] if l else "none"
                if first != want:
                    return bad(k, "graph-first-edge-is-not-the-head-of-the-adjacency-list", want)
            elif name == "next_edge":
                want = "none"
                if a[0] < len(sp.edges):
                    l = lst(sp.edges[a[0]][kdir], kdir)
                    pos = l.index(a[0])
                    if pos + 1 < len(l):
                        want = "some %d" % l[pos + 1]
                if first != want:
                    return bad(k, "graph-next-edge-does-not-follow-the-adjacency-list", want)
            else:
                got = chunks(nums(first), 2) if first.startswith("walk") else None
                x = a[0]
                if x >= len(sp.nodes):
                    want = []
                elif sp.d:
                    want = [(i, sp.edges[i][1 - kdir]) for i in lst(x, kdir)]
                else:
                    want = [(i, sp.edges[i][1]) for i in lst(x, 0)] + [(i, sp.edges[i][0]) for i in lst(x, 1) if sp.edges[i][0] != x]
                if got is None or (got != want if sp.d else Counter(got) != Counter(want)):
                    return bad(k, "graph-walker-does-not-enumerate-the-adjacency-list", want)
        if name in MUT:
            e = check_battery(k, g[1:], loose)
            if e:
                return e
    return None


def plant(stream, header, ops, obs):
    groups = pipeline.split_ops(obs)
    for k, (o, g) in enumerate(zip(ops, groups)):
        if o.startswith("edge_endpoints") and g and g[0].startswith("pair"):
            x = g[0].split()
            new = []
            for j, gg in enumerate(groups):
                new += (["pair %s %d" % (x[1], int(x[2]) + 1)] if j == k else gg) + [";"]
            return new
    return None


def shrink(stream, header, ops, obs, failure):
    k = failure.get("op_index")
    return ops[:k + 1] if isinstance(k, int) else ops
