"""C16 — dominators::simple_fast and articulation_points: plugin for the check pipeline.
The oracle uses the path definitions directly: A dominates B iff B is unreachable from the root once A is
removed; a cut node is one whose removal increases the number of connected components."""
from lib import pipeline
from lib.props.c08 import parse_view

LEVEL = "proof"
MODEL_FILES = ["Model/View.v", "Model/Traversal.v", "Model/CutM.v", "Model/AlgoIO.v"]
THEOREMS = []
STREAMS = [("C16", 3000, 120000)]
SHARD = 3000
RELEASE_TOO = True
RULE = ("even cases: simple_fast from two roots on directed multigraphs of 1..10 nodes (self-loops, parallel edges, unreachable parts, "
        "cycles into the root) encoded as Graph, StableGraph with vacancies, GraphMap, Csr, adj::List, MatrixGraph with removed ids and "
        "NodeFiltered(Graph); the whole (node -> immediate dominator) map is read back through the accessors, and immediate_dominator, "
        "dominators, strict_dominators, immediately_dominated_by are probed on about 60% of the nodes (reachable or not). odd cases: "
        "articulation_points on undirected multigraphs, 40% of them trees of blocks (cycles, chorded cycles and bridges glued at cut "
        "nodes, plus a self-loop and a parallel edge), on Graph, StableGraph with vacancies, GraphMap, Csr, MatrixGraph with removed ids, "
        "NodeFiltered(Graph); debug and release. Unordered results (hash map / hash set) are sorted on both sides before comparison. "
        "distinct = sha1 of view+queries; non-trivial = a dominator tree of depth >= 2 with an unreachable node, or a graph with a cut "
        "node and a cycle")
ASSUMPTIONS = [
    "the Gallina models mirror src/algo/dominators.rs and src/algo/articulation_points.rs (as repaired by the fix: commit) over the dumped view",
    "hash-map iteration order is not modelled: predecessor sets are folded in insertion order in the model (the fixpoint does not depend on it) and unordered outputs are compared as sorted lists",
]
SCOPE = "see Props/C16.v"


def nums(l):
    return [int(x) for x in l.split()[1:]]


def succ(v, a):
    return [t for (_, t, _) in v["out"].get(a, [])]


def reach_without(v, root, removed):
    if root == removed:
        return set()
    seen, st = {root}, [root]
    while st:
        x = st.pop()
        for y in succ(v, x):
            if y != removed and y not in seen:
                seen.add(y)
                st.append(y)
    return seen


def canon_group(g):
    out = []
    for l in g:
        t = l.split()
        if t and t[0] == "dom":
            a = nums(l)
            pairs = sorted((a[i], a[i + 1]) for i in range(0, len(a) - 1, 2))
            out.append("dom " + " ".join("%d %d" % p for p in pairs))
        elif t and t[0] == "nodes":
            out.append("nodes " + " ".join(map(str, sorted(nums(l)))))
        else:
            out.append(l)
    return out


def compare(stream, header, ops, impl, model):
    a = [canon_group(g) for g in pipeline.split_ops(impl)]
    b = [canon_group(g) for g in pipeline.split_ops(model)]
    for k in range(max(len(a), len(b))):
        if (a[k] if k < len(a) else None) != (b[k] if k < len(b) else None):
            return k
    return None


def und_adj(v):
    adj = {a: set() for a in v["nodes"]}
    for a in v["nodes"]:
        for t in succ(v, a):
            if t != a and t in adj:
                adj[a].add(t)
                adj[t].add(a)
    return adj


def n_components(nodes, adj, removed=None):
    seen = set()
    c = 0
    for s in nodes:
        if s == removed or s in seen:
            continue
        c += 1
        seen.add(s)
        st = [s]
        while st:
            x = st.pop()
            for y in adj[x]:
                if y != removed and y not in seen:
                    seen.add(y)
                    st.append(y)
    return c


def nontrivial(stream, header, ops, obs):
    v, qs = parse_view(header, ops)
    groups = pipeline.split_ops(obs)
    for (k, name, a) in qs:
        g = groups[k]
        if name == "simple_fast" and g and g[0].startswith("dom"):
            x = nums(g[0])
            m = {x[i]: x[i + 1] for i in range(0, len(x) - 1, 2)}
            deep = any(m.get(m.get(n, n), n) not in (n, m.get(n)) for n in m)
            if deep and len(m) < len(v["nodes"]):
                return True
        if name == "articulation_points" and g and len(g[0].split()) > 1:
            adj = und_adj(v)
            edges = sum(len(s) for s in adj.values()) // 2
            if edges >= len(v["nodes"]) - n_components(v["nodes"], adj) + 1:
                return True
    return False


def oracle(stream, header, ops, obs):
    groups = pipeline.split_ops(obs)
    if len(groups) != len(ops):
        return {"class": "missing-observations", "got": len(groups), "want": len(ops)}
    v, qs = parse_view(header, ops)
    enc = v["hdr"][6] if len(v["hdr"]) > 6 else -1
    nodes = v["nodes"]

    def bad(k, cls, want=None):
        return {"class": cls, "op_index": k, "op": ops[k][:60], "got": groups[k][:3], "want": want, "encoding": enc}

    for (k, name, a) in qs:
        g = groups[k]
        first = g[0] if g else ""
        if first in ("panic", "OUT-OF-FUEL") or not g:
            return bad(k, name.replace("_", "-") + "-panicked-on-a-valid-graph")
        if any("mismatch" in x for x in g):
            return bad(k, "dominators-root-accessor-wrong")
        if name == "simple_fast":
            root = a[0]
            x = nums(first)
            m = {x[i]: x[i + 1] for i in range(0, len(x) - 1, 2)}
            R = reach_without(v, root, None)
            if set(m) != R:
                return bad(k, "dominators-entries-are-not-exactly-the-reachable-nodes", sorted(R))
            dom = {b: {c for c in R if c == b or b not in reach_without(v, root, c)} for b in R}
            # immediate dominator: the strict dominator that every other strict dominator dominates
            idom = {}
            for b in R:
                strict = dom[b] - {b}
                if b == root:
                    idom[b] = b
                else:
                    cand = [c for c in strict if all(d in dom[c] for d in strict)]
                    if len(cand) != 1:
                        return {"class": "oracle-internal", "detail": "idom not unique"}
                    idom[b] = cand[0]
            if m != idom:
                return bad(k, "dominators-immediate-dominator-wrong", sorted(idom.items()))
            probes = a[1:]
            rows = g[1:]
            if len(rows) != 4 * len(probes):
                return bad(k, "dominators-probe-output-malformed")
            for j, p in enumerate(probes):
                r0, r1, r2, r3 = rows[4 * j:4 * j + 4]
                want_idom = -1 if (p == root or p not in R) else idom[p]
                if nums(r0) != [p, want_idom]:
                    return bad(k, "dominators-immediate-dominator-accessor-wrong", (p, want_idom))
                if p not in R:
                    if r1 != "none" or r2 != "none" or r3 != "nodes":
                        return bad(k, "dominators-unreachable-node-has-an-entry", p)
                    continue
                chain = [p]
                while chain[-1] != root:
                    chain.append(idom[chain[-1]])
                if r1.split()[0] != "seq" or nums(r1) != chain or set(chain) != dom[p]:
                    return bad(k, "dominators-iterator-is-not-the-dominator-set-innermost-first", chain)
                if r2.split()[0] != "seq" or nums(r2) != chain[1:]:
                    return bad(k, "dominators-strict-dominators-wrong", chain[1:])
                want_by = sorted(c for c in R if c != root and idom[c] == p)
                if sorted(nums(r3)) != want_by:
                    return bad(k, "dominators-immediately-dominated-by-wrong", want_by)
        elif name == "articulation_points":
            adj = und_adj(v)
            base = n_components(nodes, adj)
            want = sorted(x for x in nodes if n_components(nodes, adj, x) > base)
            if sorted(nums(first)) != want:
                return bad(k, "articulation-points-are-not-exactly-the-cut-nodes", want)
    return None


def plant(stream, header, ops, obs):
    groups = pipeline.split_ops(obs)
    for k, (o, g) in enumerate(zip(ops, groups)):
        if o.startswith("articulation_points") and g and len(g[0].split()) > 1:
            new = []
            for q, gg in enumerate(groups):
                new += ([" ".join(g[0].split()[:-1])] if q == k else gg) + [";"]
            return new
        if o.startswith("simple_fast") and g and len(g[0].split()) > 4:
            x = g[0].split()
            x[2] = x[1]
            new = []
            for q, gg in enumerate(groups):
                new += ([" ".join(x)] + g[1:] if q == k else gg) + [";"]
            return new
    return None
