"""C13 — VF2 (sub)graph isomorphism against the definition: plugin for the check pipeline.
The oracle enumerates injections with itertools, independently of the Coq reference."""
import itertools
from lib import pipeline

LEVEL = "proof"
MODEL_FILES = ["Model/IsoM.v", "Model/Vf2M.v"]
THEOREMS = []
EXTRA_PROPS = ["C13b"]
STREAMS = [("C13", 2000, 80000), ("C13v", 2000, 80000)]
SHARD = 3000
RELEASE_TOO = True
RULE = ("pairs of simple graphs with 0..6 nodes (40% with self-loops), directed and undirected, four densities, node and edge weights "
        "0..3; the first graph is (0) a relabelled copy of the second with shuffled edge order and, when undirected, flipped endpoints, "
        "(1) such a copy with one edge rewired (same degree sum, nearly isomorphic), (2) a relabelled node-induced subgraph, (3) the same "
        "with one edge dropped (a subgraph that is not induced), (4) a copy with one node or edge weight changed, (5) an unrelated random "
        "graph; queries is_isomorphic, is_isomorphic_subgraph (on Graph and, 30%, on GraphMap), is_isomorphic_matching, "
        "is_isomorphic_subgraph_matching and subgraph_isomorphisms_iter with node/edge predicates 'weights equal modulo 0 (always), 2 "
        "or 4'; the iterator is drained and its mappings are compared as a sorted list with multiplicities; debug and release. "
        "distinct = sha1 of the case; non-trivial = both graphs have at least 3 nodes and the first has an edge")
ASSUMPTIONS = [
    "stream C13 compares the crate with the definition (Model/IsoM.v); stream C13v compares it, yield order included, with the mirror of the VF2 state machine (Model/Vf2M.v), which is proved equivalent to the definition",
    "graphs are simple (at most one edge per ordered pair, per unordered pair when undirected); petgraph documents VF2 for non-multigraphs only",
]
SCOPE = "see Props/C13.v"


def nums(l):
    return [int(x) for x in l.split()[1:]]


def parse(header, ops):
    h = [int(x) for x in header.split()[2:]]
    g = {"dir": h[0] == 1, "n0": [], "e0": [], "n1": [], "e1": []}
    qs = []
    for k, o in enumerate(ops):
        t = o.split()
        a = [int(x) for x in t[1:]]
        if t[0] in ("n0", "n1"):
            g[t[0]] = a
        elif t[0] in ("e0", "e1"):
            g[t[0]] = [tuple(a[i:i + 3]) for i in range(0, len(a) - 2, 3)]
        else:
            qs.append((k, t[0], a))
    return g, qs


def edge_map(directed, es):
    m = {}
    for (s, t, w) in es:
        m.setdefault((s, t), w)
        if not directed:
            m.setdefault((t, s), w)
    return m


def wm(m, x, y):
    return m == 0 or x % m == y % m


def all_maps(g, nm, em):
    n0, n1 = len(g["n0"]), len(g["n1"])
    e0, e1 = edge_map(g["dir"], g["e0"]), edge_map(g["dir"], g["e1"])
    out = []
    for img in itertools.permutations(range(n1), n0):
        ok = all(wm(nm, g["n0"][a], g["n1"][img[a]]) for a in range(n0))
        if ok:
            for a in range(n0):
                for b in range(n0):
                    x, y = e0.get((a, b)), e1.get((img[a], img[b]))
                    if (x is None) != (y is None) or (x is not None and not wm(em, x, y)):
                        ok = False
                        break
                if not ok:
                    break
        if ok:
            out.append(list(img))
    return out


def nontrivial(stream, header, ops, obs):
    g, qs = parse(header, ops)
    return len(g["n0"]) >= 3 and len(g["n1"]) >= 3 and len(g["e0"]) >= 1


def compare(stream, header, ops, impl, model):
    return pipeline.generic_compare(impl, model)


def oracle(stream, header, ops, obs):
    groups = pipeline.split_ops(obs)
    if len(groups) != len(ops):
        return {"class": "missing-observations", "got": len(groups), "want": len(ops)}
    g, qs = parse(header, ops)

    def bad(k, cls, want=None):
        return {"class": cls, "op_index": k, "op": ops[k][:60], "got": groups[k][:3], "want": want,
                "graphs": [g["n0"], g["e0"], g["n1"], g["e1"], g["dir"]]}

    for (k, name, a) in qs:
        gr = groups[k]
        first = gr[0] if gr else ""
        if first == "panic" or not gr:
            return bad(k, "isomorphism-function-panicked")
        nm, em = (a + [0, 0])[:2] if name.endswith("matching") or name == "sub_iter" else (0, 0)
        if len(g["n0"]) > 8:
            continue        # too large for the exhaustive enumeration: compared with the mirror only (a panic is still flagged above)
        maps = all_maps(g, nm, em)
        if name in ("iso", "iso_matching"):
            want = int(len(g["n0"]) == len(g["n1"]) and bool(maps))
            if first != "bool %d" % want:
                return bad(k, "is-isomorphic-disagrees-with-the-definition", want)
        elif name in ("sub", "sub_matching"):
            want = int(bool(maps))
            if first != "bool %d" % want:
                return bad(k, "is-isomorphic-subgraph-disagrees-with-the-definition", want)
        elif name == "sub_iter":
            got = [nums(l) for l in gr[1:]]
            if nums(first)[0] != len(got):
                return bad(k, "subgraph-isomorphisms-iter-output-malformed")
            if any(len(set(m)) != len(m) for m in got):
                return bad(k, "subgraph-isomorphisms-iter-yields-a-non-injective-mapping")
            if len({tuple(m) for m in got}) != len(got):
                return bad(k, "subgraph-isomorphisms-iter-yields-a-mapping-twice")
            if sorted(got) != sorted(maps):
                return bad(k, "subgraph-isomorphisms-iter-is-not-exactly-the-set-of-mappings", len(maps))
    return None


def plant(stream, header, ops, obs):
    groups = pipeline.split_ops(obs)
    for k, (o, g) in enumerate(zip(ops, groups)):
        if o.startswith("sub_iter") and g and len(g) > 1:
            new = []
            for q, gg in enumerate(groups):
                new += (["nat %d" % (len(g) - 2)] + g[2:] if q == k else gg) + [";"]
            return new
    return None
