"""C12 — min_spanning_tree (Kruskal) and min_spanning_tree_prim: plugin for the check pipeline."""
from lib import pipeline
from lib.props.c08 import parse_view

LEVEL = "proof"
RELEASE_TOO = True
MODEL_FILES = ["Model/View.v", "Model/MstM.v", "Model/UnionFindM.v", "Model/AlgoIO.v"]
THEOREMS = []
EXTRA_PROPS = ["C12b"]
STREAMS = [("C12", 3000, 120000)]
SHARD = 5000
RULE = ("sparse random weighted multigraphs on 1..8 nodes, weights 0..5 (many repeated weights), self-loops, parallel edges, "
        "several components, 60% undirected, encoded as Graph, StableGraph with vacancies, GraphMap, Csr, adj::List, "
        "MatrixGraph with removed ids; min_spanning_tree on every one (and again on an f64 copy whose non-forest edges weigh NaN), min_spanning_tree_prim on the undirected ones; the node "
        "stream is compared exactly with the model, the edge stream by its length and its sorted weights (the multiset of "
        "weights of a minimum spanning forest is unique; which of several equal-weight edges is taken depends on the heap's "
        "tie order, which is not modelled); the forest itself is judged by the oracle. distinct = sha1 of view; "
        "non-trivial = at least 4 edges, two of them with equal weight")
ASSUMPTIONS = [
    "the Gallina model mirrors both iterators over the dumped view; BinaryHeap ties are broken first-in first-out in the model",
    "weights are integers (f64 weights are not exercised here: PartialOrd on integer-valued floats behaves the same)",
]
SCOPE = "see Props/C12.v"


def nums(l):
    return [int(x) for x in l.split()[1:]]


def nontrivial(stream, header, ops, obs):
    v, qs = parse_view(header, ops)
    ws = [w for l in v["out"].values() for (_, _, w) in l]
    return len(ws) >= 4 and len(set(ws)) < len(ws)


def canon(groups):
    out = []
    for g in groups:
        if len(g) == 2 and g[0].startswith("msn") and g[1].startswith("mse"):
            x = nums(g[1])
            out.append([g[0], "edges %d weights %s" % (len(x) // 3, sorted(x[2::3]))])
        else:
            out.append(g)
    return out


def compare(stream, header, ops, impl, model):
    a, b = canon(pipeline.split_ops(impl)), canon(pipeline.split_ops(model))
    for k in range(max(len(a), len(b))):
        if (a[k] if k < len(a) else None) != (b[k] if k < len(b) else None):
            return k
    return None


def forest_weight(nodes, edges):
    """(number of tree edges, total weight) of a minimum spanning forest; edges = (a, b, w)"""
    par = {x: x for x in nodes}

    def find(x):
        while par[x] != x:
            par[x] = par[par[x]]
            x = par[x]
        return x
    cnt = tot = 0
    for (a, b, w) in sorted(edges, key=lambda e: e[2]):
        ra, rb = find(a), find(b)
        if ra != rb:
            par[ra] = rb
            cnt += 1
            tot += w
    return cnt, tot


def oracle(stream, header, ops, obs):
    groups = pipeline.split_ops(obs)
    if len(groups) != len(ops):
        return {"class": "missing-observations", "got": len(groups), "want": len(ops)}
    v, qs = parse_view(header, ops)
    enc = v["hdr"][6] if len(v["hdr"]) > 6 else -1
    nodes = v["nodes"]
    all_edges = [(a, t, w) for a in nodes for (_, t, w) in v["out"].get(a, [])]

    def bad(k, cls, want=None):
        return {"class": cls, "op_index": k, "op": ops[k][:60], "got": groups[k][:3], "want": want, "encoding": enc}

    for (k, name, a) in qs:
        g = groups[k]
        if not g or g[0] == "panic" or len(g) < 2 or g[1] == "panic":
            return bad(k, "mst-panicked-on-a-valid-graph")
        if any("nan-twin-mismatch" in x for x in g):
            return bad(k, "mst-prefers-a-nan-weight-to-a-finite-one")
        g = [x for x in g if "twin" not in x]
        ns, es = nums(g[0]), nums(g[1])
        if ns != a:
            return bad(k, "mst-node-stream-is-not-all-nodes-in-order-before-the-edges", a)
        tri = [(es[i], es[i + 1], es[i + 2]) for i in range(0, len(es) - 2, 3)]
        # positions in the stream -> node indices
        try:
            real = [(nodes[s], nodes[t], w) for (s, t, w) in tri]
        except IndexError:
            return bad(k, "mst-edge-endpoint-is-not-a-position-in-the-node-stream")
        for (s, t, w) in real:
            if not any((x == s and y == t and z == w) or (x == t and y == s and z == w) for (x, y, z) in all_edges):
                return bad(k, "mst-edge-is-not-an-edge-of-the-graph-with-that-weight", (s, t, w))
            # Kruskal copies source and target from the edge reference: on a directed graph the element must be an edge s -> t
            if name == "kruskal" and v["directed"] and not any(x == s and y == t and z == w for (x, y, z) in all_edges):
                return bad(k, "mst-edge-of-a-directed-graph-is-reported-reversed", (s, t, w))
        # acyclic
        cnt_f, _ = forest_weight(nodes, real)
        if cnt_f != len(real):
            return bad(k, "mst-edges-contain-a-cycle")
        if name == "kruskal":
            cnt, tot = forest_weight(nodes, all_edges)
        else:
            # Prim: the component of the first node only
            comp, st = {nodes[0]} if nodes else set(), [nodes[0]] if nodes else []
            while st:
                x = st.pop()
                for (p, q, _) in all_edges:
                    for (u, w_) in ((p, q), (q, p)):
                        if u == x and w_ not in comp:
                            comp.add(w_)
                            st.append(w_)
            cnt, tot = forest_weight(comp, [(p, q, w) for (p, q, w) in all_edges if p in comp and q in comp])
        if len(real) != cnt:
            return bad(k, "mst-wrong-number-of-edges", cnt)
        if sum(w for (_, _, w) in real) != tot:
            return bad(k, "mst-total-weight-not-minimal", tot)
    return None


def plant(stream, header, ops, obs):
    groups = pipeline.split_ops(obs)
    for k, (o, g) in enumerate(zip(ops, groups)):
        if o.startswith("kruskal") and len(g) == 2 and len(g[1].split()) > 3:
            x = g[1].split()
            x[3] = str(int(x[3]) + 1)
            new = []
            for j, gg in enumerate(groups):
                new += ([g[0], " ".join(x)] if j == k else gg) + [";"]
            return new
    return None
