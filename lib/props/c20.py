"""C20 — cliques, colouring, feedback arcs, reduction/closure, simple paths, Steiner tree, PageRank: plugin for the
check pipeline.  The oracle recomputes every specification independently (itertools / DFS enumeration)."""
import itertools
from lib import pipeline
from lib.props.c08 import parse_view

LEVEL = "proof"
MODEL_FILES = ["Model/PageRankM.v", "Model/DsaturM.v", "Model/FasM.v", "Model/SteinerM.v", "Model/View.v", "Model/MiscM.v", "Model/AlgoIO.v", "Model/AlgoBasic.v", "Model/MstM.v", "Model/UnionFindM.v"]
THEOREMS = []
EXTRA_PROPS = ["C20b", "C20c", "C20d", "C20e", "C20f", "C20g"]
STREAMS = [("C20", 3000, 100000)]
SHARD = 3000
RELEASE_TOO = True
RULE = ("six case kinds in rotation: (0) maximal_cliques + dsatur_coloring on undirected simple graphs of 1..8 nodes, half of them "
        "dense (cliques of 3..5), 30% bipartite, on Graph, StableGraph with vacancies, GraphMap, Csr, MatrixGraph; (1) dsatur_coloring "
        "on undirected multigraphs with self-loops and, now and then, the empty graph; (2) greedy_feedback_arc_set on directed "
        "multigraphs with self-loops and 2-cycles on Graph and StableGraph with vacancies; (3) toposort + "
        "dag_to_toposorted_adjacency_list + dag_transitive_reduction_closure on DAGs of 1..8 nodes at three densities on Graph and "
        "GraphMap (node values 3i+1, so value and index differ); (4) all_simple_paths on directed graphs of 1..7 nodes (30% "
        "multigraphs) on Graph u32/u8, StableGraph, GraphMap, MatrixGraph, three endpoint pairs each (15% with from = to), minimum 0..2 "
        "and maximum None or 0..4 intermediate nodes; (5) steiner_tree on connected undirected simple graphs of 2..7 nodes with 2..4 "
        "terminals, and page_rank (d = 0.85, 12 iterations) on a directed graph, on a relabelled twin and on a StableGraph with "
        "vacancies; debug and release. Deterministic outputs (cliques as a set, reduction and closure adjacency lists, simple paths "
        "in order) are compared with the Coq mirror / reference, the others are judged by the extracted Coq checkers; page_rank by "
        "the oracle only. distinct = sha1 of the case; non-trivial = at least 4 nodes and 4 edges")
ASSUMPTIONS = [
    "maximal_cliques is compared with the definition (exhaustive search), not with a mirror of Bron-Kerbosch; hash-set order is not modelled",
    "dsatur, greedy_feedback_arc_set and steiner_tree are judged by checkers of their specification (their tie-breaking depends on heap / hash order)",
    "page_rank works in floating point: it is outside the Coq model and judged by the oracle (non-negativity, sum 1 within 1e-6, equivariance under relabelling within 1e-6)",
]
SCOPE = "see Props/C20.v"


def nums(l):
    return [int(x) for x in l.split()[1:]]


def succ(v, a):
    return [t for (_, t, _) in v["out"].get(a, [])]


def und_adj(v):
    adj = {a: set() for a in v["nodes"]}
    for a in v["nodes"]:
        for t in succ(v, a):
            if t != a and t in adj:
                adj[a].add(t)
                adj[t].add(a)
    return adj


def compare(stream, header, ops, impl, model):
    a = pipeline.split_ops(impl)
    b = pipeline.split_ops(model)
    for k in range(max(len(a), len(b))):
        if k < len(ops) and ops[k].startswith("page_rank"):
            continue
        x = a[k] if k < len(a) else None
        y = b[k] if k < len(b) else None
        if k < len(ops) and ops[k].startswith("prank") and x and y and x[0].startswith("scores") and y[0].startswith("scores"):
            # floating point against exact rationals: scaled by 1e9, equal within 20 units; NaN (-1) must be matched by None (-1)
            p, q = nums(x[0]), nums(y[0])
            if len(p) == len(q) and all((u == -1) == (w == -1) and abs(u - w) <= 20 for u, w in zip(p, q)):
                continue
            return k
        if k < len(ops) and ops[k].startswith("maximal_cliques") and x and y:
            x = [x[0]] + sorted(x[1:], key=lambda l: nums(l))
            y = [y[0]] + sorted(y[1:], key=lambda l: nums(l))
        if x != y:
            return k
    return None


def nontrivial(stream, header, ops, obs):
    v, qs = parse_view(header, ops)
    return len(v["nodes"]) >= 4 and sum(len(l) for l in v["out"].values()) >= 4


def acyclic(nodes, edges):
    indeg = {n: 0 for n in nodes}
    for (s, t) in edges:
        indeg[t] += 1
    st = [n for n in nodes if indeg[n] == 0]
    seen = 0
    while st:
        x = st.pop()
        seen += 1
        for (s, t) in edges:
            if s == x:
                indeg[t] -= 1
                if indeg[t] == 0:
                    st.append(t)
    return seen == len(nodes)


def two_colourable(nodes, adj):
    col = {}
    for s in nodes:
        if s in col:
            continue
        col[s] = 0
        st = [s]
        while st:
            x = st.pop()
            for y in adj[x]:
                if y not in col:
                    col[y] = 1 - col[x]
                    st.append(y)
                elif col[y] == col[x]:
                    return False
    return True


def simple_paths(v, a, b, lo, hi):
    res = []
    n = len(v["nodes"])
    hi = n if hi is None else hi

    def go(path):
        x = path[-1]
        for y in succ(v, x):
            if y == b:
                if lo <= len(path) - 1 <= hi:
                    res.append(path + [b])
            elif y not in path and len(path) - 1 < hi:
                go(path + [y])
    go([a])
    return res


def oracle(stream, header, ops, obs):
    groups = pipeline.split_ops(obs)
    if len(groups) != len(ops):
        return {"class": "missing-observations", "got": len(groups), "want": len(ops)}
    v, qs = parse_view(header, ops)
    enc = v["hdr"][6] if len(v["hdr"]) > 6 else -1
    nodes = v["nodes"]

    def bad(k, cls, want=None):
        return {"class": cls, "op_index": k, "op": ops[k][:80], "got": groups[k][:3], "want": want, "encoding": enc}

    for (k, name, a) in qs:
        g = groups[k]
        first = g[0] if g else ""
        if first in ("panic", "OUT-OF-FUEL") or not g:
            return bad(k, name.replace("_", "-") + "-panicked-on-a-valid-graph")
        if name == "maximal_cliques":
            adj = und_adj(v)
            want = []
            for r in range(0, len(nodes) + 1):
                for c in itertools.combinations(sorted(nodes), r):
                    if all(y in adj[x] for x, y in itertools.combinations(c, 2)) and \
                            not any(all(x in adj[z] for x in c) for z in nodes if z not in c):
                        want.append(list(c))
            got = [nums(l) for l in g[1:]]
            if len({tuple(c) for c in got}) != len(got):
                return bad(k, "maximal-cliques-lists-a-clique-twice")
            if sorted(got) != sorted(want):
                return bad(k, "maximal-cliques-is-not-exactly-the-set-of-maximal-cliques", sorted(want)[:6])
        elif name == "dsatur":
            kk = a[0]
            col = {a[i]: a[i + 1] for i in range(1, len(a) - 1, 2)}
            adj = und_adj(v)
            if sorted(col) != sorted(nodes):
                return bad(k, "dsatur-does-not-colour-exactly-the-nodes")
            if any(col[x] == col[y] for x in nodes for y in adj[x]):
                return bad(k, "dsatur-colouring-is-not-proper")
            if set(col.values()) != set(range(kk)):
                return bad(k, "dsatur-colour-count-is-not-the-number-of-colours-used", sorted(set(col.values())))
            if two_colourable(nodes, adj) and kk > 2:
                return bad(k, "dsatur-uses-more-than-two-colours-on-a-bipartite-graph", kk)
        elif name == "fas":
            edges = {e: (s, t) for (e, s, t, _) in v.get("erefs", [])}
            if len(set(a)) != len(a) or any(e not in edges for e in a):
                return bad(k, "feedback-arc-set-lists-a-non-edge-or-an-edge-twice")
            if any(s == t and e not in a for e, (s, t) in edges.items()):
                return bad(k, "feedback-arc-set-misses-a-self-loop")
            rest = [st for e, st in edges.items() if e not in a]
            if not acyclic(nodes, rest):
                return bad(k, "feedback-arc-set-leaves-a-cycle")
        elif name == "tred":
            order = a
            n = len(order)
            rank = {x: i for i, x in enumerate(order)}
            es = {(rank[x], rank[t]) for x in nodes for t in succ(v, x)}
            reach = {i: set() for i in range(n)}
            for i in reversed(range(n)):
                for (s, t) in es:
                    if s == i:
                        reach[i] |= {t} | reach[t]
            clos = {(i, j) for i in range(n) for j in reach[i]}
            red = {(i, j) for (i, j) in es if not any((i, m) in clos and (m, j) in clos for m in range(n))}
            rows = {"row": {}, "pairs": {}, "nodes": {}}
            for l in g[1:]:
                t = l.split()
                rows[t[0]][int(t[1])] = [int(x) for x in t[2:]]
            if nums(g[0])[:0] is None:
                pass
            revmap = nums(g[0])
            if any(revmap[x] != rank[x] for x in nodes):
                return bad(k, "tred-revmap-is-not-the-rank-in-the-toposort")
            if {(i, j) for i, l in rows["row"].items() for j in l} != es:
                return bad(k, "tred-toposorted-adjacency-list-is-not-the-graph")
            if any(l != sorted(l) for l in rows["row"].values()):
                return bad(k, "tred-neighbours-not-in-topological-order")
            got_red = [(i, j) for i, l in rows["pairs"].items() for j in l]
            got_clo = [(i, j) for i, l in rows["nodes"].items() for j in l]
            if len(set(got_red)) != len(got_red) or set(got_red) != red:
                return bad(k, "tred-reduction-is-not-the-transitive-reduction", sorted(red)[:8])
            if len(set(got_clo)) != len(got_clo) or set(got_clo) != clos:
                return bad(k, "tred-closure-is-not-the-transitive-closure", sorted(clos)[:8])
        elif name == "all_simple_paths":
            f, t, lo, hi = a[0], a[1], a[2], (None if a[3] < 0 else a[3])
            if f == t:
                continue          # what a simple path from a node to itself is, is not settled by the property
            got = [nums(l) for l in g[1:]]
            want = simple_paths(v, f, t, lo, hi)
            for p in got:
                if p[0] != f or p[-1] != t or len(set(p)) != len(p) or any(y not in succ(v, x) for x, y in zip(p, p[1:])):
                    return bad(k, "all-simple-paths-yields-something-that-is-not-a-simple-path", p)
                if not (lo <= len(p) - 2 <= (hi if hi is not None else len(nodes))):
                    return bad(k, "all-simple-paths-ignores-the-intermediate-node-bounds", p)
            if {tuple(p) for p in got} != {tuple(p) for p in want}:
                return bad(k, "all-simple-paths-is-not-exactly-the-set-of-simple-paths", len({tuple(p) for p in want}))
            simple = all(len(set(succ(v, x))) == len(succ(v, x)) for x in nodes)
            if simple and len(got) != len({tuple(p) for p in got}):
                return bad(k, "all-simple-paths-yields-a-path-twice-on-a-simple-graph")
        elif name == "steiner":
            nt = a[0]
            terms = a[1:1 + nt]
            nn = a[1 + nt]
            tn = a[2 + nt:2 + nt + nn]
            te = [tuple(a[i:i + 3]) for i in range(2 + nt + nn, len(a) - 2, 3)]
            gw = {}
            for (e, s, t, w) in v.get("erefs", []):
                gw.setdefault(frozenset((s, t)), set()).add(w)
            if any(x not in nodes for x in tn) or any(w not in gw.get(frozenset((s, t)), ()) for (s, t, w) in te):
                return bad(k, "steiner-tree-is-not-inside-the-graph")
            par = {x: x for x in tn}

            def find(x):
                while par[x] != x:
                    x = par[x]
                return x
            ok = len(te) == len(tn) - 1 or (not tn and not te)      # no terminal: the empty graph
            for (s, t, w) in te:
                if s not in par or t not in par or find(s) == find(t):
                    ok = False
                    break
                par[find(s)] = find(t)
            if not ok:
                return bad(k, "steiner-tree-is-not-a-tree")
            if any(t not in tn for t in terms):
                return bad(k, "steiner-tree-misses-a-terminal")
            deg = {x: sum(1 for (s, t, _) in te if x in (s, t)) for x in tn}
            if len(tn) > 1 and any(deg[x] == 1 and x not in terms for x in tn):
                return bad(k, "steiner-tree-has-a-non-terminal-leaf")
            # optimum by exhaustive search over node subsets: MST of the induced subgraph when connected
            best = None
            others = [x for x in nodes if x not in terms]
            for r in range(len(others) + 1):
                for extra in itertools.combinations(others, r):
                    S = set(terms) | set(extra)
                    es = sorted((w, s, t) for (e, s, t, w) in v.get("erefs", []) if s in S and t in S)
                    pp = {x: x for x in S}

                    def f2(x):
                        while pp[x] != x:
                            x = pp[x]
                        return x
                    tot = cnt = 0
                    for (w, s, t) in es:
                        if f2(s) != f2(t):
                            pp[f2(s)] = f2(t)
                            tot += w
                            cnt += 1
                    if cnt == len(S) - 1 and (best is None or tot < best):
                        best = tot
            if best is not None and sum(w for (_, _, w) in te) > 2 * best:
                return bad(k, "steiner-tree-heavier-than-twice-the-optimum", best)
        elif name == "prank":
            r1 = nums(g[0])
            if len(r1) != len(v["nodes"]) or len(r1) != v["bound"]:
                return bad(k, "page-rank-is-not-one-rank-per-node")
            if any(x < 0 for x in r1):
                return bad(k, "page-rank-not-a-number-for-damping-0" if a[0] == 0 else "page-rank-negative-or-not-finite")
            if r1 and abs(sum(r1) - 10 ** 9) > 2000:
                return bad(k, "page-rank-does-not-sum-to-one", sum(r1))
        elif name == "page_rank":
            r1, r2, perm, cnt = nums(g[0]), nums(g[1]), nums(g[2]), nums(g[3])
            count, bound = cnt[0], cnt[1]
            if count != bound:
                # vacant indices below node_bound: the result must still be one rank per node index
                if len(r1) != bound:
                    return bad(k, "page-rank-wrong-on-a-graph-with-vacant-indices", bound)
                continue
            if len(r1) != count:
                return bad(k, "page-rank-is-not-one-rank-per-node")
            if any(x < 0 for x in r1):
                return bad(k, "page-rank-negative-or-not-finite")
            if count and abs(sum(r1) - 10 ** 9) > 2000:
                return bad(k, "page-rank-does-not-sum-to-one", sum(r1))
            if any(abs(r1[i] - r2[perm[i]]) > 1000 for i in range(count)):
                return bad(k, "page-rank-not-carried-along-by-a-relabelling")
    return None


def plant(stream, header, ops, obs):
    groups = pipeline.split_ops(obs)
    for k, (o, g) in enumerate(zip(ops, groups)):
        if o.startswith("tred") and g and len(g) > 2:
            for j, l in enumerate(g):
                if l.startswith("nodes") and len(l.split()) > 2:
                    newg = g[:j] + [" ".join(l.split()[:-1])] + g[j + 1:]
                    new = []
                    for q, gg in enumerate(groups):
                        new += (newg if q == k else gg) + [";"]
                    return new
        if o.startswith("maximal_cliques") and g and len(g) > 2:
            new = []
            for q, gg in enumerate(groups):
                new += (["nat %d" % (len(g) - 2)] + g[2:] if q == k else gg) + [";"]
            return new
    return None
