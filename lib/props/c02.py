"""C02 — StableGraph: plugin for the check pipeline.  The oracle is a multigraph with stable indices."""
from collections import Counter
from lib import pipeline

LEVEL = "proof"
MODEL_FILES = ["Model/GraphM.v", "Model/StableM.v", "Model/StableIO.v"]
THEOREMS = []
EXTRA_PROPS = ["C02b"]
STREAMS = [("C02", 1500, 60000)]
SHARD = 1500
RELEASE_TOO = True
RULE = ("histories of add/try_add node and edge (failing calls on vacant, out-of-range and end() endpoints, with and "
        "without a vacant edge slot), update_edge, remove_node, remove_edge, reverse, clear, clear_edges, retain_*, "
        "extend_with_edges, filter_map, map, conversions to Graph and back, weight updates and queries; Directed and "
        "Undirected, u8/u16/u32/usize; one case in 120 fills the u8 index space, removes and re-adds; after every mutating "
        "call the whole graph is dumped (counts, bounds, node/edge references, externals, per live node neighbors x3 and "
        "edges x2) and every iterator is cross-checked; debug and release builds. distinct = sha1 of the case; "
        "non-trivial = a vacancy is created and an element is added afterwards")
ASSUMPTIONS = [
    "the Gallina model mirrors src/graph_impl/stable_graph/mod.rs as repaired by the fix: commits (checked by the differential run on generated histories only)",
    "u16 runs with its true limit (65535) but no generated history reaches it; u32/usize histories stay below the stand-in sentinel 3000; only u8 runs at its limit (node fill, edge fill, and the padding loop of extend_with_edges running into the limit)",
    "retain_*/filter_map closures are weight predicates",
]
SCOPE = "see Props/C02.v"

MUT = ("add_node", "try_add_node", "add_edge", "try_add_edge", "update_edge", "try_update_edge", "remove_node",
       "remove_edge", "reverse", "clear", "clear_edges", "retain_nodes", "retain_edges", "extend_with_edges",
       "filter_map", "map", "set_node_weight", "set_edge_weight", "compact")


def nontrivial(stream, header, ops, obs):
    vac = False
    for o in ops:
        t = o.split()[0]
        if t in ("remove_node", "remove_edge", "retain_nodes", "retain_edges"):
            vac = True
        elif vac and t in ("add_node", "try_add_node", "add_edge", "try_add_edge", "update_edge", "extend_with_edges"):
            return True
    return False


def compare(stream, header, ops, impl, model):
    return pipeline.generic_compare(impl, model)


def nums(l):
    return [int(x) for x in l.split()[1:]]


def chunks(xs, k):
    return [tuple(xs[i:i + k]) for i in range(0, len(xs) - k + 1, k)]


def oracle(stream, header, ops, obs):
    groups = pipeline.split_ops(obs)
    if len(groups) != len(ops):
        return {"class": "missing-observations", "got": len(groups), "want": len(ops)}
    h = [int(x) for x in header.split()[2:]]
    directed, cap, cc = h[0] == 1, h[2], h[3] == 1
    nodes, edges = {}, {}     # idx -> w ; idx -> [s, t, w]
    raw = {"n": 0, "e": 0}    # slots ever created (vector lengths)

    def bad(k, cls, want=None):
        return {"class": cls, "op_index": k, "op": ops[k][:80], "got": groups[k][:8], "want": want}

    def joins(e, a, b):
        return (e[0] == a and e[1] == b) or (not directed and e[0] == b and e[1] == a)

    def edge_error(a, b):
        """the error try_add_edge must report, or None"""
        has_free = raw["e"] > len(edges)
        if not has_free and cc and raw["e"] == cap:
            return "elimit"
        if max(a, b) >= raw["n"]:
            return "missed %d" % max(a, b)
        if a not in nodes:
            return "missed %d" % a
        if b not in nodes:
            return "missed %d" % b
        return None

    def check_battery(k, lines, new_edges=None):
        nb = max(nodes) + 1 if nodes else 0
        if new_edges is not None:
            # edges added without their indices being reported: adopt fresh indices from the dump
            got = chunks(nums(lines[2]), 4) if len(lines) > 2 else []
            pool = Counter(new_edges)
            for (i, s, t, w) in got:
                if i in edges:
                    continue
                if pool[(s, t, w)] <= 0:
                    return bad(k, "stable-unexpected-edge-after-bulk-insert", sorted(pool.elements()))
                pool[(s, t, w)] -= 1
                edges[i] = [s, t, w]
                raw["e"] = max(raw["e"], i + 1)
            if sum(pool.values()):
                return bad(k, "stable-edge-missing-after-bulk-insert", sorted(pool.elements()))
        eb = max(edges) + 1 if edges else 0
        want0 = "counts %d %d %d %d" % (len(nodes), len(edges), nb, eb)
        if not lines or lines[0] != want0:
            return bad(k, "stable-counts-or-bounds-wrong", want0)
        if len(lines) != 5 + 5 * len(nodes):
            return bad(k, "stable-battery-misaligned-or-iterators-disagree", lines[5 + 5 * len(nodes):][:3])
        if chunks(nums(lines[1]), 2) != sorted(nodes.items()):
            return bad(k, "stable-node-references-wrong", sorted(nodes.items()))
        if chunks(nums(lines[2]), 4) != [(i, e[0], e[1], e[2]) for i, e in sorted(edges.items())]:
            return bad(k, "stable-edge-references-wrong", [(i, e[0], e[1], e[2]) for i, e in sorted(edges.items())])
        outs = {a: [] for a in nodes}
        ins = {a: [] for a in nodes}
        for i, e in edges.items():
            if e[0] not in nodes or e[1] not in nodes:
                return bad(k, "stable-oracle-internal-dangling-edge")
            outs[e[0]].append((i, e))
            ins[e[1]].append((i, e))
        exto = sorted(a for a in nodes if not outs[a] and (directed or not ins[a]))
        exti = sorted(a for a in nodes if not ins[a] and (directed or not outs[a]))
        if nums(lines[3]) != exto or nums(lines[4]) != exti:
            return bad(k, "stable-externals-wrong", [exto, exti])
        for j, a in enumerate(sorted(nodes)):
            blk = [nums(x) for x in lines[5 + 5 * j: 10 + 5 * j]]
            if any(b[0] != a for b in blk):
                return bad(k, "stable-battery-misaligned")
            nbo, nbi, nbu = blk[0][1:], blk[1][1:], blk[2][1:]
            edo, edi = chunks(blk[3][1:], 4), chunks(blk[4][1:], 4)
            und = [e[1] for (_, e) in outs[a]] + [e[0] for (_, e) in ins[a] if e[0] != a]
            if Counter(nbu) != Counter(und):
                return bad(k, "stable-neighbors-undirected-wrong", sorted(und))
            if directed:
                if Counter(nbo) != Counter(e[1] for (_, e) in outs[a]) or Counter(nbi) != Counter(e[0] for (_, e) in ins[a]):
                    return bad(k, "stable-directed-neighbors-wrong")
                if Counter(edo) != Counter((i, e[0], e[1], e[2]) for (i, e) in outs[a]):
                    return bad(k, "stable-directed-edges-wrong")
                if Counter(edi) != Counter((i, e[0], e[1], e[2]) for (i, e) in ins[a]):
                    return bad(k, "stable-directed-incoming-edges-wrong")
            else:
                if Counter(nbo) != Counter(und) or Counter(nbi) != Counter(und):
                    return bad(k, "stable-undirected-neighbors-wrong", sorted(und))
                inc = [(i, a, e[1], e[2]) for (i, e) in outs[a]] + [(i, a, e[0], e[2]) for (i, e) in ins[a] if e[0] != a]
                if Counter(edo) != Counter(inc):
                    return bad(k, "stable-undirected-edges-wrong", sorted(inc))
                if Counter(edi) != Counter((i, t, s, w) for (i, s, t, w) in inc):
                    return bad(k, "stable-undirected-incoming-edges-wrong")
        return None

    def remove_node(a):
        w = nodes.pop(a)
        for i in [i for i, e in edges.items() if e[0] == a or e[1] == a]:
            del edges[i]
        return w

    for k, (o, g) in enumerate(zip(ops, groups)):
        t = o.split()
        a = [int(x) for x in t[1:]]
        name = t[0]
        first = g[0] if g else ""
        new_edges = None
        if name in ("add_node", "try_add_node"):
            has_free = raw["n"] > len(nodes)
            if not has_free and cc and raw["n"] == cap:
                want = "panic" if name == "add_node" else "limit"
                if first != want:
                    return bad(k, "stable-node-limit-not-reported", want)
            else:
                if not first.startswith("idx "):
                    return bad(k, "stable-add-node-failed", "idx <fresh>")
                i = int(first.split()[1])
                if i in nodes:
                    return bad(k, "stable-new-node-got-a-live-index")
                if has_free and i >= raw["n"]:
                    return bad(k, "stable-add-node-ignored-vacancy")
                nodes[i] = a[0]
                raw["n"] = max(raw["n"], i + 1)
        elif name in ("add_edge", "try_add_edge", "update_edge", "try_update_edge"):
            x, y, w = a
            existing = [i for i, e in edges.items() if joins(e, x, y)] if name.endswith("update_edge") else []
            if name.endswith("update_edge") and x in nodes and existing:
                if not first.startswith("idx ") or int(first.split()[1]) not in existing:
                    return bad(k, "stable-update-edge-ignored-existing-edge", existing)
                edges[int(first.split()[1])][2] = w
            else:
                err = edge_error(x, y)
                if err is not None:
                    want = "panic" if name in ("add_edge", "update_edge") else err
                    if first != want:
                        return bad(k, "stable-add-edge-error-wrong", want)
                else:
                    if not first.startswith("idx "):
                        return bad(k, "stable-add-edge-failed", "idx <fresh>")
                    i = int(first.split()[1])
                    if i in edges:
                        return bad(k, "stable-new-edge-got-a-live-index")
                    edges[i] = [x, y, w]
                    raw["e"] = max(raw["e"], i + 1)
        elif name == "remove_node":
            want = "some %d" % remove_node(a[0]) if a[0] in nodes else "none"
            if first != want:
                return bad(k, "stable-remove-node-wrong", want)
        elif name == "remove_edge":
            want = "some %d" % edges.pop(a[0])[2] if a[0] in edges else "none"
            if first != want:
                return bad(k, "stable-remove-edge-wrong", want)
        elif name == "reverse":
            for e in edges.values():
                e[0], e[1] = e[1], e[0]
        elif name == "clear":
            nodes, edges, raw = {}, {}, {"n": 0, "e": 0}
        elif name == "clear_edges":
            edges = {}
            raw["e"] = 0
        elif name == "retain_nodes":
            for i in sorted(nodes):
                if i in nodes and nodes[i] % a[0] == a[1]:
                    remove_node(i)
        elif name == "retain_edges":
            for i in sorted(edges):
                if edges[i][2] % a[0] == a[1]:
                    del edges[i]
        elif name == "extend_with_edges":
            ok, new_edges = True, []
            for (s, t_, w) in chunks(a, 3):
                for ix in (s, t_):
                    if ix not in nodes:
                        if cc and ix >= cap:
                            # ensure_node_exists pads with vacant slots until add_node panics: the vector is left with cap entries
                            raw["n"] = max(raw["n"], cap)
                            ok = False
                            break
                        nodes[ix] = 0
                        raw["n"] = max(raw["n"], ix + 1)
                if not ok:
                    break
                # the edge index is not reported: a free slot or a new one
                has_free = raw["e"] > len(edges) + len(new_edges)
                if not has_free and cc and raw["e"] == cap:
                    ok = False
                    break
                if not has_free:
                    raw["e"] += 1
                new_edges.append((s, t_, w))
            if first != ("unit" if ok else "panic"):
                return bad(k, "stable-extend-with-edges-wrong", "unit" if ok else "panic")
        elif name == "filter_map":
            m_, r_, m2, r2 = a
            nb = max(nodes) + 1 if nodes else 0
            eb = max(edges) + 1 if edges else 0
            nodes = {i: w + 1 for i, w in nodes.items() if w % m_ != r_}
            edges = {i: [e[0], e[1], e[2] + 1] for i, e in edges.items()
                     if e[0] in nodes and e[1] in nodes and e[2] % m2 != r2}
            raw = {"n": nb, "e": eb}
        elif name == "map":
            nodes = {i: w + 1 for i, w in nodes.items()}
            for e in edges.values():
                e[2] += 1
        elif name in ("to_graph", "compact"):
            order = sorted(nodes)
            ren = {i: j for j, i in enumerate(order)}
            nw = [nodes[i] for i in order]
            el = [(ren[e[0]], ren[e[1]], e[2]) for _, e in sorted(edges.items())]
            if name == "to_graph":
                if len(g) != 2 or nums(g[0]) != nw or chunks(nums(g[1]), 3) != el:
                    return bad(k, "stable-conversion-to-graph-wrong", [nw, el])
            else:
                nodes = dict(enumerate(nw))
                edges = {j: list(e) for j, e in enumerate(el)}
                raw = {"n": len(nodes), "e": len(edges)}
        elif name == "set_node_weight":
            ok = a[0] in nodes
            if ok:
                nodes[a[0]] = a[1]
            if first != "bool %d" % int(ok):
                return bad(k, "stable-node-weight-mut-wrong")
        elif name == "set_edge_weight":
            ok = a[0] in edges
            if ok:
                edges[a[0]][2] = a[1]
            if first != "bool %d" % int(ok):
                return bad(k, "stable-edge-weight-mut-wrong")
        elif name == "node_weight":
            want = "some %d" % nodes[a[0]] if a[0] in nodes else "none"
            if first != want:
                return bad(k, "stable-node-weight-wrong", want)
        elif name == "contains_node":
            if first != "bool %d" % int(a[0] in nodes):
                return bad(k, "stable-contains-node-wrong")
        elif name == "edge_weight":
            want = "some %d" % edges[a[0]][2] if a[0] in edges else "none"
            if first != want:
                return bad(k, "stable-edge-weight-wrong", want)
        elif name == "edge_endpoints":
            want = "pair %d %d" % (edges[a[0]][0], edges[a[0]][1]) if a[0] in edges else "none"
            if first != want:
                return bad(k, "stable-edge-endpoints-wrong", want)
        elif name == "find_edge":
            existing = [i for i, e in edges.items() if joins(e, a[0], a[1])]
            if first == "none":
                if existing:
                    return bad(k, "stable-find-edge-missed-an-edge", existing)
            elif not first.startswith("some") or int(first.split()[1]) not in existing:
                return bad(k, "stable-find-edge-wrong", existing)
        elif name == "find_edge_undirected":
            ex = [(i, 0) for i, e in edges.items() if e[0] == a[0] and e[1] == a[1]] + \
                 [(i, 1) for i, e in edges.items() if e[1] == a[0] and e[0] == a[1]]
            if first == "none":
                if ex:
                    return bad(k, "stable-find-edge-undirected-missed-an-edge", ex)
            elif tuple(nums(first)) not in ex:
                return bad(k, "stable-find-edge-undirected-wrong", ex)
        elif name == "edges_connecting":
            x, y = a
            want = [(i, x, y, e[2]) for i, e in edges.items() if joins(e, x, y)]
            if not first.startswith("econn") or Counter(chunks(nums(first), 4)) != Counter(want):
                return bad(k, "stable-edges-connecting-wrong", want)
        if name in MUT:
            e = check_battery(k, g[1:], new_edges)
            if e:
                return e
    return None


def plant(stream, header, ops, obs):
    groups = pipeline.split_ops(obs)
    for k, (o, g) in enumerate(zip(ops, groups)):
        if o.startswith("edge_endpoints") and g and g[0].startswith("pair"):
            x = g[0].split()
            new = []
            for j, gg in enumerate(groups):
                new += (["pair %s %d" % (x[1], int(x[2]) + 1)] if j == k else gg) + [";"]
            return new
    return None


def shrink(stream, header, ops, obs, failure):
    k = failure.get("op_index")
    return ops[:k + 1] if isinstance(k, int) else ops
