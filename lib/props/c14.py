"""C14 — Acyclic<DiGraph> / Acyclic<StableDiGraph>: plugin for the check pipeline.
The oracle is a set of nodes and a multiset of arcs plus reachability; it knows nothing of Pearce-Kelly."""
from lib import pipeline

LEVEL = "proof"
MODEL_FILES = ["Model/AcyclicM.v", "Model/AcyclicIO.v", "Model/GraphM.v", "Model/StableM.v", "Model/Traversal.v", "Model/AlgoBasic.v"]
THEOREMS = []
EXTRA_PROPS = ["C14b"]
STREAMS = [("C14", 2000, 80000)]
SHARD = 2000
RELEASE_TOO = True
RULE = ("histories of 10..60 calls on Acyclic<DiGraph> and Acyclic<StableDiGraph> (u8/u16/u32/usize) over 3..9 nodes: add_node, "
        "try_add_edge, try_update_edge, Build::add_edge, Build::update_edge (6% self-loops, 8% absent endpoints, dense enough that "
        "about a third of the insertions would close a cycle), remove_edge, remove_node (present, absent, out of range, repeated), "
        "is_valid_edge, into_inner + unchecked add_edge + TryFrom/try_from_graph, range(lo..hi); after every mutating call the order "
        "(nodes_iter), get_position of every live node, at_position of every position up to the largest key + 1 and the whole wrapped "
        "graph are dumped; a panicking call is rolled back to a clone taken before it; debug and release builds. distinct = sha1 of the "
        "case; non-trivial = an edge is inserted successfully after a node removal and at least one insertion is rejected for a cycle")
ASSUMPTIONS = [
    "the Gallina model mirrors src/acyclic.rs and src/acyclic/order_map.rs as repaired by the fix: commit, on top of the Graph and StableGraph models of C01/C02",
    "TopologicalPosition values are read through Debug and built by transmute in the harness (the type is repr(transparent) over usize)",
]
SCOPE = "see Props/C14.v"

EDGE_OPS = ("try_add_edge", "try_update_edge", "build_add_edge", "build_update_edge")


def nums(l):
    return [int(x) for x in l.split()[1:]]


def chunks(xs, k):
    return [tuple(xs[i:i + k]) for i in range(0, len(xs) - k + 1, k)]


def nontrivial(stream, header, ops, obs):
    groups = pipeline.split_ops(obs)
    removed = after = cyc = False
    for o, g in zip(ops, groups):
        t = o.split()[0]
        first = g[0] if g else ""
        if t == "remove_node" and first.startswith("some"):
            removed = True
        elif t in EDGE_OPS:
            if first.startswith("cycle") or (t == "build_add_edge" and first == "none"):
                cyc = True
            elif removed and (first.startswith("idx") or first.startswith("some")):
                after = True
    return after and cyc


def compare(stream, header, ops, impl, model):
    return pipeline.generic_compare(impl, model)


def parse_battery(kind, lines):
    """-> dict(order, pos{n:p}, atpos[list], nodes{n:w}, edges{e:(s,t,w)}) or None"""
    d = {}
    for l in lines:
        t = l.split()
        if not t:
            continue
        if t[0] in ("order", "atpos"):
            d[t[0]] = nums(l)
        elif t[0] == "pos":
            d["pos"] = dict(chunks(nums(l), 2))
        elif kind == 0 and t[0] == "nw":
            d["nodes"] = dict(enumerate(nums(l)))
        elif kind == 0 and t[0] == "el":
            d["edges"] = dict(enumerate(chunks(nums(l), 3)))
        elif kind == 1 and t[0] == "nodes":
            d["nodes"] = dict(chunks(nums(l), 2))
        elif kind == 1 and t[0] == "erefs":
            d["edges"] = {c[0]: tuple(c[1:]) for c in chunks(nums(l), 4)}
        elif "mismatch" in l or "disagree" in l:
            d["bad"] = l
    if not all(k in d for k in ("order", "pos", "atpos", "nodes", "edges")):
        return None
    return d


def reach(edges, src):
    seen, st = {src}, [src]
    while st:
        x = st.pop()
        for (s, t, _) in edges:
            if s == x and t not in seen:
                seen.add(t)
                st.append(t)
    return seen


def acyclic(nodes, edges):
    indeg = {n: 0 for n in nodes}
    for (s, t, _) in edges:
        if s == t:
            return False
        indeg[t] += 1
    st = [n for n in nodes if indeg[n] == 0]
    cnt = 0
    es = list(edges)
    while st:
        x = st.pop()
        cnt += 1
        for (s, t, _) in es:
            if s == x:
                indeg[t] -= 1
                if indeg[t] == 0:
                    st.append(t)
    return cnt == len(nodes)


def check_state(d):
    """the invariant part of the property on one dumped state; returns a class name or None"""
    if "bad" in d:
        return "acyclic-wrapped-graph-inconsistent"
    nodes, edges = d["nodes"], list(d["edges"].values())
    if not acyclic(nodes, edges):
        return "acyclic-graph-contains-a-cycle"
    if sorted(d["order"]) != sorted(nodes):
        return "acyclic-order-is-not-exactly-the-live-nodes"
    if set(d["pos"]) != set(nodes) or any(p < 0 for p in d["pos"].values()):
        return "acyclic-get-position-fails-on-a-live-node"
    ps = [d["pos"][n] for n in d["order"]]
    if any(a >= b for a, b in zip(ps, ps[1:])):
        return "acyclic-positions-not-increasing-along-nodes-iter"
    for p, n in enumerate(d["atpos"]):
        want = [m for m in nodes if d["pos"][m] == p]
        if (n == -1 and want) or (n != -1 and want != [n]):
            return "acyclic-at-position-disagrees-with-get-position"
    if any(p >= len(d["atpos"]) for p in d["pos"].values()):
        return "acyclic-at-position-disagrees-with-get-position"
    for (s, t, _) in edges:
        if d["pos"][s] >= d["pos"][t]:
            return "acyclic-edge-goes-backwards-in-the-order"
    return None


def same_state(a, b):
    return all(a[k] == b[k] for k in ("order", "pos", "atpos", "nodes", "edges"))


def oracle(stream, header, ops, obs):
    groups = pipeline.split_ops(obs)
    if len(groups) != len(ops):
        return {"class": "missing-observations", "got": len(groups), "want": len(ops)}
    h = [int(x) for x in header.split()[2:]]
    kind, cap, capcheck = h[0], h[2], h[3] == 1
    cur = {"order": [], "pos": {}, "atpos": [-1, -1], "nodes": {}, "edges": {}}

    def bad(k, cls, want=None):
        return {"class": cls, "op_index": k, "op": ops[k][:80], "got": groups[k][:4], "want": want, "inner": "DiGraph" if kind == 0 else "StableDiGraph"}

    for k, (o, g) in enumerate(zip(ops, groups)):
        t = o.split()
        name, a = t[0], [int(x) for x in t[1:]]
        first = g[0] if g else ""
        nodes, edges = cur["nodes"], list(cur["edges"].values())
        if first == "OUT-OF-FUEL":
            return bad(k, "model-out-of-fuel")
        if name == "is_valid_edge":
            if a[0] in nodes and a[1] in nodes:
                if first == "panic":
                    return bad(k, "acyclic-panicked-on-valid-arguments")
                want = a[0] != a[1] and a[0] not in reach(edges, a[1])
                if first != "bool %d" % int(want):
                    return bad(k, "is-valid-edge-wrong", want)
            continue
        if name == "range":
            want = [n for n in cur["order"] if a[0] <= cur["pos"][n] < a[1]]
            if first != ("range " + " ".join(map(str, want))).strip():
                return bad(k, "acyclic-range-is-not-the-nodes-in-that-position-interval", want)
            continue
        new = parse_battery(kind, g[1:])
        if new is None:
            return bad(k, "acyclic-state-dump-missing")
        cls = check_state(new)
        if cls:
            return bad(k, cls)
        full = capcheck and (len(nodes) >= cap if name == "add_node" else len(cur["edges"]) >= cap)
        if name == "add_node":
            if first == "panic":
                if not full:
                    return bad(k, "acyclic-panicked-on-valid-arguments")
            else:
                n = nums(first)[0]
                if n in nodes or set(new["nodes"]) != set(nodes) | {n} or new["nodes"][n] != a[0]:
                    return bad(k, "acyclic-add-node-wrong-node-set")
                if any(new["pos"][m] != cur["pos"][m] for m in nodes) or new["edges"] != cur["edges"]:
                    return bad(k, "acyclic-add-node-disturbs-other-nodes")
        elif name in EDGE_OPS:
            x, y, w = a
            live = x in nodes and y in nodes
            if x == y:
                want = "selfloop"
            elif not live:
                want = "panic"
            elif x in reach(edges, y):
                want = "cycle"
            else:
                want = "ok"
            if full and want == "ok":
                want = "panic"
            got = {"selfloop": "selfloop", "panic": "panic", "none": "rejected"}.get(first, None)
            if got is None:
                got = "cycle" if first.startswith("cycle") else "ok" if first.startswith(("idx", "some")) else "?"
            if name == "build_add_edge" and want in ("selfloop", "cycle"):
                want = "rejected"
            if name == "build_update_edge" and want in ("selfloop", "cycle"):
                want = "panic"
            if got != want:
                cls = {"ok": "acyclic-accepted-an-edge-it-must-reject", "cycle": "acyclic-rejected-a-valid-edge"}.get(got, "acyclic-edge-insertion-wrong-outcome")
                if got == "panic":
                    cls = "acyclic-panicked-on-valid-arguments"
                return bad(k, cls, want)
            if got != "ok":
                if not same_state(cur, new):
                    return bad(k, "acyclic-rejected-insertion-changed-the-state")
            else:
                if set(new["nodes"]) != set(nodes):
                    return bad(k, "acyclic-edge-insertion-changed-the-node-set")
                old_m = sorted(edges)
                new_m = sorted(new["edges"].values())
                upd = name in ("try_update_edge", "build_update_edge") and any(s == x and t_ == y for (s, t_, _) in edges)
                if upd:
                    # first matching edge gets the weight; the multiset of endpoints is unchanged
                    if sorted((s, t_) for (s, t_, _) in old_m) != sorted((s, t_) for (s, t_, _) in new_m):
                        return bad(k, "acyclic-update-edge-changed-the-edge-set")
                else:
                    tmp = list(new_m)
                    if (x, y, w) not in tmp:
                        return bad(k, "acyclic-inserted-edge-missing")
                    tmp.remove((x, y, w))
                    if tmp != old_m:
                        return bad(k, "acyclic-edge-insertion-changed-other-edges")
        elif name == "remove_edge":
            if first == "panic":
                return bad(k, "acyclic-panicked-on-valid-arguments")
            if new["order"] != cur["order"] or new["pos"] != cur["pos"]:
                return bad(k, "acyclic-remove-edge-disturbs-the-order")
            if (a[0] in cur["edges"]) != first.startswith("some"):
                return bad(k, "acyclic-remove-edge-wrong-result")
        elif name == "remove_node":
            n = a[0]
            if first == "panic":
                return bad(k, "acyclic-remove-node-panicked", "Some or None")
            if n not in nodes:
                if first != "none" or not same_state(cur, new):
                    return bad(k, "acyclic-removing-an-absent-node-disturbs-the-graph")
            else:
                if first != "some %d" % nodes[n]:
                    return bad(k, "acyclic-remove-node-wrong-result", nodes[n])
                ren = {}
                if kind == 0:
                    last = max(nodes)
                    if n != last:
                        ren[last] = n
                want_order = [ren.get(m, m) for m in cur["order"] if m != n]
                want_pos = {ren.get(m, m): p for m, p in cur["pos"].items() if m != n}
                if new["order"] != want_order or new["pos"] != want_pos:
                    return bad(k, "acyclic-remove-node-disturbs-the-remaining-nodes", [want_order, want_pos])
        elif name == "raw_edge":
            x, y, w = a
            if first == "panic":
                if not full and x in nodes and y in nodes:
                    return bad(k, "acyclic-panicked-on-valid-arguments")
            else:
                want_ok = x != y and x not in reach(edges, y)
                if first.startswith("bool") != want_ok:
                    return bad(k, "try-from-accepts-or-rejects-the-wrong-graph", want_ok)
                if not want_ok and not same_state(cur, new):
                    return bad(k, "acyclic-state-dump-missing")
        cur = new
    return None


def plant(stream, header, ops, obs):
    groups = pipeline.split_ops(obs)
    for k, (o, g) in enumerate(zip(ops, groups)):
        if o.split()[0] == "try_add_edge" and g and g[0].startswith("cycle"):
            new = []
            for j, gg in enumerate(groups):
                new += ((["idx 0"] + gg[1:]) if j == k else gg) + [";"]
            return new
    return None


def shrink(stream, header, ops, obs, failure):
    k = failure.get("op_index")
    return ops[:k + 1] if isinstance(k, int) else ops
