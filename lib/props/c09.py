"""C09 — SCC, connectivity, cycle detection, toposort, bipartite: plugin for the check pipeline."""
from lib import pipeline
from lib.props.c08 import parse_view, reach, succ

LEVEL = "proof"
RELEASE_TOO = True
MODEL_FILES = ["Model/View.v", "Model/Traversal.v", "Model/AlgoBasic.v", "Model/UnionFindM.v", "Model/CondenseM.v", "Model/AlgoIO.v"]
THEOREMS = []
EXTRA_PROPS = ["C09b"]
STREAMS = [("C09", 3000, 120000)]
SHARD = 5000
RULE = ("sparse random directed and undirected multigraphs on 1..10 nodes (self-loops, parallel edges, several components, "
        "cycles) in nine encodings (Graph u32/u8, StableGraph with vacancies, GraphMap, Csr, adj::List, MatrixGraph with "
        "removed ids, Reversed, NodeFiltered); on each: connected_components, is_cyclic_undirected, is_cyclic_directed, "
        "tarjan (TarjanScc::run, tarjan_scc, node_component_index of every node), condensation with and without make_acyclic (on the two Graph encodings, node weights = indices), toposort (fresh and reused DfsSpace), "
        "kosaraju_scc, has_path_connecting for 2..4 pairs, is_bipartite_undirected; outputs compared exactly with the model. "
        "distinct = sha1 of view+queries; non-trivial = at least 3 edges and (a cycle or two components)")
ASSUMPTIONS = [
    "the Gallina model mirrors src/algo/mod.rs over the dumped view (checked by the differential run only)",
    "usize::MAX is 2^64-1 (TarjanScc's component counter counts down from it)",
]
SCOPE = "see Props/C09.v"


def nontrivial(stream, header, ops, obs):
    from lib.props import c08
    return c08.nontrivial(stream, header, ops, obs)


def compare(stream, header, ops, impl, model):
    return pipeline.generic_compare(impl, model)


def nums(l):
    return [int(x) for x in l.split()[1:]]


def abstract_edges(v):
    """the edge multiset the view shows: every out entry once; undirected views show a non-loop edge from both ends"""
    es = []
    for a in v["nodes"]:
        for (e, t, w) in v["out"].get(a, []):
            if v["directed"] or a <= t:
                es.append((a, t))
    return es


def components(nodes, edges):
    par = {x: x for x in nodes}

    def find(x):
        while par[x] != x:
            par[x] = par[par[x]]
            x = par[x]
        return x
    cyc = False
    for (a, b) in edges:
        if a not in par or b not in par:
            continue
        ra, rb = find(a), find(b)
        if ra == rb:
            cyc = True
        else:
            par[ra] = rb
    return len({find(x) for x in nodes}), cyc


def oracle(stream, header, ops, obs):
    groups = pipeline.split_ops(obs)
    if len(groups) != len(ops):
        return {"class": "missing-observations", "got": len(groups), "want": len(ops)}
    v, qs = parse_view(header, ops)
    nodes = v["nodes"]
    R = {a: reach(v, a) for a in nodes}
    has_cycle = any(a in R[t] for a in nodes for t in succ(v, a))
    enc = v["hdr"][6] if len(v["hdr"]) > 6 else -1

    def bad(k, cls, want=None):
        return {"class": cls, "op_index": k, "op": ops[k][:100], "got": groups[k][:4], "want": want, "encoding": enc}

    def sccs_ok(k, g, name):
        if not g or not g[0].startswith("nat"):
            return bad(k, name + "-malformed")
        comps = [nums(x) for x in g[1:1 + nums(g[0])[0]]]
        flat = [x for c in comps for x in c]
        if sorted(flat) != sorted(nodes):
            return bad(k, name + "-not-a-partition-of-the-nodes")
        for c in comps:
            for x in c:
                if {y for y in nodes if y in R[x] and x in R[y]} != set(c):
                    return bad(k, name + "-component-is-not-a-mutual-reachability-class", sorted(c))
        for i in range(len(comps)):
            for j in range(i + 1, len(comps)):
                if comps[j][0] in R[comps[i][0]]:
                    return bad(k, name + "-component-reaches-a-later-one", (comps[i], comps[j]))
        return comps

    for (k, name, a) in qs:
        g = groups[k]
        first = g[0] if g else ""
        if first == "panic":
            if all(x < v["vcap"] or v["vcap"] < 0 for x in nodes) and all(x < v["bound"] for x in nodes):
                return bad(k, "algorithm-panicked-on-a-consistent-view")
            continue
        if name == "connected_components":
            want, _ = components(list(range(v["bound"])), abstract_edges(v))
            if first != "nat %d" % want:
                return bad(k, "connected-components-wrong", want)
        elif name == "is_cyclic_undirected":
            _, cyc = components(list(range(max([v["bound"]] + [x + 1 for x in nodes]))), abstract_edges(v))
            if first != "bool %d" % int(cyc):
                return bad(k, "is-cyclic-undirected-wrong", int(cyc))
        elif name == "is_cyclic_directed":
            if first != "bool %d" % int(has_cycle):
                return bad(k, "is-cyclic-directed-wrong", int(has_cycle))
        elif name in ("toposort", "toposort2", "toposort3"):
            for ln in g:
                if ln.startswith("cycle"):
                    n = nums(ln)[0]
                    if not any(n in R[t] for t in succ(v, n)):
                        return bad(k, "toposort-cycle-node-not-on-a-cycle", n)
                elif ln.startswith("seq"):
                    s = nums(ln)
                    if has_cycle:
                        return bad(k, "toposort-ok-on-a-cyclic-graph")
                    if sorted(s) != sorted(nodes):
                        return bad(k, "toposort-not-a-permutation-of-the-nodes")
                    pos = {x: i for i, x in enumerate(s)}
                    if any(pos[t] <= pos[x] for x in nodes for t in succ(v, x)):
                        return bad(k, "toposort-edge-points-backwards")
                else:
                    return bad(k, "toposort-malformed")
            if name == "toposort2" and len(g) == 2 and g[0].split()[0] != g[1].split()[0]:
                return bad(k, "toposort-reused-dfsspace-changes-the-answer")
        elif name in ("has_path", "has_path3"):
            want = int(a[1] in reach(v, a[0]))
            if first != "bool %d" % want:
                return bad(k, "has-path-connecting-wrong", want)
        elif name == "kosaraju":
            r = sccs_ok(k, g, "kosaraju")
            if isinstance(r, dict):
                return r
        elif name == "tarjan":
            if any("tarjan-reused-state-mismatch" in x for x in g):
                return bad(k, "tarjan-reused-state-gives-other-components-or-indices")
            if any("tarjan_scc-vs-run-mismatch" in x for x in g):
                return bad(k, "tarjan-scc-and-run-disagree-or-malformed")
            r = sccs_ok(k, g, "tarjan")
            if isinstance(r, dict):
                return r
            if len(g) != len(r) + 2:
                return bad(k, "tarjan-scc-and-run-disagree-or-malformed")
            ci = nums(g[-1])
            idx = {ci[i]: ci[i + 1] for i in range(0, len(ci) - 1, 2)}
            for j, c in enumerate(r):
                for x in c:
                    if idx.get(x) != j:
                        return bad(k, "tarjan-node-component-index-inconsistent", (x, j))
        elif name == "condensation":
            if not first.startswith("nat"):
                return bad(k, "condensation-malformed")
            ncomp = nums(first)[0]
            comps = [nums(x) for x in g[1:1 + ncomp]]
            flat = [x for c in comps for x in c]
            if sorted(flat) != sorted(nodes) or any(not c for c in comps):
                return bad(k, "condensation-nodes-are-not-a-partition-of-the-nodes")
            for c in comps:
                if {y for y in nodes if y in R[c[0]] and c[0] in R[y]} != set(c):
                    return bad(k, "condensation-node-is-not-a-strongly-connected-component", sorted(c))
            cof = {x: i for i, c in enumerate(comps) for x in c}
            el = nums(g[1 + ncomp])
            got = [tuple(el[i:i + 3]) for i in range(0, len(el) - 2, 3)]
            orig = [(s_, t_, w) for (_, s_, t_, w) in v.get("erefs", [])]
            if a[0] == 0:
                want = [(cof[s_], cof[t_], w) for (s_, t_, w) in orig]
                if sorted(got) != sorted(want):
                    return bad(k, "condensation-edges-are-not-the-original-edges-mapped-to-components", sorted(want)[:6])
            else:
                pairs = [(x, y) for (x, y, _) in got]
                key = (lambda p_: p_) if v["directed"] else (lambda p_: tuple(sorted(p_)))
                if any(x == y for (x, y) in pairs) or len({key(p_) for p_ in pairs}) != len(pairs):
                    return bad(k, "condensation-make-acyclic-result-is-not-simple")
                wantp = {key((cof[s_], cof[t_])) for (s_, t_, _) in orig if cof[s_] != cof[t_]}
                if {key(p_) for p_ in pairs} != wantp:
                    return bad(k, "condensation-make-acyclic-edge-set-wrong", sorted(wantp)[:6])
                for (x, y, w) in got:
                    if not any(key((cof[s_], cof[t_])) == key((x, y)) and w2 == w for (s_, t_, w2) in orig):
                        return bad(k, "condensation-make-acyclic-weight-is-not-an-original-weight", (x, y, w))
                if v["directed"]:
                    # a condensation of a directed graph is acyclic
                    indeg = {i: 0 for i in range(ncomp)}
                    for (x, y) in pairs:
                        indeg[y] += 1
                    st = [i for i in indeg if indeg[i] == 0]
                    seen = 0
                    while st:
                        x = st.pop()
                        seen += 1
                        for (p_, q_) in pairs:
                            if p_ == x:
                                indeg[q_] -= 1
                                if indeg[q_] == 0:
                                    st.append(q_)
                    if seen != ncomp:
                        return bad(k, "condensation-make-acyclic-result-has-a-cycle")
        elif name == "bipartite" and not v["directed"]:
            comp = reach(v, a[0])
            col = {a[0]: 0}
            st, ok = [a[0]], True
            while st and ok:
                x = st.pop()
                for y in succ(v, x):
                    if y not in col:
                        col[y] = 1 - col[x]
                        st.append(y)
                    elif col[y] == col[x]:
                        ok = False
            if first != "bool %d" % int(ok):
                return bad(k, "is-bipartite-undirected-wrong", int(ok))
    return None


def plant(stream, header, ops, obs):
    groups = pipeline.split_ops(obs)
    for k, (o, g) in enumerate(zip(ops, groups)):
        if o.startswith("has_path") and g and g[0].startswith("bool"):
            new = []
            for j, gg in enumerate(groups):
                new += ([("bool 0" if g[0] == "bool 1" else "bool 1")] if j == k else gg) + [";"]
            return new
    return None
