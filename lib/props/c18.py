"""C18 — graph6 and Dot: plugin for the check pipeline."""
from lib import pipeline

LEVEL = "proof"
RELEASE_TOO = True
MODEL_FILES = ["Spec/Graph6Spec.v", "Model/Graph6M.v", "Model/DotM.v"]
THEOREMS = []
EXTRA_PROPS = ["C18b"]
STREAMS = [("C18g6", 500, 15000), ("C18dot", 2500, 100000)]
SHARD = 3000
RULE = ("graph6: simple undirected graphs with 0, 1, 2..15, 60..70, 62, 63, 64 nodes at five densities, held in Graph, "
        "StableGraph with vacant node indices below node_bound, GraphMap (shuffled insertion order), MatrixGraph and Csr; the "
        "adjacency is read off independently (edge_references + node positions), graph6_string() is compared byte for byte with "
        "the model and with an independent python encoder, from_graph6_string of that string is compared with the model's "
        "decoder and with the original adjacency. Dot: Graph and StableGraph (with a vacancy) of 0..4 nodes, both edge types, all "
        "32 Config subsets x 5 RankDir values, Display / Debug / alternate Debug, weights drawn from the alphabet "
        "{quote, backslash, newline, a, braces, semicolon, ->, space, ], backslash-quote, l}; the text is compared character by "
        "character with the model and parsed by an independent DOT scanner. distinct = sha1 of the case; non-trivial = graph6 "
        "with at least one edge / Dot with at least one label containing a quote, backslash or newline")
ASSUMPTIONS = [
    "core::fmt (Display/Debug of the weights) is trusted: the model starts from the formatted weight strings",
    "the adjacency handed to the graph6 model is read through edge_references and node_identifiers, not through GetAdjacencyMatrix",
]
SCOPE = "see Props/C18.v"


def nums(l):
    return [int(x) for x in l.split()[1:]]


def nontrivial(stream, header, ops, obs):
    if stream == "C18g6":
        return any(o.startswith("g6 ") and "1" in o.split()[2:] for o in ops)
    return any(o.split()[0] in ("dn", "de") and any(int(c) in (34, 92, 10) for c in o.split()[2:]) for o in ops)


def compare(stream, header, ops, impl, model):
    return pipeline.generic_compare(impl, model)


def py_graph6(n, bits):
    """independent encoder, written from the format description"""
    def R(x):
        x = list(x) + [0] * ((6 - len(x) % 6) % 6)
        return [63 + int("".join(map(str, x[i:i + 6])), 2) for i in range(0, len(x), 6)]
    if n <= 62:
        head = [n + 63]
    else:
        head = [126] + R([int(c) for c in format(n, "018b")])
    return head + R(bits)


def scan_dot(text, directed, content_only):
    """returns (node ids, edges) or raises ValueError; a minimal scanner for the emitted DOT subset"""
    i = 0
    n = len(text)

    def skip_ws():
        nonlocal i
        while i < n and text[i] in " \n":
            i += 1

    def word():
        nonlocal i
        j = i
        while i < n and (text[i].isalnum() or text[i] in "_"):
            i += 1
        if j == i:
            raise ValueError("identifier expected at %d" % i)
        return text[j:i]

    def quoted():
        nonlocal i
        if text[i] != '"':
            raise ValueError("quote expected at %d" % i)
        i += 1
        out = []
        while True:
            if i >= n:
                raise ValueError("unterminated string")
            c = text[i]
            if c == "\\":
                if i + 1 >= n:
                    raise ValueError("dangling backslash")
                out.append(text[i:i + 2])
                i += 2
            elif c == '"':
                i += 1
                return "".join(out)
            else:
                out.append(c)
                i += 1

    def attrs():
        nonlocal i
        skip_ws()
        if text[i] != "[":
            raise ValueError("[ expected at %d" % i)
        i += 1
        skip_ws()
        while text[i] != "]":
            word()
            skip_ws()
            if text[i] != "=":
                raise ValueError("= expected")
            i += 1
            skip_ws()
            quoted()
            skip_ws()
        i += 1

    nodes, edges = [], []
    skip_ws()
    if not content_only:
        w = word()
        if w != ("digraph" if directed else "graph"):
            raise ValueError("wrong graph keyword %s" % w)
        skip_ws()
        if text[i] != "{":
            raise ValueError("{ expected")
        i += 1
    while True:
        skip_ws()
        if i >= n:
            if not content_only:
                raise ValueError("missing closing brace")
            break
        if text[i] == "}":
            if content_only:
                raise ValueError("stray }")
            i += 1
            skip_ws()
            if i != n:
                raise ValueError("text after closing brace")
            break
        a = word()
        skip_ws()
        if a == "rankdir":
            if text[i] != "=":
                raise ValueError("= expected after rankdir")
            i += 1
            if quoted() not in ("TB", "BT", "LR", "RL"):
                raise ValueError("bad rankdir")
            continue
        if text[i] == "[":
            attrs()
            nodes.append(int(a))
        else:
            conn = text[i:i + 2]
            if conn != ("->" if directed else "--"):
                raise ValueError("wrong connector %r" % conn)
            i += 2
            skip_ws()
            b = word()
            attrs()
            edges.append((int(a), int(b)))
    return nodes, edges


def oracle(stream, header, ops, obs):
    groups = pipeline.split_ops(obs)
    if len(groups) != len(ops):
        return {"class": "missing-observations", "got": len(groups), "want": len(ops)}

    def bad(k, cls, want=None):
        return {"class": cls, "op_index": k, "op": ops[k][:80], "got": [x[:120] for x in groups[k][:2]], "want": want}

    if stream == "C18g6":
        last = None
        for k, (o, g) in enumerate(zip(ops, groups)):
            t = o.split()
            a = [int(x) for x in t[1:]]
            first = g[0] if g else ""
            if t[0] == "g6":
                want = py_graph6(a[0], a[1:])
                if first != ("bytes " + " ".join(map(str, want))).strip():
                    return bad(k, "graph6-string-is-not-the-graph6-encoding", want[:12])
                last = a
            elif t[0] == "g6d" and last is not None:
                n = last[0]
                pairs, idx = [], 1
                for col in range(1, n):
                    for lin in range(col):
                        if last[idx]:
                            pairs += [lin, col]
                        idx += 1
                if first != ("dec " + " ".join(map(str, [n] + pairs))).strip():
                    return bad(k, "graph6-decode-of-encode-is-not-the-same-adjacency")
        return None
    h = [int(x) for x in header.split()[2:]]
    directed, bits = h[0] == 1, h[2]
    nodes = [int(o.split()[1]) for o in ops if o.startswith("dn ")]
    edges = [(int(o.split()[1]), int(o.split()[2])) for o in ops if o.startswith("de ")]
    for k, (o, g) in enumerate(zip(ops, groups)):
        if o.startswith("render"):
            text = "".join(chr(c) for c in nums(g[0])) if g and g[0].startswith("text") else None
            if text is None:
                return bad(k, "dot-output-missing")
            try:
                ns, es = scan_dot(text, directed, bool(bits & 16))
            except (ValueError, IndexError) as e:
                return bad(k, "dot-output-is-not-well-formed", str(e))
            if ns != nodes:
                return bad(k, "dot-node-statements-are-not-the-node-indices", nodes)
            if es != edges:
                return bad(k, "dot-edge-statements-are-not-the-edges", edges)
    return None


def plant(stream, header, ops, obs):
    groups = pipeline.split_ops(obs)
    for k, (o, g) in enumerate(zip(ops, groups)):
        if stream == "C18g6" and o.startswith("g6 ") and g and g[0].startswith("bytes") and len(g[0].split()) > 2:
            x = g[0].split()
            x[-1] = str(int(x[-1]) ^ 1)
            new = []
            for j, gg in enumerate(groups):
                new += ([" ".join(x)] if j == k else gg) + [";"]
            return new
        if stream == "C18dot" and o.startswith("render") and g and len(g[0].split()) > 12:
            x = g[0].split()
            # drop the last closing bracket
            idx = max(i for i, c in enumerate(x) if c == "93")
            del x[idx]
            new = []
            for j, gg in enumerate(groups):
                new += ([" ".join(x)] if j == k else gg) + [";"]
            return new
    return None
