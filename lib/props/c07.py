"""C07 — generic algorithms depend only on the abstract graph: plugin for the check pipeline.
Stream C07 holds, per case, every encoding of one abstract graph with the same panel of queries; the oracle maps every
answer back to abstract node ids and demands equal answers where the answer is unique, equal validity/optimality where it
is not, and no panic on one encoding when another succeeds.  The per-algorithm streams of C08..C12, C15, C16 are run as
well (each on all encodings, with their own model comparison and oracle)."""
import importlib
from lib import pipeline

LEVEL = "proof"
MODEL_FILES = ["Model/View.v", "Model/AlgoIO.v", "Model/Traversal.v", "Model/AlgoBasic.v", "Model/ShortestM.v", "Model/MstM.v",
               "Model/MatchM.v", "Model/CutM.v", "Model/MiscM.v"]
THEOREMS = []
EXTRA_PROPS = ["C07b"]
STREAMS = [("C07", 600, 20000), ("C08", 500, 20000), ("C09", 500, 20000), ("C10", 400, 20000), ("C11", 400, 20000),
           ("C12", 400, 20000), ("C15", 400, 20000), ("C16", 400, 20000), ("C20", 600, 20000)]
SHARD = 2000
RELEASE_TOO = True
RULE = ("stream C07: one abstract multigraph of 1..8 nodes per case (self-loops, parallel edges, 0..9 costs, both edge types), "
        "built as Graph<u32>, Graph<u8>, StableGraph with node and edge vacancies, and - when simple - GraphMap (shuffled insertion), "
        "Csr, MatrixGraph with removed ids, and adj::List when directed; every builder shuffles the insertion order, so node indices "
        "differ between encodings; 16..17 queries with the same abstract arguments on each encoding: dfs, bfs, has_path_connecting, "
        "is_cyclic_directed, is_cyclic_undirected, connected_components, tarjan_scc, toposort, kosaraju_scc, dijkstra, bellman_ford "
        "(f64), spfa, min_spanning_tree, greedy_matching, maximum_matching, dominators::simple_fast or is_bipartite_undirected + "
        "articulation_points; each answer is compared with the Coq model run on that encoding's dumped view and then across "
        "encodings under the node correspondence. The other streams are the per-algorithm streams of C08..C12, C15, C16, C20 with their "
        "own oracles (all encodings incl. vacancies). debug and release. distinct = sha1 of the case; non-trivial = at least four "
        "encodings and four edges")
ASSUMPTIONS = [
    "the per-encoding models run on the dumped view of that encoding (C06 is the property that the dump is the graph)",
    "answers that legitimately depend on iteration order (visit orders, which of several optimal solutions) are compared by their order-free content",
]
SCOPE = "see Props/C07.v"

SUB = {s: importlib.import_module("lib.props." + s.lower()) for s in ("C08", "C09", "C10", "C11", "C12", "C15", "C16", "C20")}
INF = 2000000000
I32MAX = 2147483647


def nums(l):
    return [int(x) for x in l.split()[1:]]


def segments(ops, groups):
    """[(enc, nmap idx->abs, [(k, name, args, obs group)])]"""
    segs = []
    cur = None
    for k, (o, g) in enumerate(zip(ops, groups)):
        t = o.split()
        if t[0] == "reset":
            h = [int(x) for x in t[1:]]
            cur = {"enc": h[6] if len(h) > 6 else -1, "directed": h[0] == 1, "nmap": {}, "qs": [], "bound": h[1]}
            segs.append(cur)
        elif cur is None:
            continue
        elif t[0] == "nmap":
            a = [int(x) for x in t[1:]]
            cur["nmap"] = {a[i]: a[i + 1] for i in range(0, len(a) - 1, 2)}
        elif t[0] in ("node", "out", "in", "erefs", "neighbors_edges_mismatch"):
            continue
        else:
            cur["qs"].append((k, t[0], [int(x) for x in t[1:]], g))
    return segs


def canon(name, g, seg):
    """order-free, index-free content of an answer; None = not comparable"""
    m = seg["nmap"]
    first = g[0] if g else ""
    if first in ("unsupported", ""):
        return None
    if first == "panic":
        return "PANIC"
    if name in ("dfs", "bfs"):
        return ("visited", tuple(sorted(m.get(x, -1) for x in nums(first))))
    if name in ("has_path", "is_cyclic_directed", "is_cyclic_undirected", "bipartite", "connected_components"):
        return first
    if name in ("tarjan", "kosaraju"):
        k = nums(first)[0]
        return ("partition", tuple(sorted(tuple(sorted(m.get(x, -1) for x in nums(c))) for c in g[1:1 + k])))
    if name == "toposort":
        return "cycle" if first.startswith("cycle") else "order"
    if name == "dijkstra":
        a = nums(first)
        return ("scores", tuple(sorted((m.get(a[i], -1), a[i + 1]) for i in range(0, len(a) - 1, 2))))
    if name in ("bellman_ford", "spfa"):
        if first == "err":
            return "err"
        d = nums(first)
        inf = INF if name == "bellman_ford" else I32MAX
        return ("dist", tuple(sorted((m[i], d[i]) for i in m if i < len(d) and d[i] != inf)))
    if name == "kruskal":
        if len(g) < 2:
            return first
        e = nums(g[1])
        return ("weights", tuple(sorted(e[2::3])))
    if name == "maximum_matching":
        return None if seg["directed"] else ("size", nums(first)[0])
    if name == "greedy_matching":
        return None
    if name == "simple_fast":
        a = nums(first)
        return ("idom", tuple(sorted((m.get(a[i], -1), m.get(a[i + 1], -1)) for i in range(0, len(a) - 1, 2))))
    if name == "articulation_points":
        return ("cut", tuple(sorted(m.get(x, -1) for x in nums(first))))
    return None


def compare(stream, header, ops, impl, model):
    if stream != "C07":
        return SUB[stream].compare(stream, header, ops, impl, model)
    a = pipeline.split_ops(impl)
    b = pipeline.split_ops(model)
    c16 = SUB["C16"].canon_group
    for k in range(max(len(a), len(b))):
        x = a[k] if k < len(a) else None
        y = b[k] if k < len(b) else None
        if x == ["unsupported"]:
            continue
        if x is not None and y is not None and ops[k].startswith("kruskal"):
            x, y = SUB["C12"].canon([x])[0], SUB["C12"].canon([y])[0]
        elif x is not None and y is not None:
            x, y = c16(x), c16(y)
        if x != y:
            return k
    return None


def nontrivial(stream, header, ops, obs):
    if stream != "C07":
        return SUB[stream].nontrivial(stream, header, ops, obs)
    h = [int(x) for x in header.split()[2:]]
    return sum(1 for o in ops if o.startswith("reset")) >= 4 and h[2] >= 4


def oracle(stream, header, ops, obs):
    if stream != "C07":
        f = SUB[stream].oracle(stream, header, ops, obs)
        if f and isinstance(f, dict) and "class" in f:
            f = dict(f)
            f["class"] = f["class"]
        return f
    groups = pipeline.split_ops(obs)
    if len(groups) != len(ops):
        return {"class": "missing-observations", "got": len(groups), "want": len(ops)}
    segs = segments(ops, groups)
    if not segs:
        return None
    ref = {}
    for seg in segs:
        for (k, name, a, g) in seg["qs"]:
            c = canon(name, g, seg)
            if c is None:
                continue
            key = name
            if key not in ref:
                ref[key] = (c, seg["enc"], k)
                continue
            (c0, enc0, k0) = ref[key]
            if c != c0:
                cls = ("algorithm-panics-on-one-encoding-but-not-on-another" if "PANIC" in (c, c0)
                       else name.replace("_", "-") + "-answer-differs-between-encodings-of-the-same-graph")
                return {"class": cls, "op_index": k, "op": ops[k][:60], "encodings": [enc0, seg["enc"]],
                        "got": [str(c0)[:160], str(c)[:160]], "first_at": k0}
    return None


def plant(stream, header, ops, obs):
    if stream != "C07":
        return SUB[stream].plant(stream, header, ops, obs) if hasattr(SUB[stream], "plant") else None
    groups = pipeline.split_ops(obs)
    seen_reset = 0
    for k, (o, g) in enumerate(zip(ops, groups)):
        if o.startswith("reset"):
            seen_reset += 1
        if seen_reset >= 2 and o.startswith("has_path") and g and g[0].startswith("bool"):
            new = []
            for q, gg in enumerate(groups):
                new += (["bool %d" % (1 - int(g[0].split()[1]))] if q == k else gg) + [";"]
            return new
    return None


def shrink(stream, header, ops, obs, failure):
    return ops
