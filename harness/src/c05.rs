//! C05: Csr and adj::List histories.
use crate::rng::Rng;
use crate::{line, GOp, Out};
use petgraph::adj::List;
use petgraph::csr::Csr;
use petgraph::data::{Build, DataMap, DataMapMut};
use petgraph::graph::IndexType;
use petgraph::visit::{EdgeRef, IntoEdgeReferences, IntoEdges, IntoNeighbors, IntoNodeIdentifiers, NodeCount, EdgeCount};
use petgraph::{Directed, EdgeType, Undirected};
use std::panic::{catch_unwind, AssertUnwindSafe};

fn ix<Ix: IndexType>(x: i64) -> Ix { Ix::new(x as usize) }

fn csr_battery<Ty: EdgeType, Ix: IndexType>(g: &Csr<u32, u32, Ty, Ix>) -> Vec<String> {
    let mut v = Vec::new();
    let n = g.node_count();
    v.push(line("counts", &[n as i64, g.edge_count() as i64]));
    let nw: Vec<i64> = (0..n).map(|i| g[ix::<Ix>(i as i64)] as i64).collect();
    v.push(line("nw", &nw));
    let mut er = Vec::new();
    for e in g.edge_references() {
        er.extend_from_slice(&[e.id() as i64, e.source().index() as i64, e.target().index() as i64, *e.weight() as i64]);
    }
    v.push(line("erefs", &er));
    for a in 0..n {
        let ai = ix::<Ix>(a as i64);
        let ns: Vec<i64> = g.neighbors_slice(ai).iter().map(|x| x.index() as i64).collect();
        let ws: Vec<i64> = g.edges_slice(ai).iter().map(|x| *x as i64).collect();
        // the iterator views must agree with the slices
        let ns2: Vec<i64> = g.neighbors(ai).map(|x| x.index() as i64).collect();
        let es2: Vec<(i64, i64, i64)> = g.edges(ai).map(|e| (e.source().index() as i64, e.target().index() as i64, *e.weight() as i64)).collect();
        let es_expect: Vec<(i64, i64, i64)> = ns.iter().zip(ws.iter()).map(|(t, w)| (a as i64, *t, *w)).collect();
        let mut r = vec![a as i64]; r.extend(ns.iter());
        v.push(line("row", &r));
        let mut w = vec![a as i64]; w.extend(ws.iter());
        v.push(line("wrow", &w));
        if ns2 != ns || es2 != es_expect || g.out_degree(ai) != ns.len() { v.push(format!("iterator-mismatch {}", a)); }
    }
    let ids: Vec<usize> = g.node_identifiers().map(|x| x.index()).collect();
    if ids != (0..n).collect::<Vec<_>>() { v.push("node-identifiers-mismatch".into()); }
    v
}

fn run_csr<Ty: EdgeType, Ix: IndexType>(n0: usize, ops: &[GOp], out: &mut Out) {
    let mut g: Csr<u32, u32, Ty, Ix> = if n0 == 0 { Csr::new() } else { Csr::with_nodes(n0) };
    for o in ops {
        let a = &o.1;
        let r = catch_unwind(AssertUnwindSafe(|| -> Vec<String> {
            let mut v = Vec::new();
            match o.0.as_str() {
                "add_node" => { let i = g.add_node(a[0] as u32); v.push(line("idx", &[i.index() as i64])); v.extend(csr_battery(&g)); }
                "try_add_edge" => {
                    match g.try_add_edge(ix::<Ix>(a[0]), ix::<Ix>(a[1]), a[2] as u32) {
                        Ok(b) => v.push(line("bool", &[b as i64])),
                        Err(petgraph::csr::CsrError::IndicesOutBounds(x, y)) => v.push(line("err", &[x as i64, y as i64])),
                    }
                    v.extend(csr_battery(&g));
                }
                "add_edge" => {
                    let r = catch_unwind(AssertUnwindSafe(|| g.add_edge(ix::<Ix>(a[0]), ix::<Ix>(a[1]), a[2] as u32)));
                    match r { Ok(b) => v.push(line("bool", &[b as i64])), Err(_) => v.push("panic".into()) }
                    v.extend(csr_battery(&g));
                }
                "clear_edges" => { g.clear_edges(); v.push("unit".into()); v.extend(csr_battery(&g)); }
                "contains_edge" => v.push(line("bool", &[g.contains_edge(ix::<Ix>(a[0]), ix::<Ix>(a[1])) as i64])),
                "out_degree" => v.push(line("nat", &[g.out_degree(ix::<Ix>(a[0])) as i64])),
                "neighbors_slice" => { let mut r = vec![a[0]]; r.extend(g.neighbors_slice(ix::<Ix>(a[0])).iter().map(|x| x.index() as i64)); v.push(line("row", &r)); }
                "edges_slice" => { let mut r = vec![a[0]]; r.extend(g.edges_slice(ix::<Ix>(a[0])).iter().map(|x| *x as i64)); v.push(line("wrow", &r)); }
                _ => panic!("bad op"),
            }
            v
        }));
        match r { Ok(v) => out.obs_lines(&v), Err(_) => out.obs_lines(&["panic".to_string()]) }
    }
}

fn run_csr_fse<Ix: IndexType>(n0: usize, ops: &[GOp], out: &mut Out) {
    // Directed only: from_sorted_edges may replace the graph
    let mut g: Csr<u32, u32, Directed, Ix> = if n0 == 0 { Csr::new() } else { Csr::with_nodes(n0) };
    for o in ops {
        let a = &o.1;
        if o.0 == "from_sorted_edges" {
            let es: Vec<(Ix, Ix, u32)> = a.chunks(3).filter(|c| c.len() == 3).map(|c| (ix::<Ix>(c[0]), ix::<Ix>(c[1]), c[2] as u32)).collect();
            let r = catch_unwind(AssertUnwindSafe(|| Csr::<u32, u32, Directed, Ix>::from_sorted_edges(&es)));
            match r {
                Ok(Ok(g2)) => { g = g2; let mut v = vec!["unit".to_string()]; v.extend(csr_battery(&g)); out.obs_lines(&v); }
                Ok(Err(_)) => out.obs_lines(&["notsorted".to_string()]),
                Err(_) => out.obs_lines(&["panic".to_string()]),
            }
        } else {
            // reuse the generic runner on a single op by moving g in and out
            let r = catch_unwind(AssertUnwindSafe(|| -> Vec<String> {
                let mut v = Vec::new();
                match o.0.as_str() {
                    "try_add_edge" => {
                        match g.try_add_edge(ix::<Ix>(a[0]), ix::<Ix>(a[1]), a[2] as u32) {
                            Ok(b) => v.push(line("bool", &[b as i64])),
                            Err(petgraph::csr::CsrError::IndicesOutBounds(x, y)) => v.push(line("err", &[x as i64, y as i64])),
                        }
                        v.extend(csr_battery(&g));
                    }
                    "add_node" => { let i = g.add_node(a[0] as u32); v.push(line("idx", &[i.index() as i64])); v.extend(csr_battery(&g)); }
                    "contains_edge" => v.push(line("bool", &[g.contains_edge(ix::<Ix>(a[0]), ix::<Ix>(a[1])) as i64])),
                    _ => panic!("bad op in fse case"),
                }
                v
            }));
            match r { Ok(v) => out.obs_lines(&v), Err(_) => out.obs_lines(&["panic".to_string()]) }
        }
    }
}

/// header: [directed, n0, ixcode] ixcode 0=u8 1=u16 2=u32 3=usize
pub fn run_csr_case(id: usize, h: &[i64], ops: &[GOp], out: &mut Out) {
    out.case(id, h);
    for o in ops { out.op(o); }
    let directed = h[0] == 1;
    let n0 = h[1] as usize;
    let has_fse = ops.iter().any(|o| o.0 == "from_sorted_edges");
    match (directed, h[2], has_fse) {
        (true, _, true) => match h[2] { 0 => run_csr_fse::<u8>(n0, ops, out), 1 => run_csr_fse::<u16>(n0, ops, out), 2 => run_csr_fse::<u32>(n0, ops, out), _ => run_csr_fse::<usize>(n0, ops, out) },
        (true, 0, _) => run_csr::<Directed, u8>(n0, ops, out),
        (true, 1, _) => run_csr::<Directed, u16>(n0, ops, out),
        (true, 2, _) => run_csr::<Directed, u32>(n0, ops, out),
        (true, _, _) => run_csr::<Directed, usize>(n0, ops, out),
        (false, 0, _) => run_csr::<Undirected, u8>(n0, ops, out),
        (false, 1, _) => run_csr::<Undirected, u16>(n0, ops, out),
        (false, 2, _) => run_csr::<Undirected, u32>(n0, ops, out),
        (false, _, _) => run_csr::<Undirected, usize>(n0, ops, out),
    }
    out.end_case();
    out.stat(if directed { "ty_directed" } else { "ty_undirected" });
    out.stat(&format!("ix_{}", h[2]));
}

pub fn gen_csr(seed: u64, n: usize, out: &mut Out) {
    let mut r = Rng::new(seed ^ 0xC05);
    for id in 0..n {
        let directed = r.chance(50);
        let ixc = r.below(4) as i64;
        let mut ops: Vec<GOp> = Vec::new();
        let kind = id % 6;
        let mut maxrow = 0usize;
        if kind == 0 {
            // wide rows: cross the 32-neighbour cutoff around one focus node
            let n0 = 36 + r.below(12);
            let focus = r.below(n0) as i64;
            let cnt = 30 + r.below(n0 - 30 + 1);
            let mut targets: Vec<i64> = (0..n0 as i64).collect();
            // order: ascending, descending or shuffled
            match r.below(3) {
                0 => {}
                1 => targets.reverse(),
                _ => { for i in (1..targets.len()).rev() { let j = r.below(i + 1); targets.swap(i, j); } }
            }
            targets.truncate(cnt);
            for (k, t) in targets.iter().enumerate() {
                let w = r.below(50) as i64;
                let (a, b) = if !directed && r.chance(30) { (*t, focus) } else { (focus, *t) };
                ops.push((if r.chance(50) { "try_add_edge" } else { "add_edge" }.to_string(), vec![a, b, w]));
                if k >= 28 || r.chance(15) {
                    for _ in 0..2 { ops.push(("contains_edge".into(), vec![focus, r.below(n0) as i64])); }
                    if r.chance(30) { ops.push(("try_add_edge".into(), vec![focus, targets[r.below(k + 1)], 99])); }
                }
            }
            ops.push(("out_degree".into(), vec![focus]));
            if r.chance(30) { ops.push(("clear_edges".into(), vec![])); ops.push(("try_add_edge".into(), vec![focus, 1, 5])); }
            maxrow = cnt;
            out.case(id, &[directed as i64, n0 as i64, ixc]);
            for o in &ops { out.op(o); }
            dispatch_csr(directed, ixc, n0, &ops, out);
        } else if kind == 1 && directed {
            // from_sorted_edges
            let nn = 1 + r.below(6);
            let mut es: Vec<(i64, i64)> = Vec::new();
            // half of the lists are sparse, with targets beyond the largest source: the node count is the largest id anywhere
            // in the list, not the one on the last edge
            let (dens, extra) = if r.chance(50) { (35, 0) } else { (8 + r.below(10), r.below(4)) };
            for a in 0..nn { for b in 0..nn + extra { if r.chance(dens as u64) { es.push((a as i64, b as i64)); } } }
            let mutated = r.chance(40) && es.len() >= 2;
            if mutated {
                match r.below(3) {
                    0 => { let i = r.below(es.len() - 1); es.swap(i, i + 1); }
                    1 => { let i = r.below(es.len()); let e = es[i]; es.insert(i, e); }
                    _ => { let i = r.below(es.len()); let j = r.below(es.len()); es.swap(i, j); }
                }
            }
            let mut flat = Vec::new();
            for (a, b) in &es { flat.extend_from_slice(&[*a, *b, r.below(20) as i64]); }
            ops.push(("from_sorted_edges".into(), flat));
            for _ in 0..r.below(5) {
                match r.below(3) {
                    0 => ops.push(("try_add_edge".into(), vec![r.below(nn + 1) as i64, r.below(nn + 1) as i64, r.below(20) as i64])),
                    1 => ops.push(("add_node".into(), vec![r.below(9) as i64])),
                    _ => ops.push(("contains_edge".into(), vec![r.below(nn) as i64, r.below(nn) as i64])),
                }
            }
            out.stat(if mutated { "fse_mutated" } else { "fse_sorted" });
            out.case(id, &[1, 0, ixc]);
            for o in &ops { out.op(o); }
            match ixc { 0 => run_csr_fse::<u8>(0, &ops, out), 1 => run_csr_fse::<u16>(0, &ops, out), 2 => run_csr_fse::<u32>(0, &ops, out), _ => run_csr_fse::<usize>(0, &ops, out) }
        } else {
            let n0 = r.below(5);
            let mut nn = n0;
            let len = 5 + r.below(35);
            for _ in 0..len {
                let node = |r: &mut Rng, nn: usize| -> i64 {
                    if nn > 0 && r.chance(90) { r.below(nn) as i64 } else { (nn + r.below(3)) as i64 }
                };
                match r.weighted(&[if nn < 9 { 12 } else { 0 }, 30, 20, 2, 14, 6, 5, 5]) {
                    0 => { nn += 1; ops.push(("add_node".into(), vec![r.below(100) as i64])); }
                    1 => ops.push(("try_add_edge".into(), vec![node(&mut r, nn), node(&mut r, nn), r.below(100) as i64])),
                    2 => ops.push(("add_edge".into(), vec![node(&mut r, nn), node(&mut r, nn), r.below(100) as i64])),
                    3 => ops.push(("clear_edges".into(), vec![])),
                    4 => ops.push(("contains_edge".into(), vec![node(&mut r, nn), node(&mut r, nn)])),
                    5 => ops.push(("out_degree".into(), vec![node(&mut r, nn)])),
                    6 => ops.push(("neighbors_slice".into(), vec![node(&mut r, nn)])),
                    _ => ops.push(("edges_slice".into(), vec![node(&mut r, nn)])),
                }
            }
            out.case(id, &[directed as i64, n0 as i64, ixc]);
            for o in &ops { out.op(o); }
            dispatch_csr(directed, ixc, n0, &ops, out);
        }
        out.end_case();
        out.stat(if directed { "ty_directed" } else { "ty_undirected" });
        out.stat(&format!("ix_{}", ixc));
        out.stat(&format!("maxrow_{}", if maxrow >= 32 { "ge32" } else { "lt32" }));
    }
}

fn dispatch_csr(directed: bool, ixc: i64, n0: usize, ops: &[GOp], out: &mut Out) {
    match (directed, ixc) {
        (true, 0) => run_csr::<Directed, u8>(n0, ops, out),
        (true, 1) => run_csr::<Directed, u16>(n0, ops, out),
        (true, 2) => run_csr::<Directed, u32>(n0, ops, out),
        (true, _) => run_csr::<Directed, usize>(n0, ops, out),
        (false, 0) => run_csr::<Undirected, u8>(n0, ops, out),
        (false, 1) => run_csr::<Undirected, u16>(n0, ops, out),
        (false, 2) => run_csr::<Undirected, u32>(n0, ops, out),
        (false, _) => run_csr::<Undirected, usize>(n0, ops, out),
    }
}

// ------------------------------------------------------------------ adj::List

pub fn eidx_nums<Ix: IndexType>(e: &petgraph::adj::EdgeIndex<Ix>) -> (i64, i64) {
    // EdgeIndex has no public accessors; its Debug output is `EdgeIndex { from: a, successor_index: i }`
    let s = format!("{:?}", e);
    let nums: Vec<i64> = s.split(|c: char| !c.is_ascii_digit()).filter(|t| !t.is_empty()).map(|t| t.parse().unwrap()).collect();
    (nums[0], nums[1])
}

fn list_battery<Ix: IndexType>(g: &List<u32, Ix>) -> Vec<String> {
    let mut v = Vec::new();
    v.push(line("counts", &[g.node_count() as i64, g.edge_count() as i64]));
    let mut er = Vec::new();
    for e in g.edge_references() {
        let (a, i) = eidx_nums(&e.id());
        debug_assert_eq!(a, e.source().index() as i64);
        er.extend_from_slice(&[a, i, e.target().index() as i64, *e.weight() as i64]);
    }
    v.push(line("erefs", &er));
    let mut ei = Vec::new();
    for e in g.edge_indices() { let (a, i) = eidx_nums(&e); ei.push(a); ei.push(i); }
    v.push(line("eidxs", &ei));
    let ids: Vec<usize> = g.node_indices().map(|x| x.index()).collect();
    if ids != (0..g.node_count()).collect::<Vec<_>>() { v.push("node-indices-mismatch".into()); }
    v
}

fn run_list<Ix: IndexType>(ops: &[GOp], out: &mut Out) {
    let mut g: List<u32, Ix> = List::new();
    let mut known: Vec<petgraph::adj::EdgeIndex<Ix>> = Vec::new();
    for o in ops {
        let a = &o.1;
        let lookup = |known: &Vec<petgraph::adj::EdgeIndex<Ix>>, x: i64, i: i64| known.iter().find(|e| eidx_nums(*e) == (x, i)).cloned();
        let r = catch_unwind(AssertUnwindSafe(|| -> Vec<String> {
            let mut v = Vec::new();
            match o.0.as_str() {
                "add_node" => { let i = g.add_node(); v.push(line("nat", &[i.index() as i64])); v.extend(list_battery(&g)); }
                "add_edge" => {
                    let r = catch_unwind(AssertUnwindSafe(|| g.add_edge(ix::<Ix>(a[0]), ix::<Ix>(a[1]), a[2] as u32)));
                    match r { Ok(e) => { let (x, i) = eidx_nums(&e); known.push(e); v.push(line("eidx", &[x, i])); } Err(_) => v.push("panic".into()) }
                    v.extend(list_battery(&g));
                }
                "update_edge" => {
                    let r = catch_unwind(AssertUnwindSafe(|| Build::update_edge(&mut g, ix::<Ix>(a[0]), ix::<Ix>(a[1]), a[2] as u32)));
                    match r { Ok(e) => { let (x, i) = eidx_nums(&e); known.push(e); v.push(line("eidx", &[x, i])); } Err(_) => v.push("panic".into()) }
                    v.extend(list_battery(&g));
                }
                "clear" => { g.clear(); v.push("unit".into()); v.extend(list_battery(&g)); }
                "contains_edge" => v.push(line("bool", &[g.contains_edge(ix::<Ix>(a[0]), ix::<Ix>(a[1])) as i64])),
                "find_edge" => match g.find_edge(ix::<Ix>(a[0]), ix::<Ix>(a[1])) { Some(e) => { let (x, i) = eidx_nums(&e); v.push(line("pair", &[x, i])) } None => v.push("none".into()) },
                "edge_endpoints" => match lookup(&known, a[0], a[1]).and_then(|e| g.edge_endpoints(e)) { Some((s, t)) => v.push(line("pair", &[s.index() as i64, t.index() as i64])), None => v.push("none".into()) },
                "edge_weight" => match lookup(&known, a[0], a[1]).and_then(|e| g.edge_weight(e).cloned()) { Some(w) => v.push(line("nat", &[w as i64])), None => v.push("none".into()) },
                "set_edge_weight" => {
                    let ok = match lookup(&known, a[0], a[1]) { Some(e) => match g.edge_weight_mut(e) { Some(w) => { *w = a[2] as u32; true } None => false }, None => false };
                    v.push(line("bool", &[ok as i64])); v.extend(list_battery(&g));
                }
                "edge_indices_from" => { let mut l = Vec::new(); for e in g.edge_indices_from(ix::<Ix>(a[0])) { let (x, i) = eidx_nums(&e); l.push(x); l.push(i); } v.push(line("eidxs", &l)); }
                "neighbors" => { let l: Vec<i64> = (&g).neighbors(ix::<Ix>(a[0])).map(|x| x.index() as i64).collect(); v.push(line("row", &l)); }
                "add_node_from_edges" => {
                    let es: Vec<(Ix, u32)> = a.chunks(2).filter(|c| c.len() == 2).map(|c| (ix::<Ix>(c[0]), c[1] as u32)).collect();
                    let i = g.add_node_from_edges(es.into_iter());
                    v.push(line("nat", &[i.index() as i64])); v.extend(list_battery(&g));
                }
                _ => panic!("bad op"),
            }
            v
        }));
        match r { Ok(v) => out.obs_lines(&v), Err(_) => out.obs_lines(&["panic".to_string()]) }
    }
}

/// header: [ixcode]
pub fn run_list_case(id: usize, h: &[i64], ops: &[GOp], out: &mut Out) {
    out.case(id, h);
    for o in ops { out.op(o); }
    match h[0] { 0 => run_list::<u8>(ops, out), 1 => run_list::<u16>(ops, out), 2 => run_list::<u32>(ops, out), _ => run_list::<usize>(ops, out) }
    out.end_case();
    out.stat(&format!("ix_{}", h[0]));
}

pub fn gen_list(seed: u64, n: usize, out: &mut Out) {
    let mut r = Rng::new(seed ^ 0xC05A);
    for id in 0..n {
        let ixc = r.below(4) as i64;
        let mut ops: Vec<GOp> = Vec::new();
        let mut nn = 0usize;
        let mut rows: Vec<usize> = Vec::new();    // row lengths, to draw plausible edge indices
        let len = 5 + r.below(40);
        for _ in 0..len {
            let node = |r: &mut Rng, nn: usize| -> i64 { if nn > 0 && r.chance(88) { r.below(nn) as i64 } else { (nn + r.below(3)) as i64 } };
            let eidx = |r: &mut Rng, rows: &Vec<usize>| -> (i64, i64) {
                if rows.is_empty() { return (0, 0); }
                let a = r.below(rows.len());
                (a as i64, r.below(rows[a] + 2) as i64)
            };
            match r.weighted(&[if nn < 8 { 14 } else { 1 }, 30, 12, 1, 10, 8, 6, 6, 5, 4, 4, 0]) {
                0 => { nn += 1; rows.push(0); ops.push(("add_node".into(), vec![])); }
                1 => {
                    let (a, b) = (node(&mut r, nn), node(&mut r, nn));
                    if (a as usize) < nn && (b as usize) < nn { rows[a as usize] += 1; }
                    ops.push(("add_edge".into(), vec![a, b, r.below(100) as i64]));
                }
                2 => {
                    // update_edge: source in range, target out of range 8% of the time
                    if nn == 0 { continue; }
                    let (a, b) = (r.below(nn) as i64, if r.chance(8) { (nn + r.below(2)) as i64 } else { r.below(nn) as i64 });
                    rows[a as usize] += 1; // upper bound
                    ops.push(("update_edge".into(), vec![a, b, r.below(100) as i64]));
                }
                3 => { nn = 0; rows.clear(); ops.push(("clear".into(), vec![])); }
                4 => ops.push(("contains_edge".into(), vec![node(&mut r, nn), node(&mut r, nn)])),
                5 => ops.push(("find_edge".into(), vec![node(&mut r, nn), node(&mut r, nn)])),
                6 => { let (a, i) = eidx(&mut r, &rows); ops.push(("edge_endpoints".into(), vec![a, i])); }
                7 => { let (a, i) = eidx(&mut r, &rows); ops.push(("edge_weight".into(), vec![a, i])); }
                8 => { let (a, i) = eidx(&mut r, &rows); ops.push(("set_edge_weight".into(), vec![a, i, r.below(100) as i64])); }
                9 => ops.push(("edge_indices_from".into(), vec![node(&mut r, nn)])),
                _ => ops.push(("neighbors".into(), vec![node(&mut r, nn)])),
            }
        }
        run_list_case(id, &[ixc], &ops, out);
    }
}
