//! C01: Graph histories.
use crate::rng::Rng;
use crate::{line, GOp, Out};
use petgraph::graph::{EdgeIndex, Graph, GraphError, IndexType, NodeIndex};
use petgraph::visit::EdgeRef;
use petgraph::{Directed, Direction, EdgeType, Undirected};
use std::panic::{catch_unwind, AssertUnwindSafe};

pub type Gr<Ty, Ix> = Graph<u32, u32, Ty, Ix>;
enum AnyG<Ix: IndexType> { D(Gr<Directed, Ix>), U(Gr<Undirected, Ix>) }

fn ni<Ix: IndexType>(x: i64) -> NodeIndex<Ix> { NodeIndex::new(x as usize) }
fn ei<Ix: IndexType>(x: i64) -> EdgeIndex<Ix> { EdgeIndex::new(x as usize) }
fn dir(k: i64) -> Direction { if k == 0 { Direction::Outgoing } else { Direction::Incoming } }

fn eref_flat<'a, Ix: IndexType>(it: impl Iterator<Item = petgraph::graph::EdgeReference<'a, u32, Ix>>) -> Vec<i64> {
    let mut v = Vec::new();
    for e in it { v.extend_from_slice(&[e.id().index() as i64, e.source().index() as i64, e.target().index() as i64, *e.weight() as i64]); }
    v
}
fn with(a: i64, mut v: Vec<i64>) -> Vec<i64> { v.insert(0, a); v }

pub fn battery<Ty: EdgeType, Ix: IndexType>(g: &Gr<Ty, Ix>) -> Vec<String> {
    let mut v = Vec::new();
    v.push(line("counts", &[g.node_count() as i64, g.edge_count() as i64]));
    v.push(line("nw", &g.node_weights().map(|w| *w as i64).collect::<Vec<_>>()));
    let mut el = Vec::new();
    for e in g.edge_indices() { let (s, t) = g.edge_endpoints(e).unwrap(); el.extend_from_slice(&[s.index() as i64, t.index() as i64, g[e] as i64]); }
    v.push(line("el", &el));
    v.push(line("exto", &g.externals(Direction::Outgoing).map(|x| x.index() as i64).collect::<Vec<_>>()));
    v.push(line("exti", &g.externals(Direction::Incoming).map(|x| x.index() as i64).collect::<Vec<_>>()));
    for a in 0..g.node_count() as i64 {
        v.push(line("nbo", &with(a, g.neighbors(ni(a)).take(4000).map(|x| x.index() as i64).collect())));
        v.push(line("nbi", &with(a, g.neighbors_directed(ni(a), Direction::Incoming).take(4000).map(|x| x.index() as i64).collect())));
        v.push(line("nbu", &with(a, g.neighbors_undirected(ni(a)).take(4000).map(|x| x.index() as i64).collect())));
        v.push(line("edo", &with(a, eref_flat(g.edges(ni(a)).take(4000)))));
        v.push(line("edi", &with(a, eref_flat(g.edges_directed(ni(a), Direction::Incoming).take(4000)))));
    }
    // whole-graph iteration must agree with the indexed accessors
    let er = eref_flat(g.edge_references());
    let mut want = Vec::new();
    for (i, c) in el.chunks(3).enumerate() { want.extend_from_slice(&[i as i64, c[0], c[1], c[2]]); }
    if er != want { v.push("edge-references-mismatch".into()); }
    if g.node_indices().map(|x| x.index()).collect::<Vec<_>>() != (0..g.node_count()).collect::<Vec<_>>() { v.push("node-indices-mismatch".into()); }
    if g.edge_weights().map(|w| *w as i64).collect::<Vec<_>>() != el.chunks(3).map(|c| c[2]).collect::<Vec<_>>() { v.push("edge-weights-mismatch".into()); }
    // double-ended iteration, size hints and indexing agree with the forward lists
    use petgraph::visit::{IntoEdgeReferences, IntoNodeReferences};
    if !crate::enc::rev_ok(g.node_indices()) || !crate::enc::rev_ok(g.edge_indices()) || !crate::enc::rev_ok(g.node_references())
        || !crate::enc::rev_ok(g.edge_references()) { v.push("back-iteration-mismatch".into()); }
    if g.node_indices().any(|i| Some(&g[i]) != g.node_weight(i)) || g.edge_indices().any(|e| Some(&g[e]) != g.edge_weight(e)) { v.push("index-operator-mismatch".into()); }
    if g.node_indices().len() != g.node_count() || g.edge_indices().len() != g.edge_count() { v.push("exact-size-mismatch".into()); }
    {   // the visit traits answer like the inherent methods; a visit map reset for this graph has room for every node
        use petgraph::visit::{EdgeCount, NodeCount, NodeIndexable, Visitable};
        let mut m = fixedbitset::FixedBitSet::default(); g.reset_map(&mut m);
        if NodeCount::node_count(g) != g.node_count() || EdgeCount::edge_count(g) != g.edge_count() || NodeIndexable::node_bound(g) != g.node_count()
            || m.len() < g.node_count() || g.visit_map().len() < g.node_count() { v.push("visit-trait-mismatch".into()); }
    }
    v
}

fn gerr(e: GraphError) -> String {
    match e { GraphError::NodeIxLimit => "limit".into(), GraphError::EdgeIxLimit => "elimit".into(),
              GraphError::NodeMissed(i) => line("missed", &[i as i64]), GraphError::NodeOutBounds => "oob".into() }
}
fn opt(o: Option<u32>) -> String { match o { Some(w) => line("some", &[w as i64]), None => "none".into() } }
fn optix(o: Option<usize>) -> String { match o { Some(w) => line("some", &[w as i64]), None => "none".into() } }

/// one operation on a graph of a fixed edge type; returns the first observation line
pub fn apply<Ty: EdgeType, Ix: IndexType>(g: &mut Gr<Ty, Ix>, o: &GOp) -> String {
    let a = &o.1;
    match o.0.as_str() {
        "add_node" => line("idx", &[g.add_node(a[0] as u32).index() as i64]),
        "try_add_node" => match g.try_add_node(a[0] as u32) { Ok(i) => line("idx", &[i.index() as i64]), Err(e) => gerr(e) },
        "add_edge" => {
            // the same insertion through the generic data::Build interface, on a clone: same index, same graph
            let twin = catch_unwind(AssertUnwindSafe(|| { let mut c = g.clone(); let r = petgraph::data::Build::add_edge(&mut c, ni(a[0]), ni(a[1]), a[2] as u32); (r.map(|e| e.index()), battery(&c)) }));
            let i = g.add_edge(ni(a[0]), ni(a[1]), a[2] as u32).index();
            match twin { Ok((r, b)) if r != Some(i) || b != battery(g) => line("idx-build-twin-mismatch", &[i as i64]), _ => line("idx", &[i as i64]) }
        }
        "try_add_edge" => match g.try_add_edge(ni(a[0]), ni(a[1]), a[2] as u32) { Ok(i) => line("idx", &[i.index() as i64]), Err(e) => gerr(e) },
        "update_edge" => line("idx", &[g.update_edge(ni(a[0]), ni(a[1]), a[2] as u32).index() as i64]),
        "try_update_edge" => match g.try_update_edge(ni(a[0]), ni(a[1]), a[2] as u32) { Ok(i) => line("idx", &[i.index() as i64]), Err(e) => gerr(e) },
        "remove_node" => opt(g.remove_node(ni(a[0]))),
        "remove_edge" => opt(g.remove_edge(ei(a[0]))),
        "reverse" => { g.reverse(); "unit".into() }
        "clear" => { g.clear(); "unit".into() }
        "clear_edges" => { g.clear_edges(); "unit".into() }
        "retain_nodes" => { let (m, r) = (a[0] as u32, a[1] as u32); g.retain_nodes(|gr, i| gr[i] % m != r); "unit".into() }
        "retain_edges" => { let (m, r) = (a[0] as u32, a[1] as u32); g.retain_edges(|gr, e| gr[e] % m != r); "unit".into() }
        "extend_with_edges" => { g.extend_with_edges(a.chunks(3).filter(|c| c.len() == 3).map(|c| (c[0] as u32, c[1] as u32, c[2] as u32)).map(|(s, t, w)| (NodeIndex::<Ix>::new(s as usize), NodeIndex::<Ix>::new(t as usize), w))); "unit".into() }
        "filter_map" => {
            let (m, r, m2, r2) = (a[0] as u32, a[1] as u32, a[2] as u32, a[3] as u32);
            let g2 = g.filter_map(|_, w| if *w % m != r { Some(*w + 1) } else { None }, |_, w| if *w % m2 != r2 { Some(*w + 1) } else { None });
            *g = g2; "unit".into()
        }
        "map" => { let g2 = g.map(|_, w| *w + 1, |_, w| *w + 1); *g = g2.clone(); "unit".into() }
        "set_node_weight" => line("bool", &[match g.node_weight_mut(ni(a[0])) { Some(w) => { *w = a[1] as u32; 1 } None => 0 }]),
        "set_edge_weight" => line("bool", &[match g.edge_weight_mut(ei(a[0])) { Some(w) => { *w = a[1] as u32; 1 } None => 0 }]),
        "node_weight" => opt(g.node_weight(ni(a[0])).cloned()),
        "edge_weight" => opt(g.edge_weight(ei(a[0])).cloned()),
        "edge_endpoints" => match g.edge_endpoints(ei(a[0])) { Some((s, t)) => line("pair", &[s.index() as i64, t.index() as i64]), None => "none".into() },
        "find_edge" => { let r = g.find_edge(ni(a[0]), ni(a[1])); assert_eq!(r.is_some(), g.contains_edge(ni(a[0]), ni(a[1]))); optix(r.map(|e| e.index())) }
        "find_edge_undirected" => match g.find_edge_undirected(ni(a[0]), ni(a[1])) { Some((e, d)) => line("pair", &[e.index() as i64, d.index() as i64]), None => "none".into() },
        "edges_connecting" => line("econn", &eref_flat(g.edges_connecting(ni(a[0]), ni(a[1])))),
        "first_edge" => optix(g.first_edge(ni(a[0]), dir(a[1])).map(|e| e.index())),
        "next_edge" => optix(g.next_edge(ei(a[0]), dir(a[1])).map(|e| e.index())),
        "walker" => {
            let mut w = g.neighbors_directed(ni(a[0]), dir(a[1])).detach();
            let mut l = Vec::new();
            while let Some((e, n)) = w.next(g) { l.push(e.index() as i64); l.push(n.index() as i64); if l.len() > 4000 { break; } }
            line("walk", &l)
        }
        _ => panic!("bad op"),
    }
}

pub fn is_query(name: &str) -> bool {
    matches!(name, "node_weight" | "edge_weight" | "edge_endpoints" | "find_edge" | "find_edge_undirected" | "edges_connecting" | "first_edge" | "next_edge" | "walker")
}

fn run_any<Ix: IndexType>(directed: bool, ops: &[GOp], out: &mut Out) {
    let mut g: AnyG<Ix> = if directed { AnyG::D(Graph::default()) } else { AnyG::U(Graph::default()) };
    let mut snap_d: Option<Gr<Directed, Ix>> = None;
    let mut snap_u: Option<Gr<Undirected, Ix>> = None;
    for o in ops {
        if o.0 == "snapshot" || o.0 == "clone_from" {
            // keep a clone; later overwrite it through Clone::clone_from and go on with it
            if o.0 == "snapshot" { match &g { AnyG::D(x) => snap_d = Some(x.clone()), AnyG::U(x) => snap_u = Some(x.clone()) } }
            else {
                g = match g {
                    AnyG::D(x) => { let mut h = snap_d.take().unwrap_or_default(); h.clone_from(&x); AnyG::D(h) }
                    AnyG::U(x) => { let mut h = snap_u.take().unwrap_or_default(); h.clone_from(&x); AnyG::U(h) }
                };
            }
            let mut v = vec!["unit".to_string()];
            match catch_unwind(AssertUnwindSafe(|| match &g { AnyG::D(x) => battery(x), AnyG::U(x) => battery(x) })) { Ok(b) => v.extend(b), Err(_) => v.push("battery-panic".into()) }
            out.obs_lines(&v);
            continue;
        }
        if o.0 == "into_edge_type" {
            g = match g { AnyG::D(x) => AnyG::U(x.into_edge_type()), AnyG::U(x) => AnyG::D(x.into_edge_type()) };
            let mut v = vec!["unit".to_string()];
            v.extend(match &g { AnyG::D(x) => battery(x), AnyG::U(x) => battery(x) });
            out.obs_lines(&v);
            continue;
        }
        let first = match catch_unwind(AssertUnwindSafe(|| match &mut g { AnyG::D(x) => apply(x, o), AnyG::U(x) => apply(x, o) })) {
            Ok(s) => s, Err(_) => "panic".into() };
        let mut v = vec![first];
        if !is_query(&o.0) {
            match catch_unwind(AssertUnwindSafe(|| match &g { AnyG::D(x) => battery(x), AnyG::U(x) => battery(x) })) {
                Ok(b) => v.extend(b), Err(_) => v.push("battery-panic".into()) }
        }
        out.obs_lines(&v);
    }
}

/// header: [directed, debug, cap, capcheck, ixcode]
pub fn run_case(id: usize, h: &[i64], ops: &[GOp], out: &mut Out) {
    let mut h = h.to_vec();
    h[1] = cfg!(debug_assertions) as i64;
    out.case(id, &h);
    for o in ops { out.op(o); }
    match h[4] { 0 => run_any::<u8>(h[0] == 1, ops, out), 1 => run_any::<u16>(h[0] == 1, ops, out), 2 => run_any::<u32>(h[0] == 1, ops, out), _ => run_any::<usize>(h[0] == 1, ops, out) }
    out.end_case();
    out.stat(if h[0] == 1 { "ty_directed" } else { "ty_undirected" });
    out.stat(&format!("ix_{}", h[4]));
}

/// (end sentinel, limit check): u8 and u16 with their true limits; for u32/usize the sentinel is any value no generated history reaches
pub fn caps(ixc: i64) -> (i64, i64) { match ixc { 0 => (255, 1), 1 => (65535, 1), _ => (3000, 0) } }

pub fn gen(seed: u64, n: usize, out: &mut Out) {
    let mut r = Rng::new(seed ^ 0xC01);
    for id in 0..n {
        let directed = r.chance(50);
        let ixc = if id % 120 == 3 { 0 } else { r.below(4) as i64 };
        let (cap, capcheck) = caps(ixc);
        if id % 120 == 35 {
            // the padding loop of extend_with_edges runs into the u8 limit: the nodes added before the panic stay
            let mut ops: Vec<GOp> = Vec::new();
            for k in 0..1 + r.below(4) { ops.push(("add_node".into(), vec![k as i64 + 1])); }
            let mut flat = Vec::new();
            for _ in 0..r.below(3) { flat.extend_from_slice(&[r.below(6) as i64, r.below(6) as i64, 5]); }
            if r.chance(50) { flat.extend_from_slice(&[255, 0, 7]); } else { flat.extend_from_slice(&[r.below(8) as i64, 255, 7]); }
            flat.extend_from_slice(&[0, 1, 9]);
            ops.push(("extend_with_edges".into(), flat));
            ops.push(("try_add_node".into(), vec![9]));
            ops.push(("try_add_edge".into(), vec![r.below(8) as i64, r.below(8) as i64, 3]));
            ops.push(("try_add_edge".into(), vec![254, 0, 3]));
            ops.push(("remove_node".into(), vec![r.below(8) as i64]));
            ops.push(("try_add_node".into(), vec![10]));
            run_case(id, &[directed as i64, 0, 255, 1, 0], &ops, out);
            out.stat("kind_u8_padding_limit");
            continue;
        }
        let mut ops: Vec<GOp> = Vec::new();
        let mut nn: usize = 0; let mut ne: usize = 0;     // approximate sizes (for drawing indices)
        if id % 120 == 3 {
            // the u8 capacity stream: fill the index space in bulk, hit the limits, keep going
            let mut flat = vec![254, 0, 7];
            for k in 0..252 { flat.extend_from_slice(&[r.below(255) as i64, r.below(255) as i64, k as i64 % 50]); }
            ops.push(("extend_with_edges".into(), flat));          // 255 nodes, 253 edges
            ops.push(("try_add_node".into(), vec![1]));             // NodeIxLimit
            ops.push(("add_node".into(), vec![2]));                 // panic
            ops.push(("try_add_edge".into(), vec![r.below(255) as i64, r.below(255) as i64, 3]));   // 254th
            ops.push(("try_add_edge".into(), vec![r.below(255) as i64, r.below(255) as i64, 3]));   // 255th
            ops.push(("try_add_edge".into(), vec![r.below(255) as i64, r.below(255) as i64, 3]));   // EdgeIxLimit
            ops.push(("add_edge".into(), vec![0, 1, 4]));           // panic
            ops.push(("try_update_edge".into(), vec![r.below(255) as i64, r.below(255) as i64, 5]));
            ops.push(("extend_with_edges".into(), vec![1, 2, 3]));  // panics inside add_edge
            ops.push(("remove_node".into(), vec![r.below(255) as i64]));
            ops.push(("try_add_node".into(), vec![6]));
            ops.push(("try_add_node".into(), vec![7]));
            ops.push(("remove_edge".into(), vec![r.below(200) as i64]));
            ops.push(("try_add_edge".into(), vec![3, 4, 8]));
            ops.push(("try_add_edge".into(), vec![3, 4, 9]));
            run_case(id, &[directed as i64, 0, cap, capcheck, ixc], &ops, out);
            out.stat("kind_u8_fill");
            continue;
        }
        let len = 6 + r.below(38);
        let mut pairs: Vec<(i64, i64)> = Vec::new();
        for _ in 0..len {
            let node = |r: &mut Rng, nn: usize| -> i64 {
                let c = r.below(100);
                if nn > 0 && c < 85 { r.below(nn) as i64 } else if c < 95 { (nn + r.below(3)) as i64 } else { cap }
            };
            let edge = |r: &mut Rng, ne: usize| -> i64 {
                let c = r.below(100);
                if ne > 0 && c < 85 { r.below(ne) as i64 } else if c < 95 { (ne + r.below(3)) as i64 } else { cap }
            };
            let vnode = |r: &mut Rng, nn: usize| -> i64 { if nn == 0 { 0 } else { r.below(nn) as i64 } };
            let w = r.below(60) as i64;
            match r.weighted(&[if nn < 9 { 15 } else { 2 }, 3, 18, 7, 5, 3, 8, 12, 3, 1, 1, 2, 2, 3, 2, 2, 2, 2, 12]) {
                0 => { nn += 1; ops.push(("add_node".into(), vec![w])); }
                1 => { nn += 1; ops.push(("try_add_node".into(), vec![w])); }
                2 | 3 => {
                    // 20% loops, 20% repeats of an existing pair
                    let c = r.below(100);
                    let (a, b) = if c < 20 { let x = vnode(&mut r, nn); (x, x) } else if c < 40 && !pairs.is_empty() { pairs[r.below(pairs.len())] } else { (node(&mut r, nn), node(&mut r, nn)) };
                    if (a as usize) < nn && (b as usize) < nn { ne += 1; pairs.push((a, b)); }
                    ops.push((if r.chance(70) { "add_edge" } else { "try_add_edge" }.into(), vec![a, b, w]));
                }
                4 | 5 => {
                    let (a, b) = if r.chance(50) && !pairs.is_empty() { let p = pairs[r.below(pairs.len())]; if r.chance(50) { p } else { (p.1, p.0) } } else { (node(&mut r, nn), node(&mut r, nn)) };
                    if (a as usize) < nn && (b as usize) < nn { ne += 1; pairs.push((a, b)); }
                    ops.push((if r.chance(50) { "update_edge" } else { "try_update_edge" }.into(), vec![a, b, w]));
                }
                6 => { let a = node(&mut r, nn); if (a as usize) < nn { nn -= 1; pairs.clear(); ne = ne.saturating_sub(1); } ops.push(("remove_node".into(), vec![a])); }
                7 => { let e = edge(&mut r, ne); if (e as usize) < ne { ne -= 1; } ops.push(("remove_edge".into(), vec![e])); }
                8 => { pairs = pairs.iter().map(|p| (p.1, p.0)).collect(); ops.push(("reverse".into(), vec![])); }
                9 => { nn = 0; ne = 0; pairs.clear(); ops.push(("clear".into(), vec![])); }
                10 => { ne = 0; pairs.clear(); ops.push(("clear_edges".into(), vec![])); }
                11 => { let m = 2 + r.below(4) as i64; ops.push(("retain_nodes".into(), vec![m, r.below(m as usize) as i64])); nn = nn * 2 / 3; pairs.clear(); }
                12 => { let m = 2 + r.below(4) as i64; ops.push(("retain_edges".into(), vec![m, r.below(m as usize) as i64])); ne = ne * 2 / 3; }
                13 => {
                    let mut flat = Vec::new();
                    for _ in 0..1 + r.below(4) { let (a, b) = ((nn + 0).min(10).max(1), 0); let s = r.below(a + 2) as i64; let t = r.below(a + 2 + b) as i64; flat.extend_from_slice(&[s, t, r.below(60) as i64]); nn = nn.max(s.max(t) as usize + 1); ne += 1; pairs.push((s, t)); }
                    ops.push(("extend_with_edges".into(), flat));
                }
                14 => { let m = 2 + r.below(4) as i64; let m2 = 2 + r.below(4) as i64; ops.push(("filter_map".into(), vec![m, r.below(m as usize) as i64, m2, r.below(m2 as usize) as i64])); nn = nn * 2 / 3; ne = ne / 2; pairs.clear(); }
                15 => ops.push(("into_edge_type".into(), vec![])),
                16 => ops.push((if r.chance(50) { "set_node_weight" } else { "set_edge_weight" }.into(), vec![if r.chance(50) { node(&mut r, nn) } else { edge(&mut r, ne) }, w])),
                17 => ops.push(("map".into(), vec![])),
                _ => {
                    match r.below(9) {
                        0 => ops.push(("node_weight".into(), vec![node(&mut r, nn)])),
                        1 => ops.push(("edge_weight".into(), vec![edge(&mut r, ne)])),
                        2 => ops.push(("edge_endpoints".into(), vec![edge(&mut r, ne)])),
                        3 => { let (a, b) = if r.chance(60) && !pairs.is_empty() { pairs[r.below(pairs.len())] } else { (node(&mut r, nn), node(&mut r, nn)) }; ops.push(("find_edge".into(), vec![a, b])); }
                        4 => { let (a, b) = if r.chance(60) && !pairs.is_empty() { let p = pairs[r.below(pairs.len())]; (p.1, p.0) } else { (node(&mut r, nn), node(&mut r, nn)) }; ops.push(("find_edge_undirected".into(), vec![a, b])); }
                        5 => { let (a, b) = if r.chance(70) && !pairs.is_empty() { pairs[r.below(pairs.len())] } else { (node(&mut r, nn), node(&mut r, nn)) }; ops.push(("edges_connecting".into(), vec![a, b])); }
                        6 => ops.push(("first_edge".into(), vec![node(&mut r, nn), r.below(2) as i64])),
                        7 => ops.push(("next_edge".into(), vec![edge(&mut r, ne), r.below(2) as i64])),
                        _ => ops.push(("walker".into(), vec![node(&mut r, nn), r.below(2) as i64])),
                    }
                }
            }
        }
        if r.chance(30) && ops.len() > 6 && !ops.iter().any(|o| o.0 == "into_edge_type") {
            let i = 1 + r.below(ops.len() / 2); ops.insert(i, ("snapshot".into(), vec![]));
            let j = i + 2 + r.below(ops.len() - i - 2); ops.insert(j, ("clone_from".into(), vec![]));
        }
        run_case(id, &[directed as i64, 0, cap, capcheck, ixc], &ops, out);
    }
}
