//! Encodings of one abstract graph in the concrete graph types, and the generic view dump
//! (what node_identifiers / edges / edges_directed / node_bound / visit_map show).
use crate::rng::Rng;
use crate::{GOp, Out};
use fixedbitset::FixedBitSet;
use petgraph::adj::List;
use petgraph::csr::Csr;
use petgraph::graph::{Graph, NodeIndex};
use petgraph::graphmap::GraphMap;
use petgraph::matrix_graph::MatrixGraph;
use petgraph::stable_graph::StableGraph;
use petgraph::visit::{
    Data, EdgeCount, EdgeRef, GraphProp, IntoEdgeReferences, IntoEdges, IntoEdgesDirected, IntoNeighbors, IntoNeighborsDirected,
    IntoNodeIdentifiers, NodeIndexable, Visitable,
};
use petgraph::{Direction, EdgeType};
use std::collections::hash_map::RandomState;

#[derive(Clone, Debug)]
pub struct AbsGraph {
    pub directed: bool,
    pub n: usize,
    pub edges: Vec<(usize, usize, i64)>,
}

impl AbsGraph {
    pub fn is_simple(&self) -> bool {
        let mut seen = std::collections::HashSet::new();
        for &(a, b, _) in &self.edges {
            let k = if self.directed || a <= b { (a, b) } else { (b, a) };
            if !seen.insert(k) { return false; }
        }
        true
    }
}

/// Sparse random abstract graph: loops, parallel edges, unreachable parts, cycles.
pub fn gen_abs(r: &mut Rng, nmax: usize, simple: bool, loops: bool, wlo: i64, whi: i64) -> AbsGraph {
    let directed = r.chance(55);
    let n = 1 + r.below(nmax);
    let dens = [0usize, 1, 1, 2, 2, 3][r.below(6)];
    let m = if n == 0 { 0 } else { r.below(n * dens + 2) };
    let mut edges = Vec::new();
    for _ in 0..m {
        let a = r.below(n);
        let b = if loops && r.chance(10) { a } else { r.below(n) };
        if !loops && a == b { continue; }
        edges.push((a, b, r.range(wlo, whi)));
        if !simple && r.chance(12) { edges.push((a, b, r.range(wlo, whi))); }
    }
    let mut g = AbsGraph { directed, n, edges };
    if simple {
        let mut seen = std::collections::HashSet::new();
        let d = g.directed;
        g.edges.retain(|&(a, b, _)| seen.insert(if d || a <= b { (a, b) } else { (b, a) }));
    }
    g
}

pub trait VCap { fn vcap(&self) -> i64; }
impl VCap for FixedBitSet { fn vcap(&self) -> i64 { self.len() as i64 } }
impl<N, S> VCap for hashbrown::HashSet<N, S> { fn vcap(&self) -> i64 { -1 } }
impl<N, S> VCap for std::collections::HashSet<N, S> { fn vcap(&self) -> i64 { -1 } }

/// a double-ended iterator walked from the back gives the forward list reversed, and its size_hint brackets the count
pub fn rev_ok<I: DoubleEndedIterator + Clone>(it: I) -> bool where I::Item: PartialEq {
    let (lo, hi) = it.size_hint();
    let f: Vec<I::Item> = it.clone().collect();
    let mut b: Vec<I::Item> = it.rev().collect();
    b.reverse();
    f == b && lo <= f.len() && hi.map_or(true, |h| f.len() <= h)
}

pub fn shuffle<T>(r: &mut Rng, v: &mut Vec<T>) { for i in (1..v.len()).rev() { let j = r.below(i + 1); v.swap(i, j); } }

// ---------------------------------------------------------------- builders
// each returns the graph; node weight = abstract id, so the correspondence can be read back

pub fn build_graph_w<Ty: EdgeType, Ix: petgraph::graph::IndexType, W: Copy>(a: &AbsGraph, r: &mut Rng, cw: fn(i64) -> W) -> Graph<u32, W, Ty, Ix> {
    let mut g = Graph::default();
    let mut order: Vec<usize> = (0..a.n).collect();
    shuffle(r, &mut order);
    let mut ix = vec![NodeIndex::new(0); a.n];
    for &i in &order { ix[i] = g.add_node(i as u32); }
    let mut es = a.edges.clone();
    shuffle(r, &mut es);
    for (s, t, w) in es { g.add_edge(ix[s], ix[t], cw(w)); }
    g
}
pub fn build_graph<Ty: EdgeType, Ix: petgraph::graph::IndexType>(a: &AbsGraph, r: &mut Rng) -> Graph<u32, i64, Ty, Ix> { build_graph_w(a, r, |w| w) }

pub fn build_stable_w<Ty: EdgeType, Ix: petgraph::graph::IndexType, W: Copy>(a: &AbsGraph, r: &mut Rng, cw: fn(i64) -> W) -> StableGraph<u32, W, Ty, Ix> {
    let mut g = StableGraph::default();
    let mut order: Vec<usize> = (0..a.n).collect();
    shuffle(r, &mut order);
    let mut ix = vec![NodeIndex::new(0); a.n];
    let mut dummies = Vec::new();
    for &i in &order {
        if r.chance(35) { dummies.push(g.add_node(9999)); }
        ix[i] = g.add_node(i as u32);
    }
    if r.chance(50) { dummies.push(g.add_node(9999)); }
    let mut es = a.edges.clone();
    shuffle(r, &mut es);
    let mut dummy_edges = Vec::new();
    for (s, t, w) in es {
        if r.chance(25) && !dummies.is_empty() { let d = dummies[r.below(dummies.len())]; dummy_edges.push(g.add_edge(ix[s], d, cw(77))); }
        if r.chance(15) { dummy_edges.push(g.add_edge(ix[s], ix[t], cw(78))); }
        g.add_edge(ix[s], ix[t], cw(w));
    }
    for e in dummy_edges { g.remove_edge(e); }
    for d in dummies { g.remove_node(d); }
    g
}
pub fn build_stable<Ty: EdgeType, Ix: petgraph::graph::IndexType>(a: &AbsGraph, r: &mut Rng) -> StableGraph<u32, i64, Ty, Ix> { build_stable_w(a, r, |w| w) }

/// a Graph whose node i has index i and whose edges have the indices of their position in `a.edges` (nothing shuffled)
pub fn plain_graph<Ty: EdgeType>(a: &AbsGraph) -> Graph<u32, i64, Ty, u32> {
    let mut g = Graph::default();
    for i in 0..a.n { g.add_node(i as u32); }
    for &(s, t, w) in &a.edges { g.add_edge(petgraph::graph::NodeIndex::new(s), petgraph::graph::NodeIndex::new(t), w); }
    g
}

pub fn build_graphmap_w<Ty: EdgeType, W: Copy>(a: &AbsGraph, r: &mut Rng, cw: fn(i64) -> W) -> GraphMap<u32, W, Ty, RandomState> {
    // node value = 3*id + 1, inserted in a shuffled order; a removed-and-reinserted node scrambles positions
    let mut g = GraphMap::default();
    let mut order: Vec<usize> = (0..a.n).collect();
    shuffle(r, &mut order);
    if r.chance(40) { g.add_node(9999); }
    for &i in &order { g.add_node(3 * i as u32 + 1); }
    let mut es = a.edges.clone();
    shuffle(r, &mut es);
    for (s, t, w) in es { g.add_edge(3 * s as u32 + 1, 3 * t as u32 + 1, cw(w)); }
    g.remove_node(9999);
    g
}
pub fn build_graphmap<Ty: EdgeType>(a: &AbsGraph, r: &mut Rng) -> GraphMap<u32, i64, Ty, RandomState> { build_graphmap_w(a, r, |w| w) }

pub fn build_csr_w<Ty: EdgeType, Ix: petgraph::graph::IndexType, W: Copy>(a: &AbsGraph, r: &mut Rng, cw: fn(i64) -> W) -> Csr<u32, W, Ty, Ix> {
    let mut g = Csr::new();
    for i in 0..a.n { g.add_node(i as u32); }
    let mut es = a.edges.clone();
    shuffle(r, &mut es);
    for (s, t, w) in es { g.add_edge(Ix::new(s), Ix::new(t), cw(w)); }
    g
}
pub fn build_csr<Ty: EdgeType, Ix: petgraph::graph::IndexType>(a: &AbsGraph, r: &mut Rng) -> Csr<u32, i64, Ty, Ix> { build_csr_w(a, r, |w| w) }

pub fn build_list_w<Ix: petgraph::graph::IndexType, W: Copy>(a: &AbsGraph, r: &mut Rng, cw: fn(i64) -> W) -> List<W, Ix> {
    let mut g = List::new();
    for _ in 0..a.n { g.add_node(); }
    let mut es = a.edges.clone();
    shuffle(r, &mut es);
    for (s, t, w) in es { g.add_edge(Ix::new(s), Ix::new(t), cw(w)); }
    g
}
pub fn build_list<Ix: petgraph::graph::IndexType>(a: &AbsGraph, r: &mut Rng) -> List<i64, Ix> { build_list_w(a, r, |w| w) }

pub fn build_matrix_w<Ty: EdgeType, Ix: petgraph::graph::IndexType, W: Copy>(a: &AbsGraph, r: &mut Rng, cw: fn(i64) -> W) -> MatrixGraph<u32, W, RandomState, Ty, Option<W>, Ix> {
    let mut g = MatrixGraph::default();
    let mut order: Vec<usize> = (0..a.n).collect();
    shuffle(r, &mut order);
    let mut ix = vec![petgraph::matrix_graph::NodeIndex::new(0); a.n];
    let mut dummies = Vec::new();
    for &i in &order {
        // 0..2 nodes that will be removed again before each real one (two vacant ids in a row matter to the id iterator)
        while dummies.len() < 2 * a.n + 2 && r.chance(35) { dummies.push(g.add_node(9999)); }
        ix[i] = g.add_node(i as u32);
    }
    if r.chance(20) { dummies.push(g.add_node(9999)); if r.chance(50) { dummies.push(g.add_node(9999)); } }
    let mut es = a.edges.clone();
    shuffle(r, &mut es);
    for (s, t, w) in es {
        if r.chance(20) && !dummies.is_empty() { let d = dummies[r.below(dummies.len())]; g.update_edge(ix[s], d, cw(77)); }
        g.update_edge(ix[s], ix[t], cw(w));
    }
    // a node that is removed may carry a self-loop and edges from and to live nodes: remove_node has to clear them all
    for &d in &dummies {
        if r.chance(40) { g.update_edge(d, d, cw(78)); }
        if r.chance(30) && a.n > 0 { let x = ix[r.below(a.n)]; g.update_edge(d, x, cw(79)); }
    }
    for d in dummies { g.remove_node(d); }
    g
}
pub fn build_matrix<Ty: EdgeType, Ix: petgraph::graph::IndexType>(a: &AbsGraph, r: &mut Rng) -> MatrixGraph<u32, i64, RandomState, Ty, Option<i64>, Ix> { build_matrix_w(a, r, |w| w) }

// ---------------------------------------------------------------- the view dump

/// out-lists only (types without IntoEdgesDirected)
pub fn dump_view_out<G, F>(g: G, eid: F, ecount: usize, ebound: usize, extra_hdr: &[i64]) -> (Vec<i64>, Vec<GOp>)
where
    G: IntoNodeIdentifiers + IntoEdges + IntoNeighbors + IntoEdgeReferences + NodeIndexable + Visitable + GraphProp + Data<EdgeWeight = i64>,
    G::Map: VCap,
    F: Fn(G::EdgeRef) -> usize,
{
    let mut ops: Vec<GOp> = Vec::new();
    let mut hdr = vec![g.is_directed() as i64, g.node_bound() as i64, g.visit_map().vcap(), ecount as i64, ebound as i64, cfg!(debug_assertions) as i64];
    hdr.extend_from_slice(extra_hdr);
    for a in g.node_identifiers() { ops.push(("node".into(), vec![g.to_index(a) as i64])); }
    for a in g.node_identifiers() {
        let mut v = vec![g.to_index(a) as i64];
        let mut tg = Vec::new();
        for e in g.edges(a) { let t = g.to_index(e.target()) as i64; tg.push(t); v.extend_from_slice(&[eid(e) as i64, t, *e.weight()]); }
        let nb: Vec<i64> = g.neighbors(a).map(|x| g.to_index(x) as i64).collect();
        if nb != tg { ops.push(("neighbors_edges_mismatch".into(), vec![g.to_index(a) as i64])); }
        ops.push(("out".into(), v));
    }
    let mut er = Vec::new();
    for e in g.edge_references() { er.extend_from_slice(&[eid(e) as i64, g.to_index(e.source()) as i64, g.to_index(e.target()) as i64, *e.weight()]); }
    ops.push(("erefs".into(), er));
    (hdr, ops)
}

/// out- and in-lists
pub fn dump_view<G, F>(g: G, eid: F, ecount: usize, ebound: usize, extra_hdr: &[i64]) -> (Vec<i64>, Vec<GOp>)
where
    G: IntoNodeIdentifiers + IntoEdgesDirected + IntoNeighborsDirected + IntoEdgeReferences + NodeIndexable + Visitable + GraphProp + Data<EdgeWeight = i64>,
    G::Map: VCap,
    F: Fn(G::EdgeRef) -> usize,
{
    let (hdr, mut ops) = dump_view_out(g, &eid, ecount, ebound, extra_hdr);
    for a in g.node_identifiers() {
        let mut v = vec![g.to_index(a) as i64];
        let mut sr = Vec::new();
        for e in g.edges_directed(a, Direction::Incoming) {
            // the documented convention: for Incoming the edge's target is `a`; the other endpoint is its source
            // (undirected graphs report `a` as target too)
            let (s, t) = (g.to_index(e.source()) as i64, g.to_index(e.target()) as i64);
            let other = if t == g.to_index(a) as i64 { s } else { t };
            sr.push(other);
            v.extend_from_slice(&[eid(e) as i64, other, *e.weight()]);
        }
        let nb: Vec<i64> = g.neighbors_directed(a, Direction::Incoming).map(|x| g.to_index(x) as i64).collect();
        if nb != sr { ops.push(("neighbors_edges_mismatch".into(), vec![g.to_index(a) as i64, 1])); }
        ops.push(("in".into(), v));
    }
    (hdr, ops)
}

pub fn emit_view(out: &mut Out, id: usize, hdr: &[i64], ops: &[GOp]) {
    out.case(id, hdr);
    for o in ops { out.op(o); out.obs_lines(&[]); }
}

/// encodings: 0 Graph u32 | 1 Graph u8 | 2 StableGraph(holes) u32 | 3 GraphMap | 4 Csr | 5 List | 6 MatrixGraph(holes)
pub const ENC_NAMES: [&str; 7] = ["graph_u32", "graph_u8", "stable_holes", "graphmap", "csr", "list", "matrix_holes"];

pub fn enc_ok(enc: usize, a: &AbsGraph, need_directed_traits: bool) -> bool {
    match enc {
        0 | 1 | 2 => true,
        3 => a.is_simple(),
        4 => a.is_simple() && !need_directed_traits,
        5 => a.directed && !need_directed_traits,
        6 => a.is_simple() && (a.directed || !need_directed_traits),
        _ => false,
    }
}
