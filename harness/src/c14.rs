//! C14: Acyclic<DiGraph> / Acyclic<StableDiGraph> histories.
use crate::rng::Rng;
use crate::{line, GOp, Out};
use petgraph::acyclic::{Acyclic, AcyclicEdgeError, TopologicalPosition};
use petgraph::data::Build;
use petgraph::graph::{DiGraph, EdgeIndex, IndexType, NodeIndex};
use petgraph::stable_graph::StableDiGraph;
use petgraph::visit::NodeIndexable;
use std::convert::TryFrom;
use std::panic::{catch_unwind, AssertUnwindSafe};

fn ni<Ix: IndexType>(x: i64) -> NodeIndex<Ix> { NodeIndex::new(x as usize) }
fn ei<Ix: IndexType>(x: i64) -> EdgeIndex<Ix> { EdgeIndex::new(x as usize) }
fn posnum(p: TopologicalPosition) -> i64 {
    let s = format!("{:?}", p);
    s.trim_start_matches("TopologicalPosition(").trim_end_matches(')').parse().unwrap()
}
fn mkpos(p: usize) -> TopologicalPosition { unsafe { std::mem::transmute::<usize, TopologicalPosition>(p) } }
fn opt(o: Option<u32>) -> String { match o { Some(w) => line("some", &[w as i64]), None => "none".into() } }

macro_rules! runner {
    ($name:ident, $G:ident, $bat:path) => {
        fn $name<Ix: IndexType>(ops: &[GOp], out: &mut Out) {
            type A<Ix> = Acyclic<$G<u32, u32, Ix>>;
            let mut g: A<Ix> = Acyclic::new();
            let full = |g: &A<Ix>| -> Vec<String> {
                let mut v = Vec::new();
                v.push(line("order", &g.nodes_iter().map(|n| n.index() as i64).collect::<Vec<_>>()));
                let mut ps = Vec::new();
                for n in g.inner().node_indices() {
                    ps.push(n.index() as i64);
                    match catch_unwind(AssertUnwindSafe(|| g.get_position(n))) {
                        Ok(p) => ps.push(posnum(p)),
                        Err(_) => ps.push(-2),
                    }
                }
                v.push(line("pos", &ps));
                // probe every position up to the largest key of the position map, and two more
                let mut top = 0usize;
                let mut probe = 0usize;
                let count = g.range(..).count();
                let mut seen = 0usize;
                while seen < count && probe < 100000 { if g.at_position(mkpos(probe)).is_some() { seen += 1; top = probe; } probe += 1; }
                v.push(line("atpos", &(0..top + 2).map(|p| g.at_position(mkpos(p)).map(|n| n.index() as i64).unwrap_or(-1)).collect::<Vec<_>>()));
                v.extend($bat(g.inner()));
                v
            };
            for o in ops {
                let a = &o.1;
                let w = a.get(2).copied().unwrap_or(0) as u32;
                let eline = |r: Result<EdgeIndex<Ix>, AcyclicEdgeError<NodeIndex<Ix>>>| -> String {
                    match r {
                        Ok(e) => line("idx", &[e.index() as i64]),
                        Err(AcyclicEdgeError::Cycle(c)) => line("cycle", &[c.node_id().index() as i64]),
                        Err(AcyclicEdgeError::SelfLoop) => "selfloop".into(),
                        Err(AcyclicEdgeError::InvalidEdge) => "invalid".into(),
                    }
                };
                let saved = g.clone();
                let r = catch_unwind(AssertUnwindSafe(|| -> (String, bool) {
                    match o.0.as_str() {
                        "add_node" => (line("idx", &[g.add_node(a[0] as u32).index() as i64]), true),
                        "try_add_edge" => (eline(g.try_add_edge(ni(a[0]), ni(a[1]), w)), true),
                        "try_update_edge" => (eline(g.try_update_edge(ni(a[0]), ni(a[1]), w)), true),
                        "build_add_edge" => (match Build::add_edge(&mut g, ni(a[0]), ni(a[1]), w) { Some(e) => line("some", &[e.index() as i64]), None => "none".into() }, true),
                        "build_update_edge" => (line("idx", &[Build::update_edge(&mut g, ni(a[0]), ni(a[1]), w).index() as i64]), true),
                        "remove_edge" => (opt(g.remove_edge(ei(a[0]))), true),
                        "remove_node" => (opt(g.remove_node(ni(a[0]))), true),
                        "is_valid_edge" => (line("bool", &[g.is_valid_edge(ni(a[0]), ni(a[1])) as i64]), false),
                        "raw_edge" => {
                            let mut inner = g.clone().into_inner();
                            inner.add_edge(ni(a[0]), ni(a[1]), w);
                            // both entry points must agree
                            let via_fn = Acyclic::try_from_graph(inner.clone()).map(|_| ()).map_err(|c| c.node_id().index());
                            match A::<Ix>::try_from(inner) {
                                Ok(ng) => { if via_fn != Ok(()) { return ("try_from-disagree".into(), false); } g = ng; (line("bool", &[1]), true) }
                                Err(c) => { if via_fn != Err(c.node_id().index()) { return ("try_from-disagree".into(), false); } (line("cycle", &[c.node_id().index() as i64]), true) }
                            }
                        }
                        "range" => (line("range", &g.range(mkpos(a[0] as usize)..mkpos(a[1] as usize)).map(|n| n.index() as i64).collect::<Vec<_>>()), false),
                        _ => ("panic".into(), false),
                    }
                }));
                match r {
                    Ok((s, dump)) => { let mut v = vec![s]; if dump { v.extend(full(&g)); } out.obs_lines(&v); }
                    Err(_) => {
                        g = saved;
                        let mut v = vec!["panic".to_string()];
                        if o.0 != "is_valid_edge" && o.0 != "range" { v.extend(full(&g)); }
                        out.obs_lines(&v);
                    }
                }
            }
        }
    };
}
runner!(run_g, DiGraph, crate::c01::battery);
runner!(run_s, StableDiGraph, crate::c02::battery);

/// header: [kind (0 DiGraph, 1 StableDiGraph), debug, cap, capcheck, ixcode]
pub fn run_case(id: usize, h: &[i64], ops: &[GOp], out: &mut Out) {
    let mut h = h.to_vec();
    h[1] = cfg!(debug_assertions) as i64;
    out.case(id, &h);
    for o in ops { out.op(o); }
    macro_rules! go { ($ix:ty) => { if h[0] == 0 { run_g::<$ix>(ops, out) } else { run_s::<$ix>(ops, out) } }; }
    match h[4] { 0 => go!(u8), 1 => go!(u16), 2 => go!(u32), _ => go!(usize) }
    out.end_case();
    out.stat(if h[0] == 0 { "inner_digraph" } else { "inner_stable" });
    out.stat(&format!("ix_{}", h[4]));
}

pub fn gen(seed: u64, n: usize, out: &mut Out) {
    let mut r = Rng::new(seed ^ 0xC14);
    for id in 0..n {
        let kind = r.below(2) as i64;
        let ixc = r.below(4) as i64;
        let (cap, capcheck) = crate::c01::caps(ixc);
        let mut ops: Vec<GOp> = Vec::new();
        let len = 10 + r.below(50);
        let target = 3 + r.below(7);
        let mut nb: usize = 0;
        let mut eb: usize = 0;
        for _ in 0..len {
            let node = |r: &mut Rng, nb: usize| -> i64 { let c = r.below(100); if nb > 0 && c < 92 { r.below(nb) as i64 } else if c < 98 { (nb + r.below(2)) as i64 } else { cap } };
            let w = r.below(60) as i64;
            match r.weighted(&[if nb < target { 22 } else { 3 }, 30, 8, 6, 3, 6, 7, 10, 4, 4]) {
                0 => { nb += 1; ops.push(("add_node".into(), vec![w])); }
                1 | 2 | 3 | 4 => {
                    let (a, b) = if r.chance(6) { let x = node(&mut r, nb); (x, x) } else { (node(&mut r, nb), node(&mut r, nb)) };
                    eb += 1;
                    let name = match r.weighted(&[30, 8, 6, 3]) { 0 => "try_add_edge", 1 => "try_update_edge", 2 => "build_add_edge", _ => "build_update_edge" };
                    ops.push((name.into(), vec![a, b, w]));
                }
                5 => { let c = r.below(100); let e = if eb > 0 && c < 85 { r.below(eb) as i64 } else { (eb + r.below(3)) as i64 }; ops.push(("remove_edge".into(), vec![e])); }
                6 => { ops.push(("remove_node".into(), vec![node(&mut r, nb)])); if kind == 0 && nb > 0 { nb -= 1; } }
                7 => ops.push(("is_valid_edge".into(), vec![node(&mut r, nb.max(1)).min(nb.max(1) as i64 - 1).max(0), r.below(nb.max(1)) as i64])),
                8 => { if nb >= 2 { let a = r.below(nb) as i64; let b = r.below(nb) as i64; eb += 1; ops.push(("raw_edge".into(), vec![a, b, w])); } }
                _ => { let lo = r.below(nb + 2) as i64; ops.push(("range".into(), vec![lo, lo + r.below(5) as i64])); }
            }
        }
        run_case(id, &[kind, 0, cap, capcheck, ixc], &ops, out);
    }
}
