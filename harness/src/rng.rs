/// SplitMix64: every random choice of a run derives from one state.
#[derive(Clone)]
pub struct Rng(pub u64);
impl Rng {
    pub fn new(seed: u64) -> Self { Rng(seed.wrapping_mul(0x9E3779B97F4A7C15) ^ 0xD1B54A32D192ED03) }
    pub fn next(&mut self) -> u64 {
        self.0 = self.0.wrapping_add(0x9E3779B97F4A7C15);
        let mut z = self.0;
        z = (z ^ (z >> 30)).wrapping_mul(0xBF58476D1CE4E5B9);
        z = (z ^ (z >> 27)).wrapping_mul(0x94D049BB133111EB);
        z ^ (z >> 31)
    }
    pub fn below(&mut self, n: usize) -> usize { if n == 0 { 0 } else { (self.next() % (n as u64)) as usize } }
    pub fn range(&mut self, lo: i64, hi: i64) -> i64 { lo + (self.next() % ((hi - lo + 1) as u64)) as i64 }
    pub fn chance(&mut self, pct: u64) -> bool { self.next() % 100 < pct }
    /// pick an index according to integer weights
    pub fn weighted(&mut self, w: &[u32]) -> usize {
        let tot: u32 = w.iter().sum();
        let mut r = (self.next() % tot as u64) as u32;
        for (i, x) in w.iter().enumerate() { if r < *x { return i; } r -= *x; }
        w.len() - 1
    }
    pub fn fork(&mut self) -> Rng { Rng(self.next()) }
}
