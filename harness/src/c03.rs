//! C03: GraphMap histories.
use crate::rng::Rng;
use crate::{line, GOp, Out};
use petgraph::graphmap::GraphMap;
use petgraph::visit::{EdgeIndexable, EdgeRef, IntoEdgeReferences, NodeIndexable};
use petgraph::{Directed, Direction, EdgeType, Undirected};
use std::hash::{BuildHasher, BuildHasherDefault};
use std::panic::{catch_unwind, AssertUnwindSafe};

fn trip<'a>(it: impl Iterator<Item = (i32, i32, &'a i32)>) -> Vec<i64> {
    let mut v = Vec::new();
    for (a, b, w) in it { v.push(a as i64); v.push(b as i64); v.push(*w as i64); }
    v
}
fn with(a: i32, mut v: Vec<i64>) -> Vec<i64> { v.insert(0, a as i64); v }

fn battery<Ty: EdgeType, S: BuildHasher>(g: &GraphMap<i32, i32, Ty, S>) -> Vec<String> {
    let mut v = Vec::new();
    v.push(line("counts", &[g.node_count() as i64, g.edge_count() as i64]));
    let nodes: Vec<i32> = g.nodes().collect();
    v.push(line("nodes", &nodes.iter().map(|x| *x as i64).collect::<Vec<_>>()));
    v.push(line("erefs", &trip(g.all_edges())));
    for (i, a) in nodes.iter().enumerate() {
        let a = *a;
        v.push(line("nb", &with(a, g.neighbors(a).map(|x| x as i64).collect())));
        v.push(line("nbo", &with(a, g.neighbors_directed(a, Direction::Outgoing).map(|x| x as i64).collect())));
        v.push(line("nbi", &with(a, g.neighbors_directed(a, Direction::Incoming).map(|x| x as i64).collect())));
        v.push(line("ed", &with(a, trip(g.edges(a)))));
        v.push(line("edo", &with(a, trip(g.edges_directed(a, Direction::Outgoing)))));
        v.push(line("edi", &with(a, trip(g.edges_directed(a, Direction::Incoming)))));
        if NodeIndexable::to_index(g, a) != i || NodeIndexable::from_index(g, i) != a { v.push(format!("index-mismatch {}", a)); }
    }
    // edge_references must agree with all_edges
    let er: Vec<i64> = g.edge_references().flat_map(|e| vec![e.source() as i64, e.target() as i64, *e.weight() as i64]).collect();
    if er != trip(g.all_edges()) { v.push("edge-references-mismatch".into()); }
    // the double-ended iterators: all_edges and nodes from the back are the forward lists reversed
    let mut back: Vec<(i32, i32, i32)> = g.all_edges().rev().map(|(a, b, w)| (a, b, *w)).collect(); back.reverse();
    if back != g.all_edges().map(|(a, b, w)| (a, b, *w)).collect::<Vec<_>>() { v.push("all-edges-from-the-back-mismatch".into()); }
    let mut nback: Vec<i32> = g.nodes().rev().collect(); nback.reverse();
    if nback != nodes { v.push("nodes-from-the-back-mismatch".into()); }
    if NodeIndexable::node_bound(g) != g.node_count() { v.push("node-bound-mismatch".into()); }
    // EdgeIndexable: the i-th edge of all_edges has index i, from_index gives its key back, edge_bound is the edge count
    if EdgeIndexable::edge_bound(g) != g.edge_count() { v.push("edge-bound-mismatch".into()); }
    for (i, (a, b, _)) in g.all_edges().enumerate() {
        match catch_unwind(AssertUnwindSafe(|| (EdgeIndexable::to_index(g, (a, b)), EdgeIndexable::from_index(g, i)))) {
            Ok((ti, fi)) => if ti != i || fi != (a, b) { v.push(format!("edge-index-mismatch {}", i)); },
            Err(_) => v.push(format!("edge-index-panic {}", i)),
        }
    }
    v
}

fn opt(o: Option<i32>) -> String { match o { Some(w) => line("some", &[w as i64]), None => "none".into() } }

fn run_gm<Ty: EdgeType + Clone, S: BuildHasher + Default + Clone>(ops: &[GOp], out: &mut Out) {
    let mut g: GraphMap<i32, i32, Ty, S> = GraphMap::default();
    for o in ops {
        let a: Vec<i32> = o.1.iter().map(|x| *x as i32).collect();
        let mutating = matches!(o.0.as_str(), "add_node" | "remove_node" | "add_edge" | "remove_edge" | "clear" | "set_edge_weight" | "extend");
        let r = catch_unwind(AssertUnwindSafe(|| -> Vec<String> {
            match o.0.as_str() {
                "add_node" => vec![line("some", &[g.add_node(a[0]) as i64])],
                "remove_node" => vec![line("bool", &[g.remove_node(a[0]) as i64])],
                "add_edge" => {
                    // the same insertion through the generic data::Build interface, on a clone: it refuses an existing edge
                    // and otherwise adds exactly what the inherent call adds
                    let had = g.contains_edge(a[0], a[1]);
                    let before = battery(&g);
                    let mut c = g.clone();
                    let r = petgraph::data::Build::add_edge(&mut c, a[0], a[1], a[2]);
                    let res = opt(g.add_edge(a[0], a[1], a[2]));
                    let ok = if had { r.is_none() && battery(&c) == before } else { r.is_some() && battery(&c) == battery(&g) };
                    if ok { vec![res] } else { vec![res, "build-twin-mismatch".into()] }
                }
                "remove_edge" => vec![opt(g.remove_edge(a[0], a[1]))],
                "clear" => { g.clear(); vec!["unit".into()] }
                "set_edge_weight" => vec![line("bool", &[match g.edge_weight_mut(a[0], a[1]) { Some(w) => { *w = a[2]; 1 } None => 0 }])],
                "extend" => { g.extend(a.chunks(3).filter(|c| c.len() == 3).map(|c| (c[0], c[1], c[2]))); vec!["unit".into()] }
                "contains_node" => vec![line("bool", &[g.contains_node(a[0]) as i64])],
                "contains_edge" => vec![line("bool", &[g.contains_edge(a[0], a[1]) as i64])],
                "edge_weight" => vec![opt(g.edge_weight(a[0], a[1]).cloned())],
                "neighbors" => vec![line("nb", &with(a[0], g.neighbors(a[0]).map(|x| x as i64).collect()))],
                "edges_directed" => vec![line("edo", &with(a[0], trip(g.edges_directed(a[0], if a[1] == 1 { Direction::Outgoing } else { Direction::Incoming }))))],
                "to_index" => vec![line("idx", &[NodeIndexable::to_index(&g, a[0]) as i64])],
                "into_graph" => {
                    let gr = g.clone().into_graph::<u32>();
                    let gn: Vec<i64> = gr.node_weights().map(|x| *x as i64).collect();
                    let mut ge = Vec::new();
                    for e in gr.edge_indices() { let (s, t) = gr.edge_endpoints(e).unwrap(); ge.extend_from_slice(&[s.index() as i64, t.index() as i64, gr[e] as i64]); }
                    // and back: from_graph must rebuild an equal map
                    let back: GraphMap<i32, i32, Ty, S> = GraphMap::from_graph(gr);
                    let mut v = vec![line("gn", &gn), line("ge", &ge)];
                    let same_nodes = back.nodes().collect::<Vec<_>>() == g.nodes().collect::<Vec<_>>();
                    let mut e1 = trip(back.all_edges()).chunks(3).map(|c| c.to_vec()).collect::<Vec<_>>(); e1.sort();
                    let mut e2 = trip(g.all_edges()).chunks(3).map(|c| c.to_vec()).collect::<Vec<_>>(); e2.sort();
                    if !same_nodes || e1 != e2 { v.push("from-graph-roundtrip-mismatch".into()); }
                    v
                }
                "ser" => {
                    let val = serde_json::to_value(&g).unwrap();
                    let mut v = vec![line("wire", &crate::c17::wire_nums(&val))];
                    let b1: Result<GraphMap<i32, i32, Ty, S>, _> = bincode::deserialize(&bincode::serialize(&g).unwrap());
                    let j1: Result<GraphMap<i32, i32, Ty, S>, _> = serde_json::from_str(&serde_json::to_string(&g).unwrap());
                    match (b1, j1) {
                        (Ok(b), Ok(j)) => { if battery(&b) != battery(&j) { v.push("codec-roundtrip-differs".into()); } }
                        _ => v.push("codec-roundtrip-failed".into()),
                    }
                    let rb = crate::c17::bytemut(&g, a.first().copied().unwrap_or(0) as i64, &|h: GraphMap<i32, i32, Ty, S>| { let _ = battery(&h); let mut h = h; h.add_edge(1, 2, 3); h.remove_node(1); let _ = battery(&h); });
                    if rb != "robust" { v.push(rb); }
                    v
                }
                "deser" | "roundtrip" => {
                    let val = if o.0 == "deser" { crate::c17::wire_value(&o.1) } else { serde_json::to_value(&g).unwrap() };
                    match serde_json::from_value::<GraphMap<i32, i32, Ty, S>>(val) {
                        Ok(h) => {
                            let mut v = vec!["unit".to_string()];
                            if o.0 == "roundtrip" {
                                // the binary codec must reload the same map
                                match bincode::deserialize::<GraphMap<i32, i32, Ty, S>>(&bincode::serialize(&g).unwrap()) {
                                    Ok(b) => if battery(&b) != battery(&h) { v.push("codec-roundtrip-differs".into()); },
                                    Err(_) => v.push("codec-roundtrip-failed".into()),
                                }
                            }
                            g = h; v.extend(battery(&g)); v
                        }
                        Err(_) => vec!["err".into()],
                    }
                }
                _ => panic!("bad op"),
            }
        }));
        let mut v = match r { Ok(v) => v, Err(_) => vec!["panic".to_string()] };
        if mutating && v[0] != "panic" {
            match catch_unwind(AssertUnwindSafe(|| battery(&g))) { Ok(b) => v.extend(b), Err(_) => v.push("battery-panic".into()) }
        }
        out.obs_lines(&v);
    }
}

/// header: [directed, debug, hasher]  hasher 0 = RandomState, 1 = fxhash
pub fn run_case(id: usize, h: &[i64], ops: &[GOp], out: &mut Out) {
    let mut h = h.to_vec();
    h[1] = cfg!(debug_assertions) as i64;
    out.case(id, &h);
    for o in ops { out.op(o); }
    type Fx = BuildHasherDefault<fxhash::FxHasher>;
    match (h[0] == 1, h[2]) {
        (true, 0) => run_gm::<Directed, std::collections::hash_map::RandomState>(ops, out),
        (true, _) => run_gm::<Directed, Fx>(ops, out),
        (false, 0) => run_gm::<Undirected, std::collections::hash_map::RandomState>(ops, out),
        (false, _) => run_gm::<Undirected, Fx>(ops, out),
    }
    out.end_case();
    out.stat(if h[0] == 1 { "ty_directed" } else { "ty_undirected" });
    out.stat(&format!("hasher_{}", h[2]));
}

pub fn gen(seed: u64, n: usize, out: &mut Out) { gen_with(seed, n, out, false) }

/// a serde wire for a GraphMap: mostly loadable, with duplicate node weights, parallel and antiparallel edges, self-loops,
/// and (rarely) holes, null edges, the wrong edge property or endpoints out of range
fn gen_wire(r: &mut Rng, directed: bool, pool: &[i64]) -> Vec<i64> {
    let nn = r.below(7);
    let mut nodes: Vec<i64> = Vec::new();
    for _ in 0..nn { if !nodes.is_empty() && r.chance(15) { let x = nodes[r.below(nodes.len())]; nodes.push(x); } else { nodes.push(pool[r.below(pool.len())]); } }
    let mut v = vec![nn as i64]; v.extend(&nodes);
    if r.chance(6) { v.extend_from_slice(&[1, r.below(nn + 1) as i64]); } else { v.push(0); }
    v.push(if r.chance(6) { !directed as i64 } else { directed as i64 });
    let ne = if nn == 0 { if r.chance(10) { 1 } else { 0 } } else { r.below(9) };
    v.push(ne as i64);
    let mut es: Vec<(i64, i64)> = Vec::new();
    for _ in 0..ne {
        if r.chance(4) { v.extend_from_slice(&[0, 0, 0, 0]); continue; }
        let (a, b) = if !es.is_empty() && r.chance(25) { let e = es[r.below(es.len())]; if r.chance(50) { e } else { (e.1, e.0) } }
            else if r.chance(5) { (r.below(nn + 2) as i64, nn as i64 + r.below(3) as i64) }
            else if nn > 0 && r.chance(12) { let x = r.below(nn) as i64; (x, x) }
            else { (r.below(nn.max(1)) as i64, r.below(nn.max(1)) as i64) };
        es.push((a, b));
        v.extend_from_slice(&[1, a, b, r.below(90) as i64]);
    }
    v
}

pub fn gen_serde(seed: u64, n: usize, out: &mut Out) { gen_with(seed ^ 0x17, n, out, true) }

fn gen_with(seed: u64, n: usize, out: &mut Out, serde: bool) {
    let mut r = Rng::new(seed ^ 0xC03);
    let pool: [i64; 7] = [-3, -1, 0, 2, 5, 7, 11];
    for id in 0..n {
        let directed = r.chance(50);
        let hasher = r.below(2) as i64;
        let np = 3 + r.below(5);
        let mut ops: Vec<GOp> = Vec::new();
        let mut present: Vec<(i64, i64)> = Vec::new();
        let len = 6 + r.below(45);
        for _ in 0..len {
            let nd = |r: &mut Rng| pool[r.below(np)];
            let pr = |r: &mut Rng, present: &Vec<(i64, i64)>, want: bool| -> (i64, i64) {
                if want && !present.is_empty() { let e = present[r.below(present.len())]; if r.chance(50) { e } else { (e.1, e.0) } }
                else if r.chance(12) { let x = pool[r.below(np)]; (x, x) } else { (pool[r.below(np)], pool[r.below(np)]) }
            };
            let wts: &[u32] = if serde { &[8, 9, 30, 12, 1, 4, 3, 2, 2, 2, 2, 2, 2, 2, 6, 8, 7] } else { &[8, 9, 30, 12, 1, 4, 3, 4, 6, 5, 4, 4, 3, 3] };
            match r.weighted(wts) {
                0 => ops.push(("add_node".into(), vec![nd(&mut r)])),
                1 => { let x = nd(&mut r); present.retain(|e| e.0 != x && e.1 != x); ops.push(("remove_node".into(), vec![x])); }
                2 => { let c = r.chance(20); let (a, b) = pr(&mut r, &present, c); present.push((a, b)); ops.push(("add_edge".into(), vec![a, b, r.below(90) as i64])); }
                3 => { let c = r.chance(75); let (a, b) = pr(&mut r, &present, c); present.retain(|e| !(e.0 == a && e.1 == b) && !(!directed && e.0 == b && e.1 == a)); ops.push(("remove_edge".into(), vec![a, b])); }
                4 => { present.clear(); ops.push(("clear".into(), vec![])); }
                5 => { let c = r.chance(70); let (a, b) = pr(&mut r, &present, c); ops.push(("set_edge_weight".into(), vec![a, b, r.below(90) as i64])); }
                6 => { let mut v = Vec::new(); for _ in 0..1 + r.below(4) { let (a, b) = pr(&mut r, &present, false); present.push((a, b)); v.extend_from_slice(&[a, b, r.below(90) as i64]); } ops.push(("extend".into(), v)); }
                7 => ops.push(("contains_node".into(), vec![nd(&mut r)])),
                8 => { let c = r.chance(50); let (a, b) = pr(&mut r, &present, c); ops.push(("contains_edge".into(), vec![a, b])); }
                9 => { let c = r.chance(50); let (a, b) = pr(&mut r, &present, c); ops.push(("edge_weight".into(), vec![a, b])); }
                10 => ops.push(("neighbors".into(), vec![nd(&mut r)])),
                11 => ops.push(("edges_directed".into(), vec![nd(&mut r), r.below(2) as i64])),
                12 => ops.push(("to_index".into(), vec![nd(&mut r)])),
                13 => ops.push(("into_graph".into(), vec![])),
                14 => ops.push(("ser".into(), vec![r.below(1 << 30) as i64])),
                15 => ops.push(("roundtrip".into(), vec![])),
                _ => { let w = gen_wire(&mut r, directed, &pool[..np]); present.clear(); ops.push(("deser".into(), w)); }
            }
        }
        run_case(id, &[directed as i64, 0, hasher], &ops, out);
    }
}
