//! C04: MatrixGraph histories.
use crate::rng::Rng;
use crate::{line, GOp, Out};
use petgraph::graph::IndexType;
use petgraph::matrix_graph::{MatrixError, MatrixGraph, NodeIndex, NotZero, Nullable};
use petgraph::visit::{IntoEdgeReferences, IntoNodeReferences, NodeIndexable};
use petgraph::{Directed, Direction, EdgeType, Undirected};
use std::collections::hash_map::RandomState;
use std::panic::{catch_unwind, AssertUnwindSafe};

type G<Ty, Null, Ix> = MatrixGraph<u32, u32, RandomState, Ty, Null, Ix>;

fn nx<Ix: IndexType>(x: i64) -> NodeIndex<Ix> { NodeIndex::new(x as usize) }

fn flat3<Ix: IndexType>(it: impl Iterator<Item = (NodeIndex<Ix>, NodeIndex<Ix>, u32)>) -> Vec<i64> {
    let mut v = Vec::new();
    for (a, b, w) in it { v.push(a.index() as i64); v.push(b.index() as i64); v.push(w as i64); }
    v
}

fn battery<Ty: EdgeType, Null: Nullable<Wrapped = u32>, Ix: IndexType>(
    g: &G<Ty, Null, Ix>, incoming: Option<fn(&G<Ty, Null, Ix>, i64) -> Vec<i64>>) -> Vec<String> {
    let mut v = Vec::new();
    let ub = g.node_bound();
    v.push(line("counts", &[g.node_count() as i64, g.edge_count() as i64, ub as i64]));
    let mut nodes = Vec::new();
    for (i, w) in g.node_references() { nodes.push(i.index() as i64); nodes.push(*w as i64); }
    v.push(line("nodes", &nodes));
    if ub > 70 { return v; }
    v.push(line("erefs", &flat3(g.edge_references().map(|(a, b, w)| (a, b, *w)))));
    for a in 0..ub as i64 {
        let mut o = vec![a]; o.extend(flat3(g.edges(nx(a)).map(|(x, y, w)| (x, y, *w))));
        v.push(line("out", &o));
        let mut h = vec![a];
        for b in 0..ub as i64 { if g.has_edge(nx(a), nx(b)) { h.push(b); } }
        v.push(line("has", &h));
        // neighbors must agree with edges
        let ns: Vec<usize> = g.neighbors(nx(a)).map(|x| x.index()).collect();
        let es: Vec<usize> = g.edges(nx(a)).map(|(_, y, _)| y.index()).collect();
        if ns != es { v.push(format!("neighbors-mismatch {}", a)); }
        if let Some(f) = incoming { let mut i = vec![a]; i.extend(f(g, a)); v.push(line("in", &i)); }
    }
    // the visit traits answer like the inherent methods
    if petgraph::visit::NodeCount::node_count(g) != g.node_count() || petgraph::visit::EdgeCount::edge_count(g) != g.edge_count()
        || petgraph::visit::IntoNodeIdentifiers::node_identifiers(g).count() != g.node_count() { v.push("visit-trait-count-mismatch".into()); }
    v
}

fn opt_line(o: Option<u32>) -> String { match o { Some(w) => line("some", &[w as i64]), None => "none".into() } }
fn merr(e: MatrixError) -> String {
    match e { MatrixError::NodeIxLimit => "limit".into(), MatrixError::NodeMissed(i) => line("err", &[i as i64]), _ => "err-other".into() }
}

fn run_mg<Ty: EdgeType, Null: Nullable<Wrapped = u32>, Ix: IndexType>(
    k: usize, ops: &[GOp], out: &mut Out, incoming: Option<fn(&G<Ty, Null, Ix>, i64) -> Vec<i64>>) {
    let mut g: G<Ty, Null, Ix> = MatrixGraph::with_capacity(k);
    for o in ops {
        let a = &o.1;
        let mutating = !matches!(o.0.as_str(), "has_edge" | "get_edge_weight" | "get_node_weight" | "edges" | "edges_directed");
        let r = catch_unwind(AssertUnwindSafe(|| -> String {
            match o.0.as_str() {
                "add_node" => line("nat", &[g.add_node(a[0] as u32).index() as i64]),
                "try_add_node" => match g.try_add_node(a[0] as u32) { Ok(i) => line("nat", &[i.index() as i64]), Err(e) => merr(e) },
                "remove_node" => line("nat", &[g.remove_node(nx(a[0])) as i64]),
                "add_edge" => { g.add_edge(nx(a[0]), nx(a[1]), a[2] as u32); "unit".into() }
                "update_edge" => opt_line(g.update_edge(nx(a[0]), nx(a[1]), a[2] as u32)),
                "try_update_edge" => match g.try_update_edge(nx(a[0]), nx(a[1]), a[2] as u32) { Ok(o) => opt_line(o), Err(e) => merr(e) },
                "add_or_update_edge" => match g.add_or_update_edge(nx(a[0]), nx(a[1]), a[2] as u32) { Ok(o) => opt_line(o), Err(e) => merr(e) },
                "remove_edge" => line("nat", &[g.remove_edge(nx(a[0]), nx(a[1])) as i64]),
                "try_remove_edge" => opt_line(g.try_remove_edge(nx(a[0]), nx(a[1]))),
                "clear" => { g.clear(); "unit".into() }
                "has_edge" => line("bool", &[g.has_edge(nx(a[0]), nx(a[1])) as i64]),
                "get_edge_weight" => opt_line(g.get_edge_weight(nx(a[0]), nx(a[1])).cloned()),
                "get_node_weight" => opt_line(g.get_node_weight(nx(a[0])).cloned()),
                "edges" => { let mut o = vec![a[0]]; o.extend(flat3(g.edges(nx(a[0])).map(|(x, y, w)| (x, y, *w)))); line("out", &o) }
                "edges_directed" => match incoming {
                    Some(f) if a[1] == 1 => { let mut i = vec![a[0]]; i.extend(f(&g, a[0])); line("in", &i) }
                    _ => { let mut o = vec![a[0]]; o.extend(flat3(g.edges(nx(a[0])).map(|(x, y, w)| (x, y, *w)))); line("in", &o) }
                },
                _ => panic!("bad op"),
            }
        }));
        let first = match r { Ok(s) => s, Err(_) => "panic".into() };
        let mut v = vec![first];
        if mutating {
            match catch_unwind(AssertUnwindSafe(|| battery(&g, incoming))) { Ok(b) => v.extend(b), Err(_) => v.push("battery-panic".into()) }
        }
        out.obs_lines(&v);
    }
}

fn inc<Null: Nullable<Wrapped = u32>, Ix: IndexType>(g: &G<Directed, Null, Ix>, a: i64) -> Vec<i64> {
    flat3(g.edges_directed(nx(a), Direction::Incoming).map(|(x, y, w)| (x, y, *w)))
}

/// header: [directed, notzero, debug, cap, capcheck, with_capacity k, ixcode]
pub fn run_case(id: usize, h: &[i64], ops: &[GOp], out: &mut Out) {
    // the debug flag of the header is what this build is; rewrite it so the model mirrors this build
    let mut h = h.to_vec();
    h[2] = cfg!(debug_assertions) as i64;
    out.case(id, &h);
    for o in ops { out.op(o); }
    let k = h[5] as usize;
    macro_rules! go {
        ($ix:ty) => {
            match (h[0] == 1, h[1] == 1) {
                (true, false) => run_mg::<Directed, Option<u32>, $ix>(k, ops, out, Some(inc::<Option<u32>, $ix>)),
                (true, true) => run_mg::<Directed, NotZero<u32>, $ix>(k, ops, out, Some(inc::<NotZero<u32>, $ix>)),
                (false, false) => run_mg::<Undirected, Option<u32>, $ix>(k, ops, out, None),
                (false, true) => run_mg::<Undirected, NotZero<u32>, $ix>(k, ops, out, None),
            }
        };
    }
    match h[6] { 0 => go!(u8), 1 => go!(u16), 2 => go!(u32), _ => go!(usize) }
    out.end_case();
    out.stat(if h[0] == 1 { "ty_directed" } else { "ty_undirected" });
    out.stat(if h[1] == 1 { "null_notzero" } else { "null_option" });
    out.stat(&format!("ix_{}", h[6]));
}

/// Generator-side mirror of the id assignment (removed-id stack), to keep edge operations between live nodes.
struct Ids { ub: usize, removed: Vec<usize>, live: Vec<usize> }
impl Ids {
    fn add(&mut self) -> usize {
        let id = if let Some(i) = self.removed.pop() { i } else { self.ub += 1; self.ub - 1 };
        self.live.push(id); id
    }
    fn remove(&mut self, id: usize) {
        self.live.retain(|x| *x != id);
        if self.ub - id == 1 { self.ub -= 1; } else { self.removed.push(id); }
    }
}

pub fn gen(seed: u64, n: usize, out: &mut Out) {
    let mut r = Rng::new(seed ^ 0xC04);
    for id in 0..n {
        let directed = r.chance(55);
        let notzero = r.chance(35);
        let ixc = r.below(4) as i64;
        let (cap, capcheck) = match ixc { 0 => (255, 1), 1 => (65535, 1), _ => (0, 0) }; // u32/usize: the limit is out of reach, the model skips the test
        let kind = if id % 200 == 7 { 0 } else { 1 + id % 39 };
        // target size tier: most <= 17 nodes, some to 33, few to 65
        let target = if kind == 0 { 65 + r.below(3) } else if kind < 6 { 20 + r.below(15) } else { 2 + r.below(16) };
        let k = match r.below(5) { 0 => 0, 1 => 1 + r.below(4), 2 => 3 + 2 * r.below(5), 3 => r.below(12), _ => 0 };
        let mut ops: Vec<GOp> = Vec::new();
        let mut ids = Ids { ub: 0, removed: vec![], live: vec![] };
        let mut edges: Vec<(usize, usize)> = Vec::new();
        let len = if kind == 0 { 75 + r.below(20) } else if kind < 6 { 30 + r.below(40) } else { 8 + r.below(40) };
        let w = |r: &mut Rng| -> i64 { if notzero { 1 + r.below(60) as i64 } else { r.below(60) as i64 } };
        if kind == 39 && ixc == 0 {
            // the u8 limit: 255 nodes, then the limit error / panic, no edges so no matrix storage
            for _ in 0..255 { ops.push(("add_node".into(), vec![1])); ids.add(); }
            ops.push(("try_add_node".into(), vec![2]));
            ops.push(("add_node".into(), vec![3]));
            ops.push(("remove_node".into(), vec![r.below(255) as i64]));
            ops.push(("try_add_node".into(), vec![4]));
            ops.push(("try_add_node".into(), vec![5]));
            run_case(id, &[directed as i64, notzero as i64, 0, cap, capcheck, 0, ixc], &ops, out);
            out.stat("kind_u8_limit");
            continue;
        }
        for step in 0..len {
            let growing = ids.live.len() < target && (kind < 6 || step < len / 2);
            let wts = [if growing { 30 } else { 6 }, 4, if ids.live.len() > 1 { 7 } else { 0 }, 22, 9, 5, 5, 6, 6,
                       if r.chance(3) { 1 } else { 0 }, 5, 4, 2, 3, if directed { 3 } else { 0 }];
            let live = ids.live.clone();
            let pick = |r: &mut Rng| -> i64 { if live.is_empty() { 0 } else { live[r.below(live.len())] as i64 } };
            let pair = |r: &mut Rng, edges: &Vec<(usize, usize)>, want_existing: bool| -> (i64, i64) {
                if want_existing && !edges.is_empty() { let e = edges[r.below(edges.len())]; (e.0 as i64, e.1 as i64) }
                else if live.is_empty() { (0, 0) }
                else { (live[r.below(live.len())] as i64, if r.chance(12) { live[0] as i64 } else { live[r.below(live.len())] as i64 }) }
            };
            let canon = |a: i64, b: i64| -> (usize, usize) { if directed || a <= b { (a as usize, b as usize) } else { (b as usize, a as usize) } };
            match r.weighted(&wts) {
                0 => { ops.push(("add_node".into(), vec![r.below(90) as i64])); ids.add(); }
                1 => { ops.push(("try_add_node".into(), vec![r.below(90) as i64])); ids.add(); }
                2 => {
                    let a = if r.chance(93) { pick(&mut r) } else { (ids.ub + r.below(2)) as i64 };
                    ops.push(("remove_node".into(), vec![a]));
                    if live.contains(&(a as usize)) { ids.remove(a as usize); edges.retain(|e| e.0 != a as usize && e.1 != a as usize); }
                }
                3 => { if live.is_empty() { continue; }
                       let (a, b) = { let c_ = r.chance(8); pair(&mut r, &edges, c_) }; ops.push(("add_edge".into(), vec![a, b, w(&mut r)]));
                       let c = canon(a, b); if !edges.contains(&c) { edges.push(c); } }
                4 => { if live.is_empty() { continue; }
                       let (a, b) = { let c_ = r.chance(50); pair(&mut r, &edges, c_) }; ops.push(("update_edge".into(), vec![a, b, w(&mut r)]));
                       let c = canon(a, b); if !edges.contains(&c) { edges.push(c); } }
                5 => { if live.is_empty() { continue; }
                       let (a, b) = { let c_ = r.chance(40); pair(&mut r, &edges, c_) }; ops.push(("try_update_edge".into(), vec![a, b, w(&mut r)]));
                       // may be rejected when beyond the current capacity: the generator cannot know, so it re-syncs lazily
                       let c = canon(a, b); if !edges.contains(&c) { edges.push(c); } }
                6 => { if live.is_empty() { continue; }
                       let (a, b) = { let c_ = r.chance(40); pair(&mut r, &edges, c_) }; ops.push(("add_or_update_edge".into(), vec![a, b, w(&mut r)]));
                       let c = canon(a, b); if !edges.contains(&c) { edges.push(c); } }
                7 => { if live.is_empty() { continue; }
                       let (a, b) = { let c_ = r.chance(85); pair(&mut r, &edges, c_) }; ops.push(("remove_edge".into(), vec![a, b]));
                       let c = canon(a, b); edges.retain(|e| *e != c); }
                8 => { if live.is_empty() { continue; }
                       let (a, b) = { let c_ = r.chance(70); pair(&mut r, &edges, c_) }; ops.push(("try_remove_edge".into(), vec![a, b]));
                       let c = canon(a, b); edges.retain(|e| *e != c); }
                9 => { ops.push(("clear".into(), vec![])); ids = Ids { ub: 0, removed: vec![], live: vec![] }; edges.clear(); }
                10 => { let (a, b) = { let c_ = r.chance(50); pair(&mut r, &edges, c_) }; ops.push(("has_edge".into(), vec![a, b])); }
                11 => { let (a, b) = { let c_ = r.chance(50); pair(&mut r, &edges, c_) }; ops.push(("get_edge_weight".into(), vec![a, b])); }
                12 => ops.push(("get_node_weight".into(), vec![if r.chance(80) { pick(&mut r) } else { (ids.ub + r.below(3)) as i64 }])),
                13 => ops.push(("edges".into(), vec![if r.chance(85) { pick(&mut r) } else { (ids.ub + r.below(3)) as i64 }])),
                _ => ops.push(("edges_directed".into(), vec![pick(&mut r), r.below(2) as i64])),
            }
        }
        run_case(id, &[directed as i64, notzero as i64, 0, cap, capcheck, k as i64, ixc], &ops, out);
        out.stat(&format!("size_{}", if ids.ub > 64 { "gt64" } else if ids.ub > 32 { "33to64" } else if ids.ub > 16 { "17to32" } else if ids.ub > 8 { "9to16" } else { "le8" }));
        out.stat(if k % 2 == 1 { "withcap_odd" } else if k == 0 { "withcap_0" } else { "withcap_even" });
    }
}
