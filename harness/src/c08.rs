//! C08 / C09: traversals and the basic algorithms of petgraph::algo on every graph type and two adaptors.
use crate::enc::*;
use crate::rng::Rng;
use crate::{line, GOp, Out};
use petgraph::algo::{self, DfsSpace, TarjanScc};
use petgraph::visit::{
    depth_first_search, Bfs, Control, Dfs, DfsEvent, DfsPostOrder, EdgeCount, EdgeIndexable, EdgeRef, GraphRef, IntoEdgeReferences,
    IntoNeighbors, IntoNeighborsDirected, IntoNodeIdentifiers, NodeCompactIndexable, NodeFiltered, NodeIndexable, Reversed, Topo, Visitable,
};
use petgraph::{Directed, Undirected};
use std::panic::{catch_unwind, AssertUnwindSafe};

fn seq(v: Vec<usize>) -> String { line("seq", &v.iter().map(|x| *x as i64).collect::<Vec<_>>()) }

/// queries that need only IntoNeighbors + Visitable
pub fn query_nb<G>(g: G, q: &GOp) -> Option<String>
where G: GraphRef + IntoNeighbors + Visitable + NodeIndexable, G::NodeId: std::fmt::Debug {
    let a = &q.1;
    let n = |i: i64| g.from_index(i as usize);
    Some(match q.0.as_str() {
        "dfs" => { let mut d = Dfs::new(g, n(a[0])); let mut v = Vec::new(); while let Some(x) = d.next(g) { v.push(g.to_index(x)); } seq(v) }
        "dfs_moveto" => {
            let mut d = Dfs::new(g, n(a[0])); let mut v = Vec::new();
            for _ in 0..a[1] { match d.next(g) { Some(x) => v.push(g.to_index(x)), None => break } }
            d.move_to(n(a[2]));
            while let Some(x) = d.next(g) { v.push(g.to_index(x)); }
            seq(v)
        }
        "dfs_reset" => {
            let mut d = Dfs::new(g, n(a[0])); let mut v = Vec::new();
            while let Some(x) = d.next(g) { v.push(g.to_index(x)); }
            d.reset(g); d.move_to(n(a[1]));
            while let Some(x) = d.next(g) { v.push(g.to_index(x)); }
            seq(v)
        }
        "dfspost" => { let mut d = DfsPostOrder::new(g, n(a[0])); let mut v = Vec::new(); while let Some(x) = d.next(g) { v.push(g.to_index(x)); } seq(v) }
        "dfspost_moveto" => {
            let mut d = DfsPostOrder::new(g, n(a[0])); let mut v = Vec::new();
            while let Some(x) = d.next(g) { v.push(g.to_index(x)); }
            d.move_to(n(a[1]));
            while let Some(x) = d.next(g) { v.push(g.to_index(x)); }
            seq(v)
        }
        "dfspost_reset" => {
            let mut d = DfsPostOrder::new(g, n(a[0])); let mut v = Vec::new();
            while let Some(x) = d.next(g) { v.push(g.to_index(x)); }
            d.reset(g); d.move_to(n(a[1]));
            while let Some(x) = d.next(g) { v.push(g.to_index(x)); }
            seq(v)
        }
        "bfs" => { let mut d = Bfs::new(g, n(a[0])); let mut v = Vec::new(); while let Some(x) = d.next(g) { v.push(g.to_index(x)); } seq(v) }
        "dfsvisit" => {
            let ns = a[0] as usize;
            let starts: Vec<G::NodeId> = a[1..1 + ns].iter().map(|i| n(*i)).collect();
            let rules: Vec<(i64, i64, i64)> = a[1 + ns..].chunks(3).filter(|c| c.len() == 3).map(|c| (c[0], c[1], c[2])).collect();
            let key_of = |ev: DfsEvent<G::NodeId>| -> (i64, i64, i64, i64) {
                match ev {
                    DfsEvent::Discover(u, t) => (0, g.to_index(u) as i64, t.0 as i64, g.to_index(u) as i64),
                    DfsEvent::TreeEdge(u, w) => (1, g.to_index(u) as i64, g.to_index(w) as i64, g.to_index(w) as i64),
                    DfsEvent::BackEdge(u, w) => (2, g.to_index(u) as i64, g.to_index(w) as i64, g.to_index(w) as i64),
                    DfsEvent::CrossForwardEdge(u, w) => (3, g.to_index(u) as i64, g.to_index(w) as i64, g.to_index(w) as i64),
                    DfsEvent::Finish(u, t) => (4, g.to_index(u) as i64, t.0 as i64, g.to_index(u) as i64),
                }
            };
            let action = |k: i64, key: i64| -> i64 { for (rk, rn, ra) in &rules { if *rk == k && *rn == key { return *ra; } } 0 };
            let mut evs: Vec<i64> = Vec::new();
            let r = depth_first_search(g, starts.clone(), |ev| {
                let (k, x, y, key) = key_of(ev);
                evs.extend_from_slice(&[k, x, y]);
                match action(k, key) { 1 => Control::Prune, 2 => Control::Break(()), _ => Control::Continue }
            });
            let brk = matches!(r, Control::Break(_)) as i64;
            // the same visitor through the other ControlFlow implementations: Result<Control, E> must honour Ok(Break) and Ok(Prune)
            // exactly like the bare Control, and Err(e) must stop the search like a Break
            let mut evs1: Vec<i64> = Vec::new();
            let r1: Result<Control<()>, i64> = depth_first_search(g, starts.clone(), |ev| {
                let (k, x, y, key) = key_of(ev);
                evs1.extend_from_slice(&[k, x, y]);
                Ok(match action(k, key) { 1 => Control::Prune, 2 => Control::Break(()), _ => Control::Continue })
            });
            let mut evs2: Vec<i64> = Vec::new();
            let r2: Result<Control<()>, i64> = depth_first_search(g, starts, |ev| {
                let (k, x, y, key) = key_of(ev);
                evs2.extend_from_slice(&[k, x, y]);
                match action(k, key) { 1 => Ok(Control::Prune), 2 => Err(7), _ => Ok(Control::Continue) }
            });
            let same = evs1 == evs && evs2 == evs
                && matches!(r1, Ok(Control::Break(_))) == (brk == 1) && r1.is_ok()
                && matches!(r2, Err(7)) == (brk == 1);
            let mut v = vec![brk]; v.extend(evs);
            line(if same { "events" } else { "events-result-visitor-mismatch" }, &v)
        }
        "has_path" => line("bool", &[algo::has_path_connecting(g, n(a[0]), n(a[1]), None) as i64]),
        "bipartite" => line("bool", &[algo::is_bipartite_undirected(g, n(a[0])) as i64]),
        _ => return None,
    })
}

/// condensation of a Graph whose node weights are replaced by the node indices
fn condense<Ty: petgraph::EdgeType, Ix: petgraph::graph::IndexType>(g: &petgraph::Graph<u32, i64, Ty, Ix>, q: &GOp) -> Option<Vec<String>> {
    if q.0 != "condensation" { return None; }
    let h = g.map(|ix, _| ix.index() as i64, |_, w| *w);
    let c = algo::condensation(h, q.1[0] == 1);
    let mut v = vec![line("nat", &[c.node_count() as i64])];
    for n in c.node_indices() { v.push(line("comp", &c[n])); }
    let mut el = Vec::new();
    for e in c.edge_indices() { let (s, t) = c.edge_endpoints(e).unwrap(); el.extend_from_slice(&[s.index() as i64, t.index() as i64, c[e]]); }
    v.push(line("el", &el));
    Some(v)
}

fn comps<G: NodeIndexable>(g: G, sccs: &[Vec<G::NodeId>]) -> Vec<String> {
    let mut v = vec![line("nat", &[sccs.len() as i64])];
    for c in sccs { v.push(line("comp", &c.iter().map(|x| g.to_index(*x) as i64).collect::<Vec<_>>())); }
    v
}

/// queries over node_identifiers + neighbors (+ NodeIndexable): is_cyclic_directed, tarjan
pub fn query_ids<G>(g: G, q: &GOp) -> Option<Vec<String>>
where G: GraphRef + IntoNeighbors + IntoNodeIdentifiers + Visitable + NodeIndexable {
    Some(match q.0.as_str() {
        "is_cyclic_directed" => vec![line("bool", &[algo::is_cyclic_directed(g) as i64])],
        "tarjan" => {
            let mut sccs = Vec::new();
            let mut t = TarjanScc::new();
            t.run(g, |scc| sccs.push(scc.to_vec()));
            let mut v = comps(g, &sccs);
            if algo::tarjan_scc(g).iter().map(|c| c.iter().map(|x| g.to_index(*x)).collect::<Vec<_>>()).collect::<Vec<_>>()
                != sccs.iter().map(|c| c.iter().map(|x| g.to_index(*x)).collect::<Vec<_>>()).collect::<Vec<_>>() { v.push("tarjan_scc-vs-run-mismatch".into()); }
            let mut ci = Vec::new();
            for x in g.node_identifiers() { ci.push(g.to_index(x) as i64); ci.push(t.node_component_index(g, x) as i64); }
            v.push(line("cidx", &ci));
            // a TarjanScc is a reusable state: a second run on the same object must give the same components and the same indices
            let mut sccs2 = Vec::new();
            t.run(g, |scc| sccs2.push(scc.to_vec()));
            let mut ci2 = Vec::new();
            for x in g.node_identifiers() { ci2.push(g.to_index(x) as i64); ci2.push(t.node_component_index(g, x) as i64); }
            let same_sccs = sccs2.iter().map(|c| c.iter().map(|x| g.to_index(*x)).collect::<Vec<_>>()).collect::<Vec<_>>()
                == sccs.iter().map(|c| c.iter().map(|x| g.to_index(*x)).collect::<Vec<_>>()).collect::<Vec<_>>();
            if !same_sccs || ci2 != ci { v.push("tarjan-reused-state-mismatch".into()); }
            v
        }
        _ => return None,
    })
}

/// queries over edge_references: is_cyclic_undirected
pub fn query_er<G>(g: G, q: &GOp) -> Option<Vec<String>>
where G: GraphRef + IntoEdgeReferences + NodeIndexable {
    Some(match q.0.as_str() {
        "is_cyclic_undirected" => vec![line("bool", &[algo::is_cyclic_undirected(g) as i64])],
        _ => return None,
    })
}

pub fn query_compact<G>(g: G, q: &GOp) -> Option<Vec<String>>
where G: GraphRef + IntoEdgeReferences + NodeCompactIndexable {
    Some(match q.0.as_str() {
        "connected_components" => vec![line("nat", &[algo::connected_components(g) as i64])],
        _ => return None,
    })
}

pub fn query_dir2<G>(g: G, q: &GOp) -> Option<Vec<String>>
where G: GraphRef + IntoNeighborsDirected + IntoNodeIdentifiers + Visitable + NodeIndexable, <G as Visitable>::Map: Default {
    let topo = |r: Result<Vec<G::NodeId>, algo::Cycle<G::NodeId>>| match r {
        Ok(l) => line("seq", &l.iter().map(|x| g.to_index(*x) as i64).collect::<Vec<_>>()),
        Err(c) => line("cycle", &[g.to_index(c.node_id()) as i64]),
    };
    Some(match q.0.as_str() {
        "toposort" => vec![topo(algo::toposort(g, None))],
        "toposort2" => { let mut sp = DfsSpace::new(g); let a = topo(algo::toposort(g, Some(&mut sp))); let b = topo(algo::toposort(g, Some(&mut sp))); vec![a, b] }
        "kosaraju" => comps(g, &algo::kosaraju_scc(g)),
        // a workspace that was NOT created from this graph: reset_map has to size it
        "toposort3" => { let mut sp: DfsSpace<G::NodeId, G::Map> = DfsSpace::default(); vec![topo(algo::toposort(g, Some(&mut sp)))] }
        "has_path3" => { let mut sp: DfsSpace<G::NodeId, G::Map> = DfsSpace::default(); vec![line("bool", &[algo::has_path_connecting(g, g.from_index(q.1[0] as usize), g.from_index(q.1[1] as usize), Some(&mut sp)) as i64])] }
        _ => return None,
    })
}

pub fn query_dir<G>(g: G, q: &GOp) -> Option<String>
where G: GraphRef + IntoNeighborsDirected + IntoNodeIdentifiers + Visitable + NodeIndexable {
    let a = &q.1;
    Some(match q.0.as_str() {
        "topo" => { let mut t = Topo::new(g); let mut v = Vec::new(); while let Some(x) = t.next(g) { v.push(g.to_index(x)); } seq(v) }
        "topo_with_initials" => {
            let ini: Vec<G::NodeId> = a.iter().map(|i| g.from_index(*i as usize)).collect();
            let mut t = Topo::with_initials(g, ini); let mut v = Vec::new(); while let Some(x) = t.next(g) { v.push(g.to_index(x)); } seq(v)
        }
        _ => return None,
    })
}

fn gen_queries(stream: &str, r: &mut Rng, ids: &[usize], bound: usize, directed_traits: bool, compact: bool, enc: usize) -> Vec<GOp> {
    let mut qs: Vec<GOp> = Vec::new();
    let pick = |r: &mut Rng| -> i64 { if ids.is_empty() { 0 } else if r.chance(94) || bound == 0 { ids[r.below(ids.len())] as i64 } else { r.below(bound) as i64 } };
    if stream == "C09" {
        if compact { qs.push(("connected_components".into(), vec![])); }
        qs.push(("is_cyclic_undirected".into(), vec![]));
        qs.push(("is_cyclic_directed".into(), vec![]));
        qs.push(("tarjan".into(), vec![]));
        if directed_traits {
            qs.push((if r.chance(50) { "toposort" } else { "toposort2" }.into(), vec![]));
            qs.push(("kosaraju".into(), vec![]));
            qs.push(("toposort3".into(), vec![]));
            if !ids.is_empty() { qs.push(("has_path3".into(), vec![pick(r), pick(r)])); }
        }
        if !ids.is_empty() {
            for _ in 0..2 + r.below(3) { qs.push(("has_path".into(), vec![pick(r), pick(r)])); }
            qs.push(("bipartite".into(), vec![pick(r)]));
        }
        if enc <= 1 { qs.push(("condensation".into(), vec![0])); qs.push(("condensation".into(), vec![1])); }
        return qs;
    }
    if ids.is_empty() { if directed_traits { qs.push(("topo".into(), vec![])); } return qs; }
    for _ in 0..3 + r.below(5) {
        match r.below(if directed_traits { 9 } else { 7 }) {
            0 => qs.push(("dfs".into(), vec![pick(r)])),
            1 => qs.push(("dfs_moveto".into(), vec![pick(r), r.below(4) as i64, pick(r)])),
            2 => qs.push(("dfs_reset".into(), vec![pick(r), pick(r)])),
            3 => { let c = r.below(100); if c < 55 { qs.push(("dfspost".into(), vec![pick(r)])) } else if c < 80 { qs.push(("dfspost_moveto".into(), vec![pick(r), pick(r)])) } else { qs.push(("dfspost_reset".into(), vec![pick(r), pick(r)])) } }
            4 => qs.push(("bfs".into(), vec![pick(r)])),
            5 | 6 => {
                let ns = 1 + r.below(3);
                let mut v = vec![ns as i64];
                for _ in 0..ns { v.push(pick(r)); }
                if r.chance(15) { v = vec![ids.len() as i64]; v.extend(ids.iter().map(|x| *x as i64)); }
                for _ in 0..r.below(4) { v.extend_from_slice(&[r.below(5) as i64, pick(r), if r.chance(60) { 1 } else { 2 }]); }
                qs.push(("dfsvisit".into(), v));
            }
            7 => qs.push(("topo".into(), vec![])),
            _ => { let k = 1 + r.below(3); qs.push(("topo_with_initials".into(), (0..k).map(|_| pick(r)).collect())); }
        }
    }
    qs
}

fn answer(out: &mut Out, q: &GOp, r: std::thread::Result<Option<Vec<String>>>) {
    out.op(q);
    match r { Ok(Some(s)) => out.obs_lines(&s), Ok(None) => out.obs_lines(&["unsupported".to_string()]), Err(_) => out.obs_lines(&["panic".to_string()]) }
}

macro_rules! run_both {
    ($stream:expr, $g:expr, $eid:expr, $ecount:expr, $ebound:expr, $id:expr, $enc:expr, $r:expr, $out:expr, $compact:tt) => {
        run_both!($stream, $g, $eid, $ecount, $ebound, $id, $enc, $r, $out, $compact, |_q: &GOp| None::<Vec<String>>)
    };
    ($stream:expr, $g:expr, $eid:expr, $ecount:expr, $ebound:expr, $id:expr, $enc:expr, $r:expr, $out:expr, $compact:tt, $extra:expr) => {{
        let g = $g;
        let extra = $extra;
        let (hdr, ops) = dump_view(g, $eid, $ecount, $ebound, &[$enc as i64]);
        emit_view($out, $id, &hdr, &ops);
        let ids: Vec<usize> = g.node_identifiers().map(|x| NodeIndexable::to_index(&g, x)).collect();
        let qs: Vec<GOp> = gen_queries($stream, $r, &ids, NodeIndexable::node_bound(&g), true, $compact, $enc);
        for q in &qs {
            let res = catch_unwind(AssertUnwindSafe(|| {
                query_nb(g, q).map(|s| vec![s]).or_else(|| query_dir(g, q).map(|s| vec![s]))
                    .or_else(|| query_ids(g, q)).or_else(|| query_er(g, q)).or_else(|| query_dir2(g, q))
                    .or_else(|| compact_q!($compact, g, q)).or_else(|| extra(q))
            }));
            answer($out, q, res);
        }
        $out.end_case();
    }};
}
macro_rules! run_out_only {
    ($stream:expr, $g:expr, $eid:expr, $ecount:expr, $ebound:expr, $id:expr, $enc:expr, $r:expr, $out:expr, $compact:tt) => {{
        let g = $g;
        let (hdr, ops) = dump_view_out(g, $eid, $ecount, $ebound, &[$enc as i64]);
        emit_view($out, $id, &hdr, &ops);
        let ids: Vec<usize> = g.node_identifiers().map(|x| NodeIndexable::to_index(&g, x)).collect();
        let qs: Vec<GOp> = gen_queries($stream, $r, &ids, NodeIndexable::node_bound(&g), false, $compact, $enc);
        for q in &qs {
            let res = catch_unwind(AssertUnwindSafe(|| {
                query_nb(g, q).map(|s| vec![s]).or_else(|| query_ids(g, q)).or_else(|| query_er(g, q))
                    .or_else(|| compact_q!($compact, g, q))
            }));
            answer($out, q, res);
        }
        $out.end_case();
    }};
}
macro_rules! compact_q {
    (true, $g:expr, $q:expr) => { query_compact($g, $q) };
    (false, $g:expr, $q:expr) => { None::<Vec<String>> };
}

/// Build encoding `enc` of `a` and run the stream's queries on it.
pub fn run_enc(stream: &str, id: usize, a: &AbsGraph, enc: usize, r: &mut Rng, out: &mut Out) {
    macro_rules! ty { ($f:ident, $d:ty, $u:ty) => { if a.directed { $f!($d) } else { $f!($u) } }; }
    match enc {
        0 => { macro_rules! go { ($t:ty) => {{ let g = build_graph::<$t, u32>(a, r); run_both!(stream, &g, |e| e.id().index(), g.edge_count(), g.edge_bound(), id, enc, r, out, true, |q: &GOp| condense(&g, q)) }}; } ty!(go, Directed, Undirected) }
        1 => { macro_rules! go { ($t:ty) => {{ let g = build_graph::<$t, u8>(a, r); run_both!(stream, &g, |e| e.id().index(), g.edge_count(), g.edge_bound(), id, enc, r, out, true, |q: &GOp| condense(&g, q)) }}; } ty!(go, Directed, Undirected) }
        2 => { macro_rules! go { ($t:ty) => {{ let g = build_stable::<$t, u32>(a, r); run_both!(stream, &g, |e| e.id().index(), g.edge_count(), g.edge_bound(), id, enc, r, out, false) }}; } ty!(go, Directed, Undirected) }
        3 => { macro_rules! go { ($t:ty) => {{ let g = build_graphmap::<$t>(a, r); run_both!(stream, &g, |e| { let (s, t) = e.id(); g.all_edges().position(|(x, y, _)| (x, y) == (s, t) || (!a.directed && (x, y) == (t, s))).unwrap_or(9999) }, g.edge_count(), EdgeIndexable::edge_bound(&g), id, enc, r, out, true) }}; } ty!(go, Directed, Undirected) }
        4 => { macro_rules! go { ($t:ty) => {{ let g = build_csr::<$t, u32>(a, r); run_out_only!(stream, &g, |e| e.id(), EdgeCount::edge_count(&g), 0, id, enc, r, out, true) }}; } ty!(go, Directed, Undirected) }
        5 => { let g = build_list::<u32>(a, r); run_out_only!(stream, &g, |_e| 0, EdgeCount::edge_count(&g), 0, id, enc, r, out, true) }
        6 => {
            if a.directed { let g = build_matrix::<Directed, u16>(a, r); run_both!(stream, &g, |_e| 0, g.edge_count(), 0, id, enc, r, out, false) }
            else { let g = build_matrix::<Undirected, u16>(a, r); run_out_only!(stream, &g, |_e| 0, g.edge_count(), 0, id, enc, r, out, false) }
        }
        7 => { macro_rules! go { ($t:ty) => {{ let g0 = build_graph::<$t, u32>(a, r); let g = Reversed(&g0); run_both!(stream, g, |e| e.id().index(), g0.edge_count(), g0.edge_bound(), id, enc, r, out, true) }}; } ty!(go, Directed, Undirected) }
        9 => { macro_rules! go { ($t:ty) => {{ let g = plain_graph::<$t>(a); run_both!(stream, &g, |e| e.id().index(), g.edge_count(), g.edge_bound(), id, 0usize, r, out, true, |q: &GOp| condense(&g, q)) }}; } ty!(go, Directed, Undirected) }
        _ => { macro_rules! go { ($t:ty) => {{
                   let g0 = build_graph::<$t, u32>(a, r);
                   let mask = r.next();
                   let g = NodeFiltered::from_fn(&g0, move |n: petgraph::graph::NodeIndex<u32>| (mask >> (n.index() % 60)) & 3 != 0);
                   run_both!(stream, &g, |e| e.id().index(), g0.edge_count(), g0.edge_bound(), id, enc, r, out, false) }}; } ty!(go, Directed, Undirected) }
    }
    out.stat(&format!("enc_{}", enc));
}

pub fn gen(stream: &str, seed: u64, n: usize, out: &mut Out) {
    let mut r = Rng::new(seed ^ if stream == "C09" { 0xC09 } else { 0xC08 });
    for id in 0..n {
        if stream == "C09" && r.chance(6) {
            // union-find stress: edges in tournament order build a binomial tree of depth 3 or 4 inside connected_components /
            // min_spanning_tree (path compression then matters); 8 or 16 nodes, sometimes two copies, an isolated node, a relabelling
            let k = 3 + r.below(2); let m = 1usize << k;
            let mut es: Vec<(usize, usize, i64)> = Vec::new();
            if r.chance(50) { let mut size = 2; while size <= m { let mut b = 0; while b < m { es.push((b + size - 1, b + size / 2 - 1, 1)); b += size; } size *= 2; } }
            else { fn rec(lo: usize, size: usize, es: &mut Vec<(usize, usize, i64)>) { if size < 2 { return; } rec(lo, size / 2, es); rec(lo + size / 2, size / 2, es); es.push((lo + size - 1, lo + size / 2 - 1, 1)); } rec(0, m, &mut es); }
            let mut n = m;
            if r.chance(30) { let extra: Vec<_> = es.iter().map(|e| (e.0 + m, e.1 + m, 1)).collect(); es.extend(extra); n = 2 * m; }
            if r.chance(40) { n += 1; }
            if r.chance(40) { for e in es.iter_mut() { if r.chance(50) { *e = (e.1, e.0, e.2); } } }
            if r.chance(35) { let mut p: Vec<usize> = (0..n).collect(); shuffle(&mut r, &mut p); for e in es.iter_mut() { *e = (p[e.0], p[e.1], e.2); } }
            let a = AbsGraph { directed: r.chance(50), n, edges: es };
            out.stat("kind_unionfind_tournament");
            run_enc(stream, id, &a, 9, &mut r, out);
            continue;
        }
        let simple = r.chance(40);
        let nmax = if stream == "C09" { 10 } else { 9 };
        let a = gen_abs(&mut r, nmax, simple, true, 0, 20);
        let mut enc = r.below(9);
        let ok = match enc { 7 | 8 => true, e => enc_ok(e, &a, false) };
        if !ok { enc = r.below(3); }
        out.stat(if a.directed { "abs_directed" } else { "abs_undirected" });
        run_enc(stream, id, &a, enc, &mut r, out);
    }
}
