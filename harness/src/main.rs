//! pgh — correspondence harness: runs the real petgraph on generated inputs and
//! prints canonical observations, one per line, for comparison with the Coq model.
use std::env;
use std::fs::File;
use std::io::{BufWriter, Write};

mod rng;
mod c19;
mod c05;
mod c04;
mod c03;
mod c01;
mod enc;
mod c08;
mod c10;
mod c18;
mod c17;
mod c02;
mod c14;
mod c15;
mod c16;
mod c06;
mod c07;
mod c13;
mod c20;

pub struct Out {
    pub cases: BufWriter<File>,
    pub obs: BufWriter<File>,
    pub stats: std::collections::BTreeMap<String, u64>,
}
pub type GOp = (String, Vec<i64>);

impl Out {
    // ---- generic line grammar: `case id hdr..` / `mnemonic n..` / `end`; observations `tag n..` / `;` per op
    pub fn case(&mut self, id: usize, hdr: &[i64]) {
        let h: Vec<String> = hdr.iter().map(|x| x.to_string()).collect();
        writeln!(self.cases, "case {} {}", id, h.join(" ")).unwrap();
        writeln!(self.obs, "case {}", id).unwrap();
    }
    pub fn op(&mut self, o: &GOp) {
        let a: Vec<String> = o.1.iter().map(|x| x.to_string()).collect();
        writeln!(self.cases, "{} {}", o.0, a.join(" ")).unwrap();
        // the case file is flushed op by op: when the crate aborts or hangs, the unfinished last case names the input
        self.cases.flush().unwrap();
        self.stat(&format!("op_{}", o.0));
    }
    pub fn obs_lines(&mut self, lines: &[String]) {
        for l in lines {
            writeln!(self.obs, "{}", l).unwrap();
            let t = l.split_whitespace().next().unwrap_or("").to_string();
            if t == "panic" || t == "err" || t == "none" || t == "notsorted" { self.stat(&format!("out_{}", t)); }
        }
        writeln!(self.obs, ";").unwrap();
    }
    pub fn end_case(&mut self) {
        writeln!(self.cases, "end").unwrap();
        writeln!(self.obs, "end").unwrap();
    }
    pub fn stat(&mut self, k: &str) {
        *self.stats.entry(k.to_string()).or_insert(0) += 1;
    }
    pub fn stat_add(&mut self, k: &str, n: u64) {
        *self.stats.entry(k.to_string()).or_insert(0) += n;
    }
}

fn main() {
    let args: Vec<String> = env::args().collect();
    if args.len() < 3 {
        eprintln!("usage: pgh <prop> gen <seed> <n> <outdir> | pgh <prop> replay <casefile> <outdir>");
        std::process::exit(2);
    }
    // silence panic messages: panics are observations here
    if std::env::var("PGH_DEBUG").is_err() { std::panic::set_hook(Box::new(|_| {})); }
    let prop = args[1].as_str();
    let mode = args[2].as_str();
    let outdir = args.last().unwrap().clone();
    std::fs::create_dir_all(&outdir).unwrap();
    let mut out = Out {
        cases: BufWriter::new(File::create(format!("{}/cases.txt", outdir)).unwrap()),
        obs: BufWriter::new(File::create(format!("{}/impl.obs", outdir)).unwrap()),
        stats: Default::default(),
    };
    match mode {
        "gen" => {
            let seed: u64 = args[3].parse().unwrap();
            let n: usize = args[4].parse().unwrap();
            match prop {
                "C19" => c19::gen(seed, n, &mut out),
                "C08" | "C09" => c08::gen(prop, seed, n, &mut out),
                "C10" | "C11" | "C12" => c10::gen(prop, seed, n, &mut out),
                "C17g" | "C17s" => c17::gen(prop, seed, n, &mut out),
                "C18g6" => c18::gen_g6(seed, n, &mut out),
                "C18dot" => c18::gen_dot(seed, n, &mut out),
                "C01" => c01::gen(seed, n, &mut out),
                "C02" => c02::gen(seed, n, &mut out),
                "C14" => c14::gen(seed, n, &mut out),
                "C15" => c15::gen(seed, n, &mut out),
                "C16" => c16::gen(seed, n, &mut out),
                "C06" => c06::gen(seed, n, &mut out),
                "C07" => c07::gen(seed, n, &mut out),
                "C13" | "C13v" => c13::gen(prop, seed, n, &mut out),
                "C20" => c20::gen(seed, n, &mut out),
                "C03" => c03::gen(seed, n, &mut out),
                "C17m" => c03::gen_serde(seed, n, &mut out),
                "C04" => c04::gen(seed, n, &mut out),
                "C05csr" => c05::gen_csr(seed, n, &mut out),
                "C05list" => c05::gen_list(seed, n, &mut out),
                _ => { eprintln!("unknown property {}", prop); std::process::exit(2); }
            }
        }
        "replay" => {
            let text = std::fs::read_to_string(&args[3]).unwrap();
            match prop {
                "C19" => c19::replay(&text, &mut out),
                "C01" => for (id, h, ops) in parse_generic(&text) { c01::run_case(id, &h, &ops, &mut out) },
                "C17g" | "C17s" => for (id, h, ops) in parse_generic(&text) { c17::run_case(prop, id, &h, &ops, &mut out) },
                "C02" => for (id, h, ops) in parse_generic(&text) { c02::run_case(id, &h, &ops, &mut out) },
                "C14" => for (id, h, ops) in parse_generic(&text) { c14::run_case(id, &h, &ops, &mut out) },
                "C03" | "C17m" => for (id, h, ops) in parse_generic(&text) { c03::run_case(id, &h, &ops, &mut out) },
                "C04" => for (id, h, ops) in parse_generic(&text) { c04::run_case(id, &h, &ops, &mut out) },
                "C05csr" => for (id, h, ops) in parse_generic(&text) { c05::run_csr_case(id, &h, &ops, &mut out) },
                "C05list" => for (id, h, ops) in parse_generic(&text) { c05::run_list_case(id, &h, &ops, &mut out) },
                _ => { eprintln!("unknown property {}", prop); std::process::exit(2); }
            }
        }
        _ => { eprintln!("unknown mode"); std::process::exit(2); }
    }
    out.cases.flush().unwrap();
    out.obs.flush().unwrap();
    let mut st = File::create(format!("{}/stats.json", outdir)).unwrap();
    let body: Vec<String> = out.stats.iter().map(|(k, v)| format!("\"{}\": {}", k, v)).collect();
    writeln!(st, "{{{}}}", body.join(", ")).unwrap();
}

pub fn line(tag: &str, nums: &[i64]) -> String {
    let mut s = String::from(tag);
    for n in nums { s.push(' '); s.push_str(&n.to_string()); }
    s
}

pub fn parse_generic(text: &str) -> Vec<(usize, Vec<i64>, Vec<GOp>)> {
    let mut res = Vec::new();
    let mut cur: Option<(usize, Vec<i64>, Vec<GOp>)> = None;
    for l in text.lines() {
        let l = l.trim();
        if l.is_empty() || l.starts_with('#') { continue; }
        let t: Vec<&str> = l.split_whitespace().collect();
        if t[0] == "case" {
            cur = Some((t[1].parse().unwrap(), t[2..].iter().map(|x| x.parse().unwrap()).collect(), Vec::new()));
        } else if l == "end" {
            res.push(cur.take().unwrap());
        } else {
            cur.as_mut().unwrap().2.push((t[0].to_string(), t[1..].iter().map(|x| x.parse().unwrap()).collect()));
        }
    }
    res
}
