//! pgh — correspondence harness: runs the real petgraph on generated inputs and
//! prints canonical observations, one per line, for comparison with the Coq model.
use std::env;
use std::fs::File;
use std::io::{BufWriter, Write};

mod rng;
mod c19;

pub struct Out {
    pub cases: BufWriter<File>,
    pub obs: BufWriter<File>,
    pub stats: std::collections::BTreeMap<String, u64>,
}
impl Out {
    pub fn stat(&mut self, k: &str) {
        *self.stats.entry(k.to_string()).or_insert(0) += 1;
    }
    pub fn stat_add(&mut self, k: &str, n: u64) {
        *self.stats.entry(k.to_string()).or_insert(0) += n;
    }
}

fn main() {
    let args: Vec<String> = env::args().collect();
    if args.len() < 3 {
        eprintln!("usage: pgh <prop> gen <seed> <n> <outdir> | pgh <prop> replay <casefile> <outdir>");
        std::process::exit(2);
    }
    // silence panic messages: panics are observations here
    std::panic::set_hook(Box::new(|_| {}));
    let prop = args[1].as_str();
    let mode = args[2].as_str();
    let outdir = args.last().unwrap().clone();
    std::fs::create_dir_all(&outdir).unwrap();
    let mut out = Out {
        cases: BufWriter::new(File::create(format!("{}/cases.txt", outdir)).unwrap()),
        obs: BufWriter::new(File::create(format!("{}/impl.obs", outdir)).unwrap()),
        stats: Default::default(),
    };
    match mode {
        "gen" => {
            let seed: u64 = args[3].parse().unwrap();
            let n: usize = args[4].parse().unwrap();
            match prop {
                "C19" => c19::gen(seed, n, &mut out),
                _ => { eprintln!("unknown property {}", prop); std::process::exit(2); }
            }
        }
        "replay" => {
            let text = std::fs::read_to_string(&args[3]).unwrap();
            match prop {
                "C19" => c19::replay(&text, &mut out),
                _ => { eprintln!("unknown property {}", prop); std::process::exit(2); }
            }
        }
        _ => { eprintln!("unknown mode"); std::process::exit(2); }
    }
    out.cases.flush().unwrap();
    out.obs.flush().unwrap();
    let mut st = File::create(format!("{}/stats.json", outdir)).unwrap();
    let body: Vec<String> = out.stats.iter().map(|(k, v)| format!("\"{}\": {}", k, v)).collect();
    writeln!(st, "{{{}}}", body.join(", ")).unwrap();
}
