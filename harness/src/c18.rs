//! C18: graph6 encode/decode on the five supported types, and Dot output.
use crate::rng::Rng;
use crate::{line, GOp, Out};
use petgraph::csr::Csr;
use petgraph::dot::{Config, Dot, RankDir};
use petgraph::graph::Graph;
use petgraph::graph6::{FromGraph6, ToGraph6};
use petgraph::graphmap::GraphMap;
use petgraph::matrix_graph::MatrixGraph;
use petgraph::stable_graph::StableGraph;
use petgraph::visit::{EdgeRef, IntoEdgeReferences, IntoNodeIdentifiers, NodeIndexable};
use petgraph::{Directed, EdgeType, Undirected};
use std::collections::hash_map::RandomState;
use std::collections::HashSet;
use std::panic::{catch_unwind, AssertUnwindSafe};

/// adjacency bits in upper-triangle order, from node-iteration order and an edge set given in those positions
fn upper_bits(n: usize, adj: &HashSet<(usize, usize)>) -> Vec<i64> {
    let mut v = Vec::new();
    for col in 1..n { for lin in 0..col { v.push((adj.contains(&(lin, col)) || adj.contains(&(col, lin))) as i64); } }
    v
}

/// positions (in node-iteration order) of the endpoints of every edge: an independent reading of the graph
fn adj_positions<G>(g: G) -> (usize, HashSet<(usize, usize)>)
where G: IntoNodeIdentifiers + IntoEdgeReferences + NodeIndexable {
    let ids: Vec<usize> = g.node_identifiers().map(|x| g.to_index(x)).collect();
    let pos = |i: usize| ids.iter().position(|x| *x == i).unwrap();
    let mut s = HashSet::new();
    for e in g.edge_references() { s.insert((pos(g.to_index(e.source())), pos(g.to_index(e.target())))); }
    (ids.len(), s)
}

fn dec_line(n: usize, adj: &HashSet<(usize, usize)>) -> String {
    let mut v = vec![n as i64];
    for col in 1..n { for lin in 0..col { if adj.contains(&(lin, col)) || adj.contains(&(col, lin)) { v.push(lin as i64); v.push(col as i64); } } }
    line("dec", &v)
}

pub fn gen_g6(seed: u64, cases: usize, out: &mut Out) {
    let mut r = Rng::new(seed ^ 0xC186);
    for id in 0..cases {
        let ty = r.below(5);
        // sizes cross the 62/63 header switch
        let mut n = match r.below(10) { 0 => 0, 1 => 1, 2 => 62, 3 => 63, 4 => 64, 5 => 60 + r.below(11), _ => 2 + r.below(14) };
        let mut dens = [2usize, 10, 30, 50, 90][r.below(5)];
        // orders whose 18-bit header needs more than one byte of value (a few, sparse: the adjacency has ~40000 bits)
        if id % 40 == 7 { n = [255usize, 256, 257, 300, 511, 513][r.below(6)]; dens = 1; }
        let mut es: Vec<(usize, usize)> = Vec::new();
        // endpoints in either order, edges in any order: the encoding may depend on neither
        for a in 0..n { for b in 0..a { if r.below(100) < dens { es.push(if r.chance(50) { (b, a) } else { (a, b) }); } } }
        if r.chance(70) { crate::enc::shuffle(&mut r, &mut es); }
        out.case(id, &[cfg!(debug_assertions) as i64, ty as i64]);
        macro_rules! both {
            ($g:expr, $T:ty) => {{
                let g = $g;
                let (nn, adj) = adj_positions(&g);
                let mut a = vec![nn as i64]; a.extend(upper_bits(nn, &adj));
                let op: GOp = ("g6".into(), a);
                out.op(&op);
                let s = catch_unwind(AssertUnwindSafe(|| g.graph6_string()));
                match &s { Ok(s) => out.obs_lines(&[line("bytes", &s.bytes().map(|b| b as i64).collect::<Vec<_>>())]), Err(_) => out.obs_lines(&["panic".to_string()]) }
                if let Ok(s) = s {
                    let op2: GOp = ("g6d".into(), s.bytes().map(|b| b as i64).collect());
                    out.op(&op2);
                    let back = catch_unwind(AssertUnwindSafe(|| { let h: $T = FromGraph6::from_graph6_string(s.clone()); let (n2, adj2) = adj_positions(&h); dec_line(n2, &adj2) }));
                    match back { Ok(l) => out.obs_lines(&[l]), Err(_) => out.obs_lines(&["panic".to_string()]) }
                }
            }};
        }
        match ty {
            0 => { let mut g: Graph<(), (), Undirected, u32> = Graph::default(); let ix: Vec<_> = (0..n).map(|_| g.add_node(())).collect(); for (a, b) in &es { g.add_edge(ix[*a], ix[*b], ()); } both!(g, Graph<(), (), Undirected, u32>) }
            1 => {
                // StableGraph with vacancies below node_bound
                let mut g: StableGraph<(), (), Undirected, u32> = StableGraph::default();
                let mut ix = Vec::new(); let mut dummies = Vec::new();
                for _ in 0..n { if r.chance(30) { dummies.push(g.add_node(())); } ix.push(g.add_node(())); }
                for (a, b) in &es { if r.chance(10) && !dummies.is_empty() { g.add_edge(ix[*a], dummies[0], ()); } g.add_edge(ix[*a], ix[*b], ()); }
                for d in dummies { g.remove_node(d); }
                both!(g, StableGraph<(), (), Undirected, u32>)
            }
            2 => { let mut g: GraphMap<u32, (), Undirected, RandomState> = GraphMap::default(); let mut order: Vec<usize> = (0..n).collect(); crate::enc::shuffle(&mut r, &mut order); for i in &order { g.add_node(5 * *i as u32 + 2); } for (a, b) in &es { g.add_edge(5 * *a as u32 + 2, 5 * *b as u32 + 2, ()); } both!(g, GraphMap<u32, (), Undirected, RandomState>) }
            3 => { let mut g: MatrixGraph<u32, (), RandomState, Undirected, Option<()>, u16> = MatrixGraph::default(); let ix: Vec<_> = (0..n).map(|i| g.add_node(i as u32)).collect(); for (a, b) in &es { g.update_edge(ix[*a], ix[*b], ()); } both!(g, MatrixGraph<(), (), RandomState, Undirected, Option<()>, u16>) }
            _ => { let mut g: Csr<(), (), Undirected, u32> = Csr::with_nodes(n); for (a, b) in &es { g.add_edge(*a as u32, *b as u32, ()); } both!(g, Csr<(), (), Undirected, u32>) }
        }
        out.end_case();
        out.stat(&format!("type_{}", ty));
        out.stat(if n >= 63 { "n_ge63" } else { "n_lt63" });
    }
}

const ALPHABET: [&str; 14] = ["\"", "\\", "\n", "a", "{", "}", ";", "->", " ", "]", "\\\"", "l", "\u{e9}", "\u{2192}"];

fn rand_string(r: &mut Rng) -> String {
    let k = r.below(6);
    (0..k).map(|_| ALPHABET[r.below(ALPHABET.len())]).collect()
}

fn chars(s: &str) -> Vec<i64> { s.chars().map(|c| c as i64).collect() }

fn dot_case<Ty: EdgeType>(id: usize, r: &mut Rng, out: &mut Out) {
    let stable = r.chance(40);
    let n = r.below(5);
    let mode = r.below(3);       // 0 Display, 1 Debug, 2 alternate Debug
    let bits = r.below(32);
    let rd = r.below(5);
    let mut cfg = Vec::new();
    if bits & 1 != 0 { cfg.push(Config::NodeIndexLabel); }
    if bits & 2 != 0 { cfg.push(Config::EdgeIndexLabel); }
    if bits & 4 != 0 { cfg.push(Config::EdgeNoLabel); }
    if bits & 8 != 0 { cfg.push(Config::NodeNoLabel); }
    if bits & 16 != 0 { cfg.push(Config::GraphContentOnly); }
    match rd { 1 => cfg.push(Config::RankDir(RankDir::TB)), 2 => cfg.push(Config::RankDir(RankDir::BT)), 3 => cfg.push(Config::RankDir(RankDir::LR)), 4 => cfg.push(Config::RankDir(RankDir::RL)), _ => {} }
    let nw: Vec<String> = (0..n).map(|_| rand_string(r)).collect();
    let mut es: Vec<(usize, usize, String)> = Vec::new();
    if n > 0 { for _ in 0..r.below(5) { es.push((r.below(n), r.below(n), rand_string(r))); } }
    let fmtw = |s: &String| -> String { match mode { 0 => format!("{}", s), 1 => format!("{:?}", s), _ => format!("{:#?}", s) } };
    out.case(id, &[Ty::is_directed() as i64, (mode == 2) as i64, bits as i64, rd as i64]);
    let text;
    let mut ops: Vec<GOp> = Vec::new();
    if stable {
        let mut g: StableGraph<String, String, Ty, u32> = StableGraph::default();
        let hole = g.add_node("hole".into());
        let ix: Vec<_> = nw.iter().map(|w| g.add_node(w.clone())).collect();
        for (a, b, w) in &es { g.add_edge(ix[*a], ix[*b], w.clone()); }
        g.remove_node(hole);
        for (i, w) in ix.iter().zip(nw.iter()) { let mut v = vec![i.index() as i64]; v.extend(chars(&fmtw(w))); ops.push(("dn".into(), v)); }
        for e in g.edge_references() { let mut v = vec![e.source().index() as i64, e.target().index() as i64]; v.extend(chars(&fmtw(e.weight()))); ops.push(("de".into(), v)); }
        let d = Dot::with_config(&g, &cfg);
        text = match catch_unwind(AssertUnwindSafe(|| match mode { 0 => format!("{}", d), 1 => format!("{:?}", d), _ => format!("{:#?}", d) })) { Ok(t) => t, Err(_) => "\u{1}PANIC".to_string() };
    } else {
        let mut g: Graph<String, String, Ty, u32> = Graph::default();
        let ix: Vec<_> = nw.iter().map(|w| g.add_node(w.clone())).collect();
        for (a, b, w) in &es { g.add_edge(ix[*a], ix[*b], w.clone()); }
        for (i, w) in ix.iter().zip(nw.iter()) { let mut v = vec![i.index() as i64]; v.extend(chars(&fmtw(w))); ops.push(("dn".into(), v)); }
        for e in g.edge_references() { let mut v = vec![e.source().index() as i64, e.target().index() as i64]; v.extend(chars(&fmtw(e.weight()))); ops.push(("de".into(), v)); }
        let d = Dot::with_config(&g, &cfg);
        text = match catch_unwind(AssertUnwindSafe(|| match mode { 0 => format!("{}", d), 1 => format!("{:?}", d), _ => format!("{:#?}", d) })) { Ok(t) => t, Err(_) => "\u{1}PANIC".to_string() };
    }
    for o in &ops { out.op(o); out.obs_lines(&[]); }
    out.op(&("render".into(), vec![]));
    out.obs_lines(&[line("text", &chars(&text))]);
    out.end_case();
    out.stat(&format!("mode_{}", mode));
    out.stat(if stable { "stable_with_hole" } else { "graph" });
}

pub fn gen_dot(seed: u64, cases: usize, out: &mut Out) {
    let mut r = Rng::new(seed ^ 0xC18D);
    for id in 0..cases { if r.chance(50) { dot_case::<Directed>(id, &mut r, out) } else { dot_case::<Undirected>(id, &mut r, out) } }
}
