//! C07: one abstract graph, every encoding, one panel of algorithms.  A case holds all encodings: each starts with a
//! `reset` op carrying the view header, then the view dump, an `nmap` op (index -> abstract node id) and the queries,
//! whose node arguments are the encoding's indices of the same abstract nodes.
use crate::c08::{query_compact, query_dir, query_dir2, query_er, query_ids, query_nb};
use crate::c10::{q_cost, q_float, q_mst, WAsI64};
use crate::c15::q_match;
use crate::c16::{q_art, q_dom};
use crate::enc::*;
use crate::rng::Rng;
use crate::{GOp, Out};
use petgraph::visit::{EdgeCount, EdgeIndexable, EdgeRef, IntoNodeIdentifiers, IntoNodeReferences, NodeIndexable, NodeRef};
use petgraph::{Directed, Undirected};
use std::panic::{catch_unwind, AssertUnwindSafe};

/// abstract queries: (name, node-valued argument positions, args with abstract ids)
fn gen_queries(r: &mut Rng, a: &AbsGraph) -> Vec<(String, Vec<usize>, Vec<i64>)> {
    let mut qs = Vec::new();
    if a.n == 0 { return qs; }
    let pick = |r: &mut Rng| r.below(a.n) as i64;
    let s = pick(r); let t = pick(r);
    qs.push(("dfs".into(), vec![0], vec![s]));
    qs.push(("bfs".into(), vec![0], vec![s]));
    qs.push(("has_path".into(), vec![0, 1], vec![s, t]));
    qs.push(("is_cyclic_directed".into(), vec![], vec![]));
    qs.push(("is_cyclic_undirected".into(), vec![], vec![]));
    qs.push(("connected_components".into(), vec![], vec![]));
    qs.push(("tarjan".into(), vec![], vec![]));
    qs.push(("toposort".into(), vec![], vec![]));
    qs.push(("kosaraju".into(), vec![], vec![]));
    qs.push(("dijkstra".into(), vec![0], vec![s, -1]));
    qs.push(("bellman_ford".into(), vec![0], vec![s]));
    qs.push(("spfa".into(), vec![0], vec![s]));
    qs.push(("kruskal".into(), vec![], vec![]));
    qs.push(("greedy_matching".into(), vec![], vec![]));
    qs.push(("maximum_matching".into(), vec![], vec![]));
    if a.directed { qs.push(("simple_fast".into(), vec![0], vec![s])); }
    else { qs.push(("bipartite".into(), vec![0], vec![s])); qs.push(("articulation_points".into(), vec![], vec![])); }
    qs
}

fn answer(out: &mut Out, q: &GOp, r: std::thread::Result<Option<Vec<String>>>) {
    out.op(q);
    match r { Ok(Some(s)) => out.obs_lines(&s), Ok(None) => out.obs_lines(&["unsupported".to_string()]), Err(_) => out.obs_lines(&["panic".to_string()]) }
}

macro_rules! dir_q { (yes, $g:expr, $q:expr) => { query_dir($g, $q).map(|s| vec![s]).or_else(|| query_dir2($g, $q)) }; (no, $g:expr, $q:expr) => { None::<Vec<String>> }; }
macro_rules! cmp_q { (yes, $g:expr, $q:expr) => { query_compact($g, $q) }; (no, $g:expr, $q:expr) => { None::<Vec<String>> }; }
macro_rules! art_q { (yes, $g:expr, $q:expr) => { q_art($g, $q) }; (no, $g:expr, $q:expr) => { None::<Vec<String>> }; }

macro_rules! panel {
    ($g:expr, $gf:expr, $eid:expr, $ecount:expr, $ebound:expr, $enc:expr, $absq:expr, $out:expr, $absid:expr, dir: $dir:tt, compact: $cmp:tt, art: $art:tt, dump: $dump:ident) => {{
        let g = $g; let gf = $gf;
        let (hdr, ops) = $dump(g, $eid, $ecount, $ebound, &[$enc as i64]);
        $out.op(&("reset".into(), hdr.clone())); $out.obs_lines(&[]);
        for o in &ops { $out.op(o); $out.obs_lines(&[]); }
        // index -> abstract id, read from the node weights
        let mut nm = Vec::new();
        let mut of_abs = std::collections::HashMap::new();
        for n in g.node_references() { let i = NodeIndexable::to_index(&g, n.id()) as i64; let w = ($absid)(i, WAsI64::as_i64(n.weight())); nm.push(i); nm.push(w); of_abs.insert(w, i); }
        $out.op(&("nmap".into(), nm)); $out.obs_lines(&[]);
        let nodew: Vec<i64> = g.node_references().map(|n| WAsI64::as_i64(n.weight())).collect();
        for (name, pos, args) in $absq.iter() {
            let mut a2 = args.clone();
            let mut ok = true;
            for &p in pos { match of_abs.get(&args[p]) { Some(i) => a2[p] = *i, None => ok = false } }
            if !ok { continue; }
            if name == "kruskal" { a2 = nodew.clone(); }
            let q: GOp = (name.clone(), a2);
            let res = catch_unwind(AssertUnwindSafe(|| {
                query_nb(g, &q).map(|s| vec![s]).or_else(|| query_ids(g, &q)).or_else(|| query_er(g, &q))
                    .or_else(|| dir_q!($dir, g, &q)).or_else(|| cmp_q!($cmp, g, &q))
                    .or_else(|| q_cost(g, &q)).or_else(|| q_float(gf, &q)).or_else(|| q_mst(g, &q))
                    .or_else(|| q_match(g, &q)).or_else(|| q_dom(g, &q)).or_else(|| art_q!($art, g, &q))
            }));
            answer($out, &q, res);
        }
    }};
}

fn f(w: i64) -> f64 { w as f64 }


pub fn gen(seed: u64, n: usize, out: &mut Out) {
    let mut r = Rng::new(seed ^ 0xC07);
    for id in 0..n {
        let simple = r.chance(60);
        let a = gen_abs(&mut r, 8, simple, true, 0, 9);
        let absq = gen_queries(&mut r, &a);
        out.case(id, &[a.directed as i64, a.n as i64, a.edges.len() as i64, cfg!(debug_assertions) as i64, 0, cfg!(debug_assertions) as i64]);
        macro_rules! ty { ($f:ident) => { if a.directed { $f!(Directed, yes) } else { $f!(Undirected, yes) } }; }
        // Graph, two index widths
        { macro_rules! go { ($t:ty, $y:tt) => {{ let mut r2 = r.clone(); let g = build_graph::<$t, u32>(&a, &mut r); let gf = build_graph_w::<$t, u32, f64>(&a, &mut r2, f);
            panel!(&g, &gf, |e| e.id().index(), g.edge_count(), g.edge_bound(), 0, absq, out, |_i: i64, w: i64| w, dir: yes, compact: yes, art: yes, dump: dump_view) }}; } ty!(go) }
        { macro_rules! go { ($t:ty, $y:tt) => {{ let mut r2 = r.clone(); let g = build_graph::<$t, u8>(&a, &mut r); let gf = build_graph_w::<$t, u8, f64>(&a, &mut r2, f);
            panel!(&g, &gf, |e| e.id().index(), g.edge_count(), g.edge_bound(), 1, absq, out, |_i: i64, w: i64| w, dir: yes, compact: yes, art: yes, dump: dump_view) }}; } ty!(go) }
        // StableGraph with vacancies
        { macro_rules! go { ($t:ty, $y:tt) => {{ let mut r2 = r.clone(); let g = build_stable::<$t, u32>(&a, &mut r); let gf = build_stable_w::<$t, u32, f64>(&a, &mut r2, f);
            panel!(&g, &gf, |e| e.id().index(), g.edge_count(), g.edge_bound(), 2, absq, out, |_i: i64, w: i64| w, dir: yes, compact: no, art: yes, dump: dump_view) }}; } ty!(go) }
        if a.is_simple() {
            { macro_rules! go { ($t:ty, $y:tt) => {{ let mut r2 = r.clone(); let g = build_graphmap::<$t>(&a, &mut r); let gf = build_graphmap_w::<$t, f64>(&a, &mut r2, f);
                panel!(&g, &gf, |e| EdgeIndexable::to_index(&g, e.id()), g.edge_count(), EdgeIndexable::edge_bound(&g), 3, absq, out, |_i: i64, w: i64| (w - 1) / 3, dir: yes, compact: yes, art: yes, dump: dump_view) }}; } ty!(go) }
            { macro_rules! go { ($t:ty, $y:tt) => {{ let mut r2 = r.clone(); let g = build_csr::<$t, u32>(&a, &mut r); let gf = build_csr_w::<$t, u32, f64>(&a, &mut r2, f);
                panel!(&g, &gf, |e| e.id(), EdgeCount::edge_count(&g), 0, 4, absq, out, |i: i64, _w: i64| i, dir: no, compact: yes, art: yes, dump: dump_view_out) }}; } ty!(go) }
            if a.directed { let mut r2 = r.clone(); let g = build_matrix::<Directed, u16>(&a, &mut r); let gf = build_matrix_w::<Directed, u16, f64>(&a, &mut r2, f);
                panel!(&g, &gf, |e| e.id().0.index() * 1000 + e.id().1.index(), g.edge_count(), 0, 6, absq, out, |_i: i64, w: i64| w, dir: yes, compact: no, art: yes, dump: dump_view) }
            else { let mut r2 = r.clone(); let g = build_matrix::<Undirected, u16>(&a, &mut r); let gf = build_matrix_w::<Undirected, u16, f64>(&a, &mut r2, f);
                panel!(&g, &gf, |e| e.id().0.index() * 1000 + e.id().1.index(), g.edge_count(), 0, 6, absq, out, |_i: i64, w: i64| w, dir: no, compact: no, art: yes, dump: dump_view_out) }
        }
        if a.directed { let mut r2 = r.clone(); let g = build_list::<u32>(&a, &mut r); let gf = build_list_w::<u32, f64>(&a, &mut r2, f);
            panel!(&g, &gf, |e| petgraph::visit::IntoEdgeReferences::edge_references(&g).position(|x| x.id() == e.id()).unwrap_or(9999), EdgeCount::edge_count(&g), 0, 5, absq, out, |i: i64, _w: i64| i, dir: no, compact: yes, art: no, dump: dump_view_out) }
        out.end_case();
        out.stat(if a.directed { "abs_directed" } else { "abs_undirected" });
        out.stat(if a.is_simple() { "abs_simple" } else { "abs_multi" });
    }
}
