//! C06: what every graph type and adaptor shows through the visit traits, dumped trait by trait.
use crate::enc::*;
use crate::rng::Rng;
use crate::{line, GOp, Out};
use petgraph::graph::Frozen;
use petgraph::visit::{
    EdgeCount, EdgeFiltered, EdgeIndexable, EdgeRef, GetAdjacencyMatrix, GraphProp, IntoEdgeReferences, IntoEdges, IntoEdgesDirected,
    IntoNeighbors, IntoNeighborsDirected, IntoNodeIdentifiers, IntoNodeReferences, NodeCount, NodeFiltered, NodeIndexable, NodeRef,
    Reversed, UndirectedAdaptor, Visitable,
};
use petgraph::{Directed, Direction, Undirected};
use std::panic::{catch_unwind, AssertUnwindSafe};

pub trait W64 { fn w64(&self) -> i64; }
impl W64 for u32 { fn w64(&self) -> i64 { *self as i64 } }
impl W64 for i64 { fn w64(&self) -> i64 { *self } }
impl W64 for () { fn w64(&self) -> i64 { 0 } }

pub fn node_pred(p1: i64, p2: i64, n: usize) -> bool { (p1 >> (n % 20)) & 1 == 1 || p2 == n as i64 }
pub fn edge_pred(p1: i64, p2: i64, w: i64) -> bool { w.rem_euclid(p1.max(1)) != p2 }

macro_rules! opt_some { (yes, $e:expr) => { ($e) as i64 }; (no, $e:expr) => { -1i64 }; }
macro_rules! flag { (yes) => { 1i64 }; (no) => { 0i64 }; }
macro_rules! when { (yes, $b:block) => { $b }; (no, $b:block) => {}; }

/// The full trait dump of `g`: (header fields 0..4 and 7..11, view lines).  `eid` turns a reported edge
/// reference into a number; the flags say which optional traits the type implements.
macro_rules! dumpfv {
    ($g:expr, $eid:expr, incoming: $hin:tt, adj: $hadj:tt, ncount: $hnc:tt, ecount: $hec:tt, ebound: $heb:tt, compact: $cmp:tt, ids: $ids:tt) => {{
        let g = $g;
        let eid = $eid;
        let ix = |x| NodeIndexable::to_index(&g, x) as i64;
        let mut lines: Vec<(String, Vec<i64>)> = Vec::new();
        let hdr: Vec<i64> = vec![g.is_directed() as i64, NodeIndexable::node_bound(&g) as i64, g.visit_map().vcap(),
                                 opt_some!($hec, EdgeCount::edge_count(&g)), opt_some!($heb, EdgeIndexable::edge_bound(&g)),
                                 opt_some!($hnc, NodeCount::node_count(&g)), flag!($cmp), flag!($ids), flag!($hin), flag!($hadj)];
        let ids: Vec<_> = g.node_identifiers().collect();
        for &a in &ids { lines.push(("node".into(), vec![ix(a)])); }
        // from_index(to_index(x)) == x
        for &a in &ids { if NodeIndexable::from_index(&g, NodeIndexable::to_index(&g, a)) != a { lines.push(("index-roundtrip-mismatch".into(), vec![ix(a)])); } }
        let mut nr = Vec::new();
        for n in g.node_references() { nr.push(ix(n.id())); nr.push(W64::w64(n.weight())); }
        lines.push(("nrefs".into(), nr));
        for &a in &ids {
            let mut v = vec![ix(a)];
            for e in g.edges(a) { v.extend_from_slice(&[eid(e.id()) as i64, ix(e.source()), ix(e.target()), W64::w64(e.weight())]); }
            lines.push(("out".into(), v));
            let mut v = vec![ix(a)];
            v.extend(g.neighbors(a).map(|x| ix(x)));
            lines.push(("nb".into(), v));
        }
        when!($hin, {
            for &a in &ids {
                let mut v = vec![ix(a)];
                for e in g.edges_directed(a, Direction::Incoming) { v.extend_from_slice(&[eid(e.id()) as i64, ix(e.source()), ix(e.target()), W64::w64(e.weight())]); }
                lines.push(("in".into(), v));
                let mut v = vec![ix(a)];
                v.extend(g.neighbors_directed(a, Direction::Incoming).map(|x| ix(x)));
                lines.push(("nbin".into(), v));
                // Outgoing must agree with edges()/neighbors()
                let o1: Vec<i64> = g.edges_directed(a, Direction::Outgoing).flat_map(|e| vec![eid(e.id()) as i64, ix(e.source()), ix(e.target())]).collect();
                let o2: Vec<i64> = g.edges(a).flat_map(|e| vec![eid(e.id()) as i64, ix(e.source()), ix(e.target())]).collect();
                let n1: Vec<i64> = g.neighbors_directed(a, Direction::Outgoing).map(|x| ix(x)).collect();
                let n2: Vec<i64> = g.neighbors(a).map(|x| ix(x)).collect();
                if o1 != o2 || n1 != n2 { lines.push(("outgoing-vs-edges-mismatch".into(), vec![ix(a)])); }
            }
        });
        let mut er = Vec::new();
        for e in g.edge_references() { er.extend_from_slice(&[eid(e.id()) as i64, ix(e.source()), ix(e.target()), W64::w64(e.weight())]); }
        lines.push(("erefs".into(), er));
        when!($hadj, {
            let m = g.adjacency_matrix();
            for &a in &ids {
                let mut v = vec![ix(a)];
                for &b in &ids { if g.is_adjacent(&m, a, b) { v.push(ix(b)); } }
                lines.push(("adj".into(), v));
            }
        });
        (hdr, lines)
    }};
}

fn hdr_full(h: &[i64], kind: i64) -> Vec<i64> {
    // [directed; bound; vcap; ecount; ebound; debug; kind; ncount; compact; ids_ok; has_in; has_adj]
    vec![h[0], h[1], h[2], h[3], h[4], cfg!(debug_assertions) as i64, kind, h[5], h[6], h[7], h[8], h[9]]
}

fn obs_of(h: &[i64], lines: &[(String, Vec<i64>)]) -> Vec<String> {
    // the observation of an adaptor query: `vhdr`, `nodes`, `nrefs`, then per-node lines, `erefs`, `adj`
    let mut v = vec![line("vhdr", &[h[0], h[1], h[2], h[3], h[4], h[5], h[6]])];
    v.push(line("nodes", &lines.iter().filter(|l| l.0 == "node").map(|l| l.1[0]).collect::<Vec<_>>()));
    for tag in ["nrefs"] { for l in lines.iter().filter(|l| l.0 == tag) { v.push(line(tag, &l.1)); } }
    for tag in ["out", "nb", "in", "nbin", "erefs", "adj"] { for l in lines.iter().filter(|l| l.0 == tag) { v.push(line(tag, &l.1)); } }
    for l in lines.iter().filter(|l| l.0.contains("mismatch")) { v.push(l.0.clone()); }
    v
}

fn emit_base(out: &mut Out, id: usize, kind: i64, h: &[i64], lines: &[(String, Vec<i64>)]) {
    out.case(id, &hdr_full(h, kind));
    for l in lines {
        if l.0.contains("mismatch") { continue; }
        out.op(&(l.0.clone(), l.1.clone()));
        out.obs_lines(&[]);
    }
    let q: GOp = ("consistent".into(), vec![]);
    out.op(&q);
    let mut v = vec![line("nat", &[0])];
    for l in lines.iter().filter(|l| l.0.contains("mismatch")) { v.push(l.0.clone()); }
    out.obs_lines(&v);
}

fn emit_adaptor(out: &mut Out, q: GOp, r: std::thread::Result<(Vec<i64>, Vec<(String, Vec<i64>)>)>, expect_consistent: bool) {
    out.op(&q);
    match r {
        Ok((h, lines)) => { let mut v = vec![line("nat", &[if expect_consistent { 0 } else { -1 }])]; v.extend(obs_of(&h, &lines)); out.obs_lines(&v); }
        Err(_) => out.obs_lines(&["panic".to_string()]),
    }
}

/// adaptors over a base graph that has in-lists, an adjacency matrix and EdgeIndexable (Graph, StableGraph, GraphMap)
macro_rules! adaptors_full {
    ($g:expr, $eid:expr, $r:expr, $out:expr, compact: $cmp:tt) => {{
        let g = $g;
        let p1 = ($r.next() & 0xFFFFF) as i64; let p2 = $r.below(6) as i64;
        let m = 2 + $r.below(3) as i64; let mr = $r.below(m as usize) as i64;
        emit_adaptor($out, ("adaptor".into(), vec![1, 0, 0]), catch_unwind(AssertUnwindSafe(|| dumpfv!(Reversed(g), $eid, incoming: yes, adj: yes, ncount: yes, ecount: yes, ebound: yes, compact: $cmp, ids: yes))), true);
        emit_adaptor($out, ("adaptor".into(), vec![2, 0, 0]), catch_unwind(AssertUnwindSafe(|| dumpfv!(UndirectedAdaptor(g), $eid, incoming: no, adj: no, ncount: yes, ecount: no, ebound: no, compact: $cmp, ids: yes))), false);
        { let f = NodeFiltered::from_fn(g, |n| node_pred(p1, p2, NodeIndexable::to_index(&g, n)));
          emit_adaptor($out, ("adaptor".into(), vec![3, p1, p2]), catch_unwind(AssertUnwindSafe(|| dumpfv!(&f, $eid, incoming: yes, adj: no, ncount: no, ecount: no, ebound: yes, compact: no, ids: yes))), true);
          emit_adaptor($out, ("adaptor2".into(), vec![3, p1, p2, 1, 0, 0]), catch_unwind(AssertUnwindSafe(|| dumpfv!(Reversed(&f), $eid, incoming: yes, adj: no, ncount: no, ecount: no, ebound: yes, compact: no, ids: yes))), true);
          emit_adaptor($out, ("adaptor2".into(), vec![3, p1, p2, 2, 0, 0]), catch_unwind(AssertUnwindSafe(|| dumpfv!(UndirectedAdaptor(&f), $eid, incoming: no, adj: no, ncount: no, ecount: no, ebound: no, compact: no, ids: yes))), false);
          let f2 = EdgeFiltered::from_fn(&f, |e| edge_pred(m, mr, W64::w64(e.weight())));
          emit_adaptor($out, ("adaptor2".into(), vec![3, p1, p2, 4, m, mr]), catch_unwind(AssertUnwindSafe(|| dumpfv!(&f2, $eid, incoming: yes, adj: no, ncount: no, ecount: no, ebound: yes, compact: no, ids: yes))), true);
        }
        { let f = EdgeFiltered::from_fn(g, |e| edge_pred(m, mr, W64::w64(e.weight())));
          emit_adaptor($out, ("adaptor".into(), vec![4, m, mr]), catch_unwind(AssertUnwindSafe(|| dumpfv!(&f, $eid, incoming: yes, adj: no, ncount: yes, ecount: no, ebound: yes, compact: $cmp, ids: yes))), true);
          emit_adaptor($out, ("adaptor2".into(), vec![4, m, mr, 1, 0, 0]), catch_unwind(AssertUnwindSafe(|| dumpfv!(Reversed(&f), $eid, incoming: yes, adj: no, ncount: yes, ecount: no, ebound: yes, compact: $cmp, ids: yes))), true);
          let f2 = NodeFiltered::from_fn(&f, |n| node_pred(p1, p2, NodeIndexable::to_index(&g, n)));
          emit_adaptor($out, ("adaptor2".into(), vec![4, m, mr, 3, p1, p2]), catch_unwind(AssertUnwindSafe(|| dumpfv!(&f2, $eid, incoming: yes, adj: no, ncount: no, ecount: no, ebound: yes, compact: no, ids: yes))), true);
        }
        { let rv = Reversed(g);
          let f = NodeFiltered::from_fn(rv, |n| node_pred(p1, p2, NodeIndexable::to_index(&g, n)));
          emit_adaptor($out, ("adaptor2".into(), vec![1, 0, 0, 3, p1, p2]), catch_unwind(AssertUnwindSafe(|| dumpfv!(&f, $eid, incoming: yes, adj: no, ncount: no, ecount: no, ebound: yes, compact: no, ids: yes))), true);
          let f = EdgeFiltered::from_fn(rv, |e| edge_pred(m, mr, W64::w64(e.weight())));
          emit_adaptor($out, ("adaptor2".into(), vec![1, 0, 0, 4, m, mr]), catch_unwind(AssertUnwindSafe(|| dumpfv!(&f, $eid, incoming: yes, adj: no, ncount: yes, ecount: no, ebound: yes, compact: $cmp, ids: yes))), true);
          emit_adaptor($out, ("adaptor2".into(), vec![1, 0, 0, 1, 0, 0]), catch_unwind(AssertUnwindSafe(|| dumpfv!(Reversed(rv), $eid, incoming: yes, adj: yes, ncount: yes, ecount: yes, ebound: yes, compact: $cmp, ids: yes))), true);
          emit_adaptor($out, ("adaptor2".into(), vec![1, 0, 0, 2, 0, 0]), catch_unwind(AssertUnwindSafe(|| dumpfv!(UndirectedAdaptor(rv), $eid, incoming: no, adj: no, ncount: yes, ecount: no, ebound: no, compact: $cmp, ids: yes))), false);
        }
    }};
}

pub fn gen(seed: u64, n: usize, out: &mut Out) {
    let mut r = Rng::new(seed ^ 0xC06);
    for id in 0..n {
        let simple = r.chance(50);
        let a = gen_abs(&mut r, 8, simple, true, 0, 9);
        let kinds = [0usize, 0, 1, 1, 2, 3, 4, 5];
        let mut kind = kinds[r.below(8)];
        if kind == 2 && !a.is_simple() { kind = 1; }
        if (kind == 3 || kind == 4) && !a.is_simple() { kind = 0; }
        if kind == 5 && !a.directed { kind = 0; }
        macro_rules! ty { ($f:ident) => { if a.directed { $f!(Directed) } else { $f!(Undirected) } }; }
        match kind {
            0 => { macro_rules! go { ($t:ty) => {{
                       let mut g = build_graph::<$t, u32>(&a, &mut r);
                       // a reachable state: swap-removals renumber nodes and edges
                       for _ in 0..r.below(3) { if g.node_count() > 1 && r.chance(60) { let k = r.below(g.node_count()); g.remove_node(petgraph::graph::NodeIndex::new(k)); } if g.edge_count() > 0 && r.chance(50) { let k = r.below(g.edge_count()); g.remove_edge(petgraph::graph::EdgeIndex::new(k)); } }
                       if r.chance(12) {
                           // clear_edges, then new edges on the old indices: stale list heads would come alive
                           let pairs: Vec<(usize, usize, i64)> = g.edge_references().map(|e| (e.target().index(), e.source().index(), *e.weight())).collect();
                           g.clear_edges();
                           for (s, t, w) in pairs.iter().rev().take(1 + r.below(4)) { if *s < g.node_count() && *t < g.node_count() { g.add_edge(petgraph::graph::NodeIndex::new(*s), petgraph::graph::NodeIndex::new(*t), *w); } }
                           out.stat("graph_clear_edges_history");
                       }
                       let (h, l) = dumpfv!(&g, |e: petgraph::graph::EdgeIndex<u32>| e.index(), incoming: yes, adj: yes, ncount: yes, ecount: yes, ebound: yes, compact: yes, ids: yes);
                       emit_base(out, id, 0, &h, &l);
                       adaptors_full!(&g, |e: petgraph::graph::EdgeIndex<u32>| e.index(), &mut r, out, compact: yes);
                       { let mut g2 = g.clone(); let fz = Frozen::new(&mut g2);
                         emit_adaptor(out, ("adaptor".into(), vec![5, 0, 0]), catch_unwind(AssertUnwindSafe(|| dumpfv!(&fz, |e: petgraph::graph::EdgeIndex<u32>| e.index(), incoming: yes, adj: yes, ncount: yes, ecount: yes, ebound: yes, compact: yes, ids: yes))), true); }
                       out.end_case(); }}; } ty!(go) }
            1 => { macro_rules! go { ($t:ty) => {{
                       let g = build_stable::<$t, u32>(&a, &mut r);
                       let (h, l) = dumpfv!(&g, |e: petgraph::graph::EdgeIndex<u32>| e.index(), incoming: yes, adj: yes, ncount: yes, ecount: yes, ebound: yes, compact: no, ids: yes);
                       emit_base(out, id, 1, &h, &l);
                       adaptors_full!(&g, |e: petgraph::graph::EdgeIndex<u32>| e.index(), &mut r, out, compact: no);
                       out.end_case(); }}; } ty!(go) }
            2 => { macro_rules! go { ($t:ty) => {{
                       let mut g = build_graphmap::<$t>(&a, &mut r);
                       if g.node_count() > 2 && r.chance(40) { let k = 3 * r.below(a.n) as u32 + 1; g.remove_node(k); }
                       let gr = &g;
                       let (h, l) = dumpfv!(gr, |e: (u32, u32)| EdgeIndexable::to_index(gr, e), incoming: yes, adj: yes, ncount: yes, ecount: yes, ebound: yes, compact: yes, ids: yes);
                       emit_base(out, id, 2, &h, &l);
                       adaptors_full!(gr, |e: (u32, u32)| EdgeIndexable::to_index(gr, e), &mut r, out, compact: yes);
                       out.end_case(); }}; } ty!(go) }
            3 => {
                if a.directed {
                    let mut g = build_matrix::<Directed, u16>(&a, &mut r);
                    let mut base_kind = 3;      // 13 = the dangling edge below was put in on purpose
                    if r.chance(12) {
                        // an edge towards a removed id: update_edge is documented to panic, it does not (known finding)
                        let live: Vec<usize> = g.node_identifiers().map(|x| x.index()).collect();
                        if let (Some(&l), Some(dead)) = (live.first(), (0..NodeIndexable::node_bound(&g)).find(|i| !live.contains(i))) {
                            let _ = catch_unwind(AssertUnwindSafe(|| g.update_edge(petgraph::matrix_graph::NodeIndex::new(l), petgraph::matrix_graph::NodeIndex::new(dead), 5)));
                            out.stat("matrix_edge_to_removed_id");
                            base_kind = 13;
                        }
                    }
                    let eid = |e: (petgraph::matrix_graph::NodeIndex<u16>, petgraph::matrix_graph::NodeIndex<u16>)| e.0.index() * 100 + e.1.index();
                    let (h, l) = dumpfv!(&g, eid, incoming: yes, adj: yes, ncount: yes, ecount: yes, ebound: no, compact: no, ids: yes);
                    emit_base(out, id, base_kind, &h, &l);
                    emit_adaptor(out, ("adaptor".into(), vec![1, 0, 0]), catch_unwind(AssertUnwindSafe(|| dumpfv!(Reversed(&g), eid, incoming: yes, adj: yes, ncount: yes, ecount: yes, ebound: no, compact: no, ids: yes))), true);
                    emit_adaptor(out, ("adaptor".into(), vec![2, 0, 0]), catch_unwind(AssertUnwindSafe(|| dumpfv!(UndirectedAdaptor(&g), eid, incoming: no, adj: no, ncount: yes, ecount: no, ebound: no, compact: no, ids: yes))), false);
                    out.end_case();
                } else {
                    let g = build_matrix::<Undirected, u16>(&a, &mut r);
                    let eid = |e: (petgraph::matrix_graph::NodeIndex<u16>, petgraph::matrix_graph::NodeIndex<u16>)| { let (x, y) = (e.0.index().min(e.1.index()), e.0.index().max(e.1.index())); x * 100 + y };
                    let (h, l) = dumpfv!(&g, eid, incoming: no, adj: yes, ncount: yes, ecount: yes, ebound: no, compact: no, ids: yes);
                    emit_base(out, id, 3, &h, &l);
                    out.end_case();
                }
            }
            4 => { macro_rules! go { ($t:ty) => {{
                       let g = build_csr::<$t, u32>(&a, &mut r);
                       let (h, l) = dumpfv!(&g, |e: usize| e, incoming: no, adj: yes, ncount: yes, ecount: yes, ebound: no, compact: yes, ids: no);
                       emit_base(out, id, 4, &h, &l);
                       let p1 = (r.next() & 0xFFFFF) as i64; let p2 = r.below(6) as i64;
                       let gr = &g;
                       let f = NodeFiltered::from_fn(gr, |n| node_pred(p1, p2, n as usize));
                       emit_adaptor(out, ("adaptor".into(), vec![3, p1, p2]), catch_unwind(AssertUnwindSafe(|| dumpfv!(&f, |e: usize| e, incoming: no, adj: no, ncount: no, ecount: no, ebound: no, compact: no, ids: no))), true);
                       out.end_case(); }}; } ty!(go) }
            _ => {
                let g = build_list::<u32>(&a, &mut r);
                let eid = |e: petgraph::adj::EdgeIndex<u32>| { let (f, s) = crate::c05::eidx_nums(&e); (f * 100 + s) as usize };
                let (h, l) = dumpfv!(&g, eid, incoming: no, adj: yes, ncount: yes, ecount: yes, ebound: no, compact: yes, ids: yes);
                emit_base(out, id, 5, &h, &l);
                out.end_case();
            }
        }
        out.stat(&format!("kind_{}", kind));
        out.stat(if a.directed { "abs_directed" } else { "abs_undirected" });
    }
}
