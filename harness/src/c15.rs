//! C15: greedy_matching / maximum_matching on every encoding, ford_fulkerson on Graph and StableGraph.
use crate::enc::*;
use crate::rng::Rng;
use crate::{line, GOp, Out};
use petgraph::algo;
use petgraph::data::DataMap;
use petgraph::visit::{
    Data, EdgeCount, EdgeIndexable, EdgeRef, GraphRef, IntoEdges, IntoEdgesDirected, IntoNeighbors, IntoNodeIdentifiers,
    NodeCount, NodeIndexable, Visitable,
};
use petgraph::{Directed, Undirected};
use std::hash::Hash;
use std::panic::{catch_unwind, AssertUnwindSafe};

fn matching_lines<G>(g: G, m: &algo::Matching<G>, bound: usize) -> Vec<String>
where G: GraphRef + NodeIndexable + NodeCount + IntoNodeIdentifiers {
    let ix = |x: G::NodeId| g.to_index(x) as i64;
    // the mate vector is read through mate() on every index below node_bound that from_index accepts
    let ids: Vec<usize> = g.node_identifiers().map(|x| g.to_index(x)).collect();
    let mut row = vec![-1i64; bound];
    for i in 0..bound {
        if ids.contains(&i) || true {
            // from_index of a vacant index is still a valid id for the sparse types; GraphMap/compact types have no vacancies
            let r = catch_unwind(AssertUnwindSafe(|| m.mate(g.from_index(i)).map(|x| g.to_index(x) as i64).unwrap_or(-1)));
            row[i] = r.unwrap_or(-1);
        }
    }
    let mut v = vec![line("nat", &[m.len() as i64]), line("row", &row)];
    v.push(line("pairs", &m.edges().flat_map(|(a, b)| vec![ix(a), ix(b)]).collect::<Vec<_>>()));
    v.push(line("nodes", &m.nodes().map(|a| ix(a)).collect::<Vec<_>>()));
    v.push(line("bool", &[m.is_perfect() as i64]));
    // accessor cross-checks that have no counterpart in the model's output
    for (a, b) in m.edges() { if !m.contains_edge(a, b) || !m.contains_edge(b, a) || !m.contains_node(a) || !m.contains_node(b) { v.push("accessors-mismatch".into()); } }
    if m.is_empty() != (m.len() == 0) { v.push("accessors-mismatch".into()); }
    for a in g.node_identifiers() { if m.contains_node(a) != m.mate(a).is_some() { v.push("accessors-mismatch".into()); } }
    v
}

pub fn q_match<G>(g: G, q: &GOp) -> Option<Vec<String>>
where G: GraphRef + Visitable + NodeIndexable + IntoNodeIdentifiers + IntoEdges + IntoNeighbors + NodeCount, G::NodeId: Eq + Hash, G::EdgeId: Eq + Hash {
    let bound = g.node_bound();
    Some(match q.0.as_str() {
        "greedy_matching" => matching_lines(g, &algo::greedy_matching(g), bound),
        "maximum_matching" => matching_lines(g, &algo::maximum_matching(g), bound),
        _ => return None,
    })
}

pub fn q_flow<G>(g: G, q: &GOp) -> Option<Vec<String>>
where G: GraphRef + NodeCount + EdgeCount + IntoEdgesDirected + EdgeIndexable + NodeIndexable + DataMap + Visitable + Data<EdgeWeight = u64> {
    if q.0 != "ford_fulkerson" { return None; }
    let (total, flows) = algo::ford_fulkerson(g, NodeIndexable::from_index(&g, q.1[0] as usize), NodeIndexable::from_index(&g, q.1[1] as usize));
    Some(vec![line("flow", &[total as i64]), line("row", &flows.iter().map(|x| *x as i64).collect::<Vec<_>>())])
}

fn q_flow_f<G>(g: G, q: &GOp, want: &[String]) -> Vec<String>
where G: GraphRef + NodeCount + EdgeCount + IntoEdgesDirected + EdgeIndexable + NodeIndexable + DataMap + Visitable + Data<EdgeWeight = f64> {
    // the float instance must agree with the integer instance on integer capacities
    let (total, flows) = algo::ford_fulkerson(g, NodeIndexable::from_index(&g, q.1[0] as usize), NodeIndexable::from_index(&g, q.1[1] as usize));
    let got = vec![line("flow", &[total as i64]), line("row", &flows.iter().map(|x| *x as i64).collect::<Vec<_>>())];
    if got.as_slice() != want || flows.iter().any(|x| x.fract() != 0.0) { vec!["float-vs-integer-mismatch".into()] } else { vec![] }
}

fn answer(out: &mut Out, q: &GOp, r: std::thread::Result<Option<Vec<String>>>) {
    out.op(q);
    match r { Ok(Some(s)) => out.obs_lines(&s), Ok(None) => out.obs_lines(&["unsupported".to_string()]), Err(_) => out.obs_lines(&["panic".to_string()]) }
}

macro_rules! run_m {
    ($g:expr, $eid:expr, $ecount:expr, $ebound:expr, $id:expr, $enc:expr, $out:expr) => {{
        let g = $g;
        let (hdr, ops) = dump_view_out(g, $eid, $ecount, $ebound, &[$enc as i64]);
        emit_view($out, $id, &hdr, &ops);
        for name in ["greedy_matching", "maximum_matching"] {
            let q: GOp = (name.into(), vec![]);
            let res = catch_unwind(AssertUnwindSafe(|| q_match(g, &q)));
            answer($out, &q, res);
        }
        $out.end_case();
    }};
}
macro_rules! run_f {
    ($g:expr, $gu:expr, $gf:expr, $id:expr, $enc:expr, $r:expr, $out:expr, $st:expr) => {{
        let g = $g; let gu = $gu; let gf = $gf;
        let (hdr, ops) = dump_view(g, |e| EdgeIndexable::to_index(&g, e.id()), g.edge_count(), EdgeIndexable::edge_bound(&g), &[$enc as i64]);
        emit_view($out, $id, &hdr, &ops);
        let ids: Vec<usize> = g.node_identifiers().map(|x| NodeIndexable::to_index(&g, x)).collect();
        if ids.len() >= 2 {
            for _ in 0..3 {
                let mut s = ids[$r.below(ids.len())]; let mut t = ids[$r.below(ids.len())];
                if let Some((sa, ta)) = $st {
                    // the abstract source and sink, found through the node weights (= abstract ids)
                    for x in g.node_indices() { if g[x] as usize == sa { s = x.index(); } if g[x] as usize == ta { t = x.index(); } }
                }
                if s == t { t = *ids.iter().find(|x| **x != s).unwrap(); }
                let q: GOp = ("ford_fulkerson".into(), vec![s as i64, t as i64, 1 << 40]);
                let res = catch_unwind(AssertUnwindSafe(|| q_flow(gu, &q).map(|mut v| { let extra = q_flow_f(gf, &q, &v); v.extend(extra); v })));
                answer($out, &q, res);
            }
        }
        $out.end_case();
    }};
}

fn f(w: i64) -> f64 { w as f64 }
fn u(w: i64) -> u64 { w as u64 }

pub fn run_match(id: usize, a: &AbsGraph, enc: usize, r: &mut Rng, out: &mut Out) {
    macro_rules! ty { ($f:ident, $d:ty, $u:ty) => { if a.directed { $f!($d) } else { $f!($u) } }; }
    match enc {
        0 => { macro_rules! go { ($t:ty) => {{ let g = build_graph::<$t, u32>(a, r); run_m!(&g, |e| e.id().index(), g.edge_count(), g.edge_bound(), id, enc, out) }}; } ty!(go, Directed, Undirected) }
        2 => { macro_rules! go { ($t:ty) => {{ let g = build_stable::<$t, u32>(a, r); run_m!(&g, |e| e.id().index(), g.edge_count(), g.edge_bound(), id, enc, out) }}; } ty!(go, Directed, Undirected) }
        3 => { macro_rules! go { ($t:ty) => {{ let g = build_graphmap::<$t>(a, r); run_m!(&g, |e| { let (s, t) = e.id(); g.all_edges().position(|(x, y, _)| (x, y) == (s, t) || (!a.directed && (x, y) == (t, s))).unwrap_or(9999) }, g.edge_count(), EdgeIndexable::edge_bound(&g), id, enc, out) }}; } ty!(go, Directed, Undirected) }
        4 => { macro_rules! go { ($t:ty) => {{ let g = build_csr::<$t, u32>(a, r); run_m!(&g, |e| e.id(), EdgeCount::edge_count(&g), 0, id, enc, out) }}; } ty!(go, Directed, Undirected) }
        5 => { let g = build_list::<u32>(a, r); run_m!(&g, |e| petgraph::visit::IntoEdgeReferences::edge_references(&g).position(|x| x.id() == e.id()).unwrap_or(9999), EdgeCount::edge_count(&g), 0, id, enc, out) }
        _ => { macro_rules! go { ($t:ty) => {{ let g = build_matrix::<$t, u16>(a, r); run_m!(&g, |e| e.id().0.index() * 1000 + e.id().1.index(), g.edge_count(), 0, id, enc, out) }}; } ty!(go, Directed, Undirected) }
    }
    out.stat(&format!("match_enc_{}", enc));
}

pub fn run_flow(id: usize, a: &AbsGraph, enc: usize, r: &mut Rng, out: &mut Out) { run_flow_st(id, a, enc, r, out, None) }

pub fn run_flow_st(id: usize, a: &AbsGraph, enc: usize, r: &mut Rng, out: &mut Out, st: Option<(usize, usize)>) {
    let mut r2 = r.clone();
    let mut r3 = r.clone();
    match enc {
        0 => { let g = build_graph::<Directed, u32>(a, r); let gu = build_graph_w::<Directed, u32, u64>(a, &mut r3, u); let gf = build_graph_w::<Directed, u32, f64>(a, &mut r2, f); run_f!(&g, &gu, &gf, id, enc, r, out, st) }
        1 => { let g = build_graph::<Directed, u8>(a, r); let gu = build_graph_w::<Directed, u8, u64>(a, &mut r3, u); let gf = build_graph_w::<Directed, u8, f64>(a, &mut r2, f); run_f!(&g, &gu, &gf, id, enc, r, out, st) }
        _ => { let g = build_stable::<Directed, u32>(a, r); let gu = build_stable_w::<Directed, u32, u64>(a, &mut r3, u); let gf = build_stable_w::<Directed, u32, f64>(a, &mut r2, f); run_f!(&g, &gu, &gf, id, enc, r, out, st) }
    }
    out.stat(&format!("flow_enc_{}", enc));
}

pub fn gen(seed: u64, n: usize, out: &mut Out) {
    let mut r = Rng::new(seed ^ 0xC15);
    for id in 0..n {
        if id % 2 == 0 {
            // matching: sparse graphs with odd cycles, pendant paths, self-loops, parallel edges, several components
            let simple = r.chance(50);
            let mut a = gen_abs(&mut r, 10, simple, true, 0, 3);
            if r.chance(65) { a.directed = false; }
            if r.chance(35) {
                // a blossom with stems: odd cycle plus pendant paths
                let k = 3 + 2 * r.below(2);
                let mut edges: Vec<(usize, usize, i64)> = (0..k).map(|i| (i, (i + 1) % k, 1)).collect();
                let mut n = k;
                for i in 0..k { if r.chance(60) { edges.push((i, n, 1)); n += 1; if r.chance(40) && n < 11 { edges.push((n - 1, n, 1)); n += 1; } } }
                if a.directed { for e in edges.iter_mut() { if r.chance(50) { *e = (e.1, e.0, e.2); } } }
                a = AbsGraph { directed: a.directed, n, edges };
                out.stat("kind_blossom");
            }
            let large = r.chance(45);
            if large {
                // 14..28 nodes, 1.5 n .. 1.9 n random edges (multigraph, self-loops): many searches, nested blossoms, the same edge
                // joins blossoms in several searches; too large for the exhaustive optimum of the oracle, which then checks validity
                // only - the mate vector is still compared entry by entry with the mirror
                let n = 14 + r.below(15); let m = n * (150 + r.below(41)) / 100;
                let edges: Vec<(usize, usize, i64)> = (0..m).map(|_| (r.below(n), r.below(n), 1)).collect();
                a = AbsGraph { directed: false, n, edges };
                out.stat("kind_large_matching");
            }
            let encs = [0usize, 2, 3, 4, 5, 6];
            let mut enc = if large { [0usize, 2, 6][r.below(3)] } else { encs[r.below(6)] };
            if !enc_ok(enc, &a, false) { enc = if r.chance(50) { 0 } else { 2 }; }
            out.stat(if a.directed { "match_directed" } else { "match_undirected" });
            run_match(id, &a, enc, &mut r, out);
        } else {
            // flow: directed multigraphs with antiparallel and parallel edges, zero capacities, self-loops
            let simple = r.chance(30);
            let mut a = gen_abs(&mut r, 8, simple, true, 0, 9);
            a.directed = true;
            if r.chance(40) { let mut extra = Vec::new(); for e in a.edges.iter() { if r.chance(40) { extra.push((e.1, e.0, 1 + r.below(6) as i64)); } } a.edges.extend(extra); }
            if r.chance(20) {
                // a network on which the first shortest augmenting paths block the optimum: flow has to be cancelled over a -> b
                // (s=0, a=1, b=2, t=3, c=4, x=5, y=6, z=7), relabelled, with a few random extra edges
                let base: [(usize, usize); 9] = [(0, 1), (1, 2), (2, 3), (0, 4), (4, 5), (5, 2), (1, 6), (6, 7), (7, 3)];
                let mut p: Vec<usize> = (0..8).collect(); shuffle(&mut r, &mut p);
                let c = 1 + r.below(3) as i64;
                let mut edges: Vec<(usize, usize, i64)> = base.iter().map(|&(s, t)| (p[s], p[t], c)).collect();
                for _ in 0..r.below(3) { edges.push((r.below(8), r.below(8), r.below(3) as i64)); }
                shuffle(&mut r, &mut edges);
                a = AbsGraph { directed: true, n: 8, edges };
                out.stat("kind_cancellation_gadget");
                let enc = [0usize, 2][r.below(2)];
                run_flow_st(id, &a, enc, &mut r, out, Some((p[0], p[3])));
                continue;
            }
            let enc = [0usize, 1, 2, 2][r.below(4)];
            run_flow(id, &a, enc, &mut r, out);
        }
    }
}
