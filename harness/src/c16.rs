//! C16: dominators::simple_fast on directed encodings, articulation_points on undirected ones.
use crate::enc::*;
use crate::rng::Rng;
use crate::{line, GOp, Out};
use petgraph::algo;
use petgraph::visit::{
    Data, EdgeCount, EdgeIndexable, EdgeRef, GraphProp, GraphRef, IntoEdges, IntoNeighbors, IntoNodeIdentifiers, IntoNodeReferences,
    NodeFiltered, NodeIndexable, Visitable,
};
use petgraph::{Directed, Undirected};
use std::hash::Hash;
use std::panic::{catch_unwind, AssertUnwindSafe};

pub fn q_dom<G>(g: G, q: &GOp) -> Option<Vec<String>>
where G: GraphRef + IntoNeighbors + Visitable + NodeIndexable + IntoNodeIdentifiers, G::NodeId: Eq + Hash {
    if q.0 != "simple_fast" { return None; }
    let ix = |x: G::NodeId| g.to_index(x) as i64;
    let root = g.from_index(q.1[0] as usize);
    let d = algo::dominators::simple_fast(g, root);
    let mut v = Vec::new();
    // the (node, idom) map read back through the accessors on every node, sorted by node index
    let mut pairs: Vec<(i64, i64)> = Vec::new();
    for x in g.node_identifiers() {
        if d.dominators(x).is_some() { pairs.push((ix(x), d.immediate_dominator(x).map(ix).unwrap_or(ix(x)))); }
    }
    pairs.sort();
    v.push(line("dom", &pairs.iter().flat_map(|(a, b)| vec![*a, *b]).collect::<Vec<_>>()));
    if ix(d.root()) != q.1[0] { v.push("root-mismatch".into()); }
    for &p in &q.1[1..] {
        let x = g.from_index(p as usize);
        v.push(line("row", &[p, d.immediate_dominator(x).map(ix).unwrap_or(-1)]));
        v.push(match d.dominators(x) { Some(it) => line("seq", &it.map(ix).collect::<Vec<_>>()), None => "none".into() });
        v.push(match d.strict_dominators(x) { Some(it) => line("seq", &it.map(ix).collect::<Vec<_>>()), None => "none".into() });
        let mut by: Vec<i64> = d.immediately_dominated_by(x).map(ix).collect(); by.sort();
        v.push(line("nodes", &by));
    }
    Some(v)
}

pub fn q_art<G>(g: G, q: &GOp) -> Option<Vec<String>>
where G: GraphRef + IntoNodeReferences + IntoEdges + NodeIndexable + GraphProp, G::NodeWeight: Clone, G::EdgeWeight: Clone + PartialOrd, G::NodeId: Eq + Hash {
    if q.0 != "articulation_points" { return None; }
    let mut v: Vec<i64> = algo::articulation_points::articulation_points(g).into_iter().map(|x| g.to_index(x) as i64).collect();
    v.sort();
    Some(vec![line("nodes", &v)])
}

fn answer(out: &mut Out, q: &GOp, r: std::thread::Result<Option<Vec<String>>>) {
    out.op(q);
    match r { Ok(Some(s)) => out.obs_lines(&s), Ok(None) => out.obs_lines(&["unsupported".to_string()]), Err(_) => out.obs_lines(&["panic".to_string()]) }
}

macro_rules! run_q {
    ($g:expr, $eid:expr, $ecount:expr, $ebound:expr, $id:expr, $enc:expr, $r:expr, $out:expr, $dir:expr) => {{
        let g = $g;
        let (hdr, ops) = dump_view_out(g, $eid, $ecount, $ebound, &[$enc as i64]);
        emit_view($out, $id, &hdr, &ops);
        let ids: Vec<usize> = g.node_identifiers().map(|x| NodeIndexable::to_index(&g, x)).collect();
        if $dir {
            if !ids.is_empty() {
                for _ in 0..2 {
                    let root = ids[$r.below(ids.len())] as i64;
                    let mut a = vec![root];
                    for &x in &ids { if $r.chance(60) { a.push(x as i64); } }
                    let q: GOp = ("simple_fast".into(), a);
                    let res = catch_unwind(AssertUnwindSafe(|| q_dom(g, &q)));
                    answer($out, &q, res);
                }
            }
        } else {
            let q: GOp = ("articulation_points".into(), vec![]);
            let res = catch_unwind(AssertUnwindSafe(|| q_art(g, &q)));
            answer($out, &q, res);
        }
        $out.end_case();
    }};
}

pub fn run_enc(id: usize, a: &AbsGraph, enc: usize, r: &mut Rng, out: &mut Out) {
    macro_rules! ty { ($f:ident, $d:ty, $u:ty) => { if a.directed { $f!($d) } else { $f!($u) } }; }
    let dir = a.directed;
    match enc {
        0 => { macro_rules! go { ($t:ty) => {{ let g = build_graph::<$t, u32>(a, r); run_q!(&g, |e| e.id().index(), g.edge_count(), g.edge_bound(), id, enc, r, out, dir) }}; } ty!(go, Directed, Undirected) }
        2 => { macro_rules! go { ($t:ty) => {{ let g = build_stable::<$t, u32>(a, r); run_q!(&g, |e| e.id().index(), g.edge_count(), g.edge_bound(), id, enc, r, out, dir) }}; } ty!(go, Directed, Undirected) }
        3 => { macro_rules! go { ($t:ty) => {{ let g = build_graphmap::<$t>(a, r); run_q!(&g, |e| { let (s, t) = e.id(); g.all_edges().position(|(x, y, _)| (x, y) == (s, t) || (!a.directed && (x, y) == (t, s))).unwrap_or(9999) }, g.edge_count(), EdgeIndexable::edge_bound(&g), id, enc, r, out, dir) }}; } ty!(go, Directed, Undirected) }
        4 => { macro_rules! go { ($t:ty) => {{ let g = build_csr::<$t, u32>(a, r); run_q!(&g, |e| e.id(), EdgeCount::edge_count(&g), 0, id, enc, r, out, dir) }}; } ty!(go, Directed, Undirected) }
        5 => { let g = build_list::<u32>(a, r); run_q!(&g, |_e| 0, EdgeCount::edge_count(&g), 0, id, enc, r, out, true) }
        6 => { macro_rules! go { ($t:ty) => {{ let g = build_matrix::<$t, u16>(a, r); run_q!(&g, |_e| 0, g.edge_count(), 0, id, enc, r, out, dir) }}; } ty!(go, Directed, Undirected) }
        _ => { macro_rules! go { ($t:ty) => {{
                   let g0 = build_graph::<$t, u32>(a, r);
                   let mask = r.next();
                   let g = NodeFiltered::from_fn(&g0, move |n: petgraph::graph::NodeIndex<u32>| (mask >> (n.index() % 60)) & 7 != 0);
                   run_q!(&g, |e| e.id().index(), g0.edge_count(), g0.edge_bound(), id, enc, r, out, dir) }}; } ty!(go, Directed, Undirected) }
    }
    out.stat(&format!("enc_{}", enc));
}

pub fn gen(seed: u64, n: usize, out: &mut Out) {
    let mut r = Rng::new(seed ^ 0xC16);
    for id in 0..n {
        let simple = r.chance(45);
        let mut a = gen_abs(&mut r, 10, simple, true, 0, 3);
        a.directed = id % 2 == 0;
        if !a.directed && r.chance(40) {
            // a tree of blocks: cycles and bridges glued at cut nodes
            let mut edges: Vec<(usize, usize, i64)> = Vec::new();
            let mut n = 1usize;
            while n < 9 {
                let at = r.below(n);
                let k = 1 + r.below(4);                      // block: a bridge (k = 1) or a cycle through `at`
                let first = n;
                for j in 0..k { edges.push((if j == 0 { at } else { n - 1 }, n, 1)); n += 1; }
                if k > 1 { edges.push((n - 1, at, 1)); }
                if k > 2 && r.chance(40) { edges.push((first, n - 1, 1)); }
            }
            if !simple { edges.push((0, 0, 1)); let e = edges[r.below(edges.len())]; edges.push((e.1, e.0, 1)); }
            a = AbsGraph { directed: false, n, edges };
            out.stat("kind_block_tree");
        }
        let encs: [usize; 7] = if a.directed { [0, 2, 3, 4, 5, 6, 8] } else { [0, 2, 3, 4, 6, 8, 2] };
        let mut enc = encs[r.below(7)];
        if enc != 8 && !enc_ok(enc, &a, false) { enc = if r.chance(50) { 0 } else { 2 }; }
        out.stat(if a.directed { "dominators" } else { "articulation" });
        run_enc(id, &a, enc, &mut r, out);
    }
}
