//! C19: UnionFind histories.
use crate::rng::Rng;
use crate::Out;
use petgraph::graph::IndexType;
use petgraph::unionfind::UnionFind;
use std::io::Write;
use std::panic::{catch_unwind, AssertUnwindSafe};

#[derive(Clone, Debug)]
pub enum Op {
    NewSet, Find(usize), FindMut(usize), TryFind(usize), TryFindMut(usize),
    Equiv(usize, usize), TryEquiv(usize, usize), Union(usize, usize), TryUnion(usize, usize),
    Labeling, Len, Cap(u8),
}

pub fn op_line(o: &Op) -> String {
    match o {
        Op::NewSet => "ns".into(),
        Op::Find(x) => format!("f {}", x),
        Op::FindMut(x) => format!("fm {}", x),
        Op::TryFind(x) => format!("tf {}", x),
        Op::TryFindMut(x) => format!("tfm {}", x),
        Op::Equiv(x, y) => format!("eq {} {}", x, y),
        Op::TryEquiv(x, y) => format!("teq {} {}", x, y),
        Op::Union(x, y) => format!("un {} {}", x, y),
        Op::TryUnion(x, y) => format!("tun {} {}", x, y),
        Op::Labeling => "lab".into(),
        Op::Len => "len".into(),
        Op::Cap(k) => format!("cap {}", k),
    }
}

pub fn parse_op(l: &str) -> Op {
    let t: Vec<&str> = l.split_whitespace().collect();
    let a = |i: usize| t[i].parse::<usize>().unwrap();
    match t[0] {
        "ns" => Op::NewSet, "f" => Op::Find(a(1)), "fm" => Op::FindMut(a(1)),
        "tf" => Op::TryFind(a(1)), "tfm" => Op::TryFindMut(a(1)),
        "eq" => Op::Equiv(a(1), a(2)), "teq" => Op::TryEquiv(a(1), a(2)),
        "un" => Op::Union(a(1), a(2)), "tun" => Op::TryUnion(a(1), a(2)),
        "lab" => Op::Labeling, "len" => Op::Len, "cap" => Op::Cap(a(1) as u8),
        _ => panic!("bad op {}", l),
    }
}

fn rbk<K: IndexType>(r: Result<bool, K>) -> String {
    match r { Ok(b) => format!("r ok {}", b), Err(k) => format!("r err {}", k.index()) }
}

/// Runs one history on the real UnionFind<K>; one observation line per operation.
/// Arguments above K::max are not representable in K and are clamped by the generator.
fn run_ops<K: IndexType>(n0: usize, ops: &[Op]) -> Vec<String> {
    let mut u: UnionFind<K> = UnionFind::new(n0);
    let mut res = Vec::new();
    for o in ops {
        let r = catch_unwind(AssertUnwindSafe(|| -> String {
            match *o {
                Op::NewSet => format!("n {}", u.new_set().index()),
                Op::Find(x) => format!("n {}", u.find(K::new(x)).index()),
                Op::FindMut(x) => format!("n {}", u.find_mut(K::new(x)).index()),
                Op::TryFind(x) => match u.try_find(K::new(x)) { Some(r) => format!("o {}", r.index()), None => "o none".into() },
                Op::TryFindMut(x) => match u.try_find_mut(K::new(x)) { Some(r) => format!("o {}", r.index()), None => "o none".into() },
                Op::Equiv(x, y) => format!("b {}", u.equiv(K::new(x), K::new(y))),
                Op::TryEquiv(x, y) => rbk(u.try_equiv(K::new(x), K::new(y))),
                Op::Union(x, y) => format!("b {}", u.union(K::new(x), K::new(y))),
                Op::TryUnion(x, y) => rbk(u.try_union(K::new(x), K::new(y))),
                Op::Labeling => {
                    let l = u.clone().into_labeling();
                    let s: Vec<String> = l.iter().map(|k| k.index().to_string()).collect();
                    format!("l {}", s.join(" "))
                }
                Op::Len => { assert_eq!(u.is_empty(), u.len() == 0); format!("n {}", u.len()) }
                Op::Cap(k) => {
                    match k % 6 {
                        0 => u.reserve(3),
                        1 => u.reserve_exact(2),
                        2 => u.shrink_to_fit(),
                        3 => u.shrink_to(1),
                        4 => { let _ = u.try_reserve(5); }
                        _ => { let _ = u.try_reserve_exact(1); let _ = u.capacity(); }
                    }
                    "u".into()
                }
            }
        }));
        res.push(match r { Ok(s) => s, Err(_) => "panic".into() });
    }
    res
}

fn gen_case(r: &mut Rng, kmax: usize, big: bool) -> (usize, Vec<Op>) {
    // kmax: largest index representable (255 for u8)
    let n0 = if big { kmax.saturating_sub(r.below(6)).min(250 + r.below(6)) } else { r.below(9) };
    let mut n = n0;
    let len = if big { 20 + r.below(40) } else { 4 + r.below(36) };
    let mut ops = Vec::new();
    // arguments: mostly in range, sometimes just out of range, sometimes far
    let arg = |r: &mut Rng, n: usize| -> usize {
        let v = if n > 0 && r.chance(90) { r.below(n) } else if r.chance(70) { n + r.below(3) } else { r.below(kmax + 1) };
        v.min(kmax)
    };
    for _ in 0..len {
        let w = [if n <= kmax { 8 } else { 0 }, 6, 8, 5, 6, 8, 6, 22, 16, 5, 2, 3];
        let o = match r.weighted(&w) {
            0 => { n += 1; Op::NewSet }
            1 => Op::Find(arg(r, n)), 2 => Op::FindMut(arg(r, n)),
            3 => Op::TryFind(arg(r, n)), 4 => Op::TryFindMut(arg(r, n)),
            5 => Op::Equiv(arg(r, n), arg(r, n)), 6 => Op::TryEquiv(arg(r, n), arg(r, n)),
            7 => Op::Union(arg(r, n), arg(r, n)),
            8 => { let a = arg(r, n); let b = if r.chance(10) { a } else { arg(r, n) }; Op::TryUnion(a, b) }
            9 => Op::Labeling, 10 => Op::Len, _ => Op::Cap(r.below(6) as u8),
        };
        ops.push(o);
    }
    (n0, ops)
}

fn emit(out: &mut Out, id: usize, ix: &str, n0: usize, ops: &[Op]) {
    writeln!(out.cases, "case {} {} {}", id, ix, n0).unwrap();
    for o in ops { writeln!(out.cases, "{}", op_line(o)).unwrap(); }
    writeln!(out.cases, "end").unwrap();
    let res = match ix {
        "u8" => run_ops::<u8>(n0, ops),
        "u16" => run_ops::<u16>(n0, ops),
        "u32" => run_ops::<u32>(n0, ops),
        _ => run_ops::<usize>(n0, ops),
    };
    writeln!(out.obs, "case {}", id).unwrap();
    for l in &res {
        writeln!(out.obs, "{}", l).unwrap();
        out.stat(&format!("out_{}", l.split_whitespace().next().unwrap()));
        if l.starts_with("r err") { out.stat("out_err"); }
    }
    writeln!(out.obs, "end").unwrap();
    for o in ops { out.stat(&format!("op_{}", op_line(o).split_whitespace().next().unwrap())); }
    out.stat(&format!("ix_{}", ix));
}

pub fn gen(seed: u64, n: usize, out: &mut Out) {
    let mut r = Rng::new(seed ^ 0xC19);
    for id in 0..n {
        let (ix, kmax, big) = match id % 8 {
            0 | 1 => ("u8", 255usize, false),
            2 => ("u8", 255, true),
            3 => ("u16", 3000, false),
            4 | 5 => ("u32", 3000, false),
            _ => ("usize", 3000, false),
        };
        if id % 6 == 3 {
            // deep trees without path compression: merge equal-rank blocks pairwise (a binomial tree), no find_mut before
            // into_labeling; the orientation decides whether the deep elements have the low or the high indices
            let k = 3 + r.below(3);
            let n0 = 1usize << k;
            let hi_first = r.chance(50);
            let mut ops: Vec<Op> = Vec::new();
            for j in 0..k {
                let size = 1usize << j;
                let mut b = 0;
                while b + 2 * size <= n0 {
                    let (lo, hi) = (b + size - 1, b + 2 * size - 1);
                    let (lo, hi) = if hi_first { (lo, hi) } else { (b, b + size) };
                    ops.push(if r.chance(50) { Op::Union(hi, lo) } else { Op::TryUnion(hi, lo) });
                    b += 2 * size;
                }
            }
            for _ in 0..r.below(3) { ops.push(Op::Find(r.below(n0))); }
            ops.push(Op::Labeling);
            for _ in 0..r.below(4) { ops.push(Op::FindMut(r.below(n0))); }
            ops.push(Op::Labeling);
            emit(out, id, ix, n0, &ops);
            out.stat("kind_binomial_tree");
            continue;
        }
        let (n0, ops) = gen_case(&mut r, kmax, big);
        emit(out, id, ix, n0, &ops);
    }
}

pub fn replay(text: &str, out: &mut Out) {
    let mut cur: Option<(usize, String, usize, Vec<Op>)> = None;
    for l in text.lines() {
        let l = l.trim();
        if l.is_empty() || l.starts_with('#') { continue; }
        if l.starts_with("case ") {
            let t: Vec<&str> = l.split_whitespace().collect();
            cur = Some((t[1].parse().unwrap(), t[2].to_string(), t[3].parse().unwrap(), Vec::new()));
        } else if l == "end" {
            let (id, ix, n0, ops) = cur.take().unwrap();
            emit(out, id, &ix, n0, &ops);
        } else {
            cur.as_mut().unwrap().3.push(parse_op(l));
        }
    }
}
