//! C20: maximal_cliques, dsatur_coloring, greedy_feedback_arc_set, tred, all_simple_paths, steiner_tree, page_rank.
//! Results whose content is not unique are handed to the model as arguments of the query (the model answers with a
//! verdict); deterministic results are printed and compared with the model's mirror or reference.
use crate::enc::*;
use crate::rng::Rng;
use crate::{line, GOp, Out};
use petgraph::algo;
use petgraph::graph::{Graph, NodeIndex};
use petgraph::visit::{
    EdgeCount, EdgeIndexable, EdgeRef, GetAdjacencyMatrix, GraphProp, GraphRef, IntoEdgeReferences, IntoEdges, IntoNeighbors,
    IntoNeighborsDirected, IntoNodeIdentifiers, NodeCompactIndexable, NodeCount, NodeIndexable, Visitable,
};
use petgraph::{Directed, Undirected};
use std::collections::hash_map::RandomState;
use std::hash::Hash;
use std::panic::{catch_unwind, AssertUnwindSafe};

fn emit(out: &mut Out, q: GOp, r: std::thread::Result<Vec<String>>) {
    out.op(&q);
    match r { Ok(v) => out.obs_lines(&v), Err(_) => out.obs_lines(&["panic".to_string()]) }
}

fn q_cliques<G>(g: G, out: &mut Out)
where G: GraphRef + GetAdjacencyMatrix + IntoNodeIdentifiers + IntoNeighbors + NodeIndexable, G::NodeId: Eq + Hash {
    let r = catch_unwind(AssertUnwindSafe(|| {
        let mut cs: Vec<Vec<i64>> = algo::maximal_cliques(g).into_iter().map(|c| { let mut v: Vec<i64> = c.into_iter().map(|x| g.to_index(x) as i64).collect(); v.sort(); v }).collect();
        cs.sort();
        let mut v = vec![line("nat", &[cs.len() as i64])];
        for c in cs { v.push(line("comp", &c)); }
        v
    }));
    emit(out, ("maximal_cliques".into(), vec![]), r);
}

fn q_dsatur<G>(g: G, out: &mut Out)
where G: GraphRef + IntoEdges + IntoNodeIdentifiers + Visitable + NodeIndexable, G::NodeId: Eq + Hash {
    match catch_unwind(AssertUnwindSafe(|| algo::dsatur_coloring(g))) {
        Ok((col, k)) => {
            let mut pairs: Vec<(i64, i64)> = col.into_iter().map(|(n, c)| (g.to_index(n) as i64, c as i64)).collect();
            pairs.sort();
            let mut a = vec![k as i64];
            for (n, c) in pairs { a.push(n); a.push(c); }
            emit(out, ("dsatur".into(), a), Ok(vec![line("verdict", &[0])]));
        }
        Err(_) => emit(out, ("dsatur".into(), vec![0]), Ok(vec!["panic".into()])),
    }
}

fn q_fas<G>(g: G, eid: impl Fn(G::EdgeRef) -> usize, out: &mut Out)
where G: GraphRef + IntoEdgeReferences + GraphProp<EdgeType = Directed> + NodeCount, G::NodeId: petgraph::graph::GraphIndex {
    match catch_unwind(AssertUnwindSafe(|| algo::greedy_feedback_arc_set(g).map(|e| eid(e) as i64).collect::<Vec<i64>>())) {
        Ok(ids) => emit(out, ("fas".into(), ids), Ok(vec![line("verdict", &[0])])),
        Err(_) => emit(out, ("fas".into(), vec![]), Ok(vec!["panic".into()])),
    }
}

fn q_tred<G>(g: G, out: &mut Out)
where G: GraphRef + IntoNeighborsDirected + NodeCompactIndexable + NodeCount + IntoNodeIdentifiers + Visitable, G::NodeId: petgraph::graph::IndexType {
    let order = match algo::toposort(g, None) { Ok(o) => o, Err(_) => return };
    let a: Vec<i64> = order.iter().map(|x| g.to_index(*x) as i64).collect();
    let r = catch_unwind(AssertUnwindSafe(|| {
        let (res, revmap): (petgraph::adj::List<(), u32>, Vec<u32>) = algo::tred::dag_to_toposorted_adjacency_list(g, &order);
        let (tred, tclos) = algo::tred::dag_transitive_reduction_closure(&res);
        let mut v = vec![line("seq", &revmap.iter().map(|x| *x as i64).collect::<Vec<_>>())];
        let rows = |tag: &str, l: &petgraph::adj::List<(), u32>| -> Vec<String> {
            l.node_indices().map(|i| { let mut r = vec![i as i64]; r.extend(l.neighbors(i).map(|x| x as i64)); line(tag, &r) }).collect()
        };
        v.extend(rows("row", &res)); v.extend(rows("pairs", &tred)); v.extend(rows("nodes", &tclos));
        v
    }));
    emit(out, ("tred".into(), a), r);
}

fn q_paths<G>(g: G, from: usize, to: usize, min_i: usize, max_i: i64, out: &mut Out)
where G: GraphRef + IntoNeighborsDirected + NodeCount + NodeIndexable, G::NodeId: Eq + Hash {
    let r = catch_unwind(AssertUnwindSafe(|| {
        let ps: Vec<Vec<G::NodeId>> = algo::all_simple_paths::<Vec<_>, _, RandomState>(g, g.from_index(from), g.from_index(to), min_i, if max_i < 0 { None } else { Some(max_i as usize) }).collect();
        let mut v = vec![line("nat", &[ps.len() as i64])];
        for p in ps { v.push(line("seq", &p.iter().map(|x| g.to_index(*x) as i64).collect::<Vec<_>>())); }
        v
    }));
    emit(out, ("all_simple_paths".into(), vec![from as i64, to as i64, min_i as i64, max_i]), r);
}

fn q_pagerank<G>(g: G, twin: G, perm: &[usize], out: &mut Out)
where G: GraphRef + NodeCount + IntoEdges + NodeIndexable {
    // ranks scaled to integers (1e9); the twin is the same graph with its nodes relabelled by `perm` (compact types only)
    let r = catch_unwind(AssertUnwindSafe(|| {
        let a = algo::page_rank(g, 0.85f64, 12);
        let b = algo::page_rank(twin, 0.85f64, 12);
        let sc = |x: &Vec<f64>| x.iter().map(|r| if r.is_finite() { (r * 1e9).round() as i64 } else { -1 }).collect::<Vec<i64>>();
        let mut v = vec![line("scores", &sc(&a)), line("scores", &sc(&b))];
        v.push(line("row", &perm.iter().map(|x| *x as i64).collect::<Vec<_>>()));
        v.push(line("nat", &[g.node_count() as i64, g.node_bound() as i64]));
        v
    }));
    emit(out, ("page_rank".into(), vec![]), r);
}

fn q_prank<G>(g: G, dn: i64, dd: i64, iters: usize, out: &mut Out)
where G: GraphRef + NodeCount + IntoEdges + NodeIndexable {
    // ranks scaled by 1e9 and rounded; NaN / infinite = -1.  The model computes the same formula over the rationals.
    let r = catch_unwind(AssertUnwindSafe(|| {
        let a = algo::page_rank(g, dn as f64 / dd as f64, iters);
        vec![line("scores", &a.iter().map(|r| if r.is_finite() { (r * 1e9).round() as i64 } else { -1 }).collect::<Vec<i64>>())]
    }));
    emit(out, ("prank".into(), vec![dn, dd, iters as i64]), r);
}

fn relabelled(a: &AbsGraph, r: &mut Rng) -> (AbsGraph, Vec<usize>) {
    let mut p: Vec<usize> = (0..a.n).collect();
    shuffle(r, &mut p);
    let mut es: Vec<(usize, usize, i64)> = a.edges.iter().map(|&(s, t, w)| (p[s], p[t], w)).collect();
    shuffle(r, &mut es);
    (AbsGraph { directed: a.directed, n: a.n, edges: es }, p)
}

macro_rules! view_hdr {
    ($g:expr, $eid:expr, $ecount:expr, $ebound:expr, $id:expr, $enc:expr, $out:expr, $dump:ident) => {{
        let (hdr, ops) = $dump($g, $eid, $ecount, $ebound, &[$enc as i64]);
        emit_view($out, $id, &hdr, &ops);
    }};
}

pub fn gen(seed: u64, n: usize, out: &mut Out) {
    let mut r = Rng::new(seed ^ 0xC20);
    for id in 0..n {
        let kind = id % 7;
        match kind {
            0 => {
                // maximal cliques + dsatur on undirected simple graphs (dense enough to have cliques of size 3..5)
                let mut a = gen_abs(&mut r, 8, true, false, 1, 1);
                a.directed = false;
                if r.chance(50) { let n = a.n; for s in 0..n { for t in s + 1..n { if r.chance(55) && !a.edges.iter().any(|e| (e.0, e.1) == (s, t) || (e.0, e.1) == (t, s)) { a.edges.push((s, t, 1)); } } } }
                if r.chance(30) {
                    // bipartite: keep only edges between the two halves
                    let half = a.n / 2; a.edges.retain(|e| (e.0 < half) != (e.1 < half));
                    out.stat("kind_bipartite");
                }
                match [0usize, 2, 3, 4, 6][r.below(5)] {
                    0 => { let g = build_graph::<Undirected, u32>(&a, &mut r); view_hdr!(&g, |e| e.id().index(), g.edge_count(), g.edge_bound(), id, 0, out, dump_view); q_cliques(&g, out); q_dsatur(&g, out); }
                    2 => { let g = build_stable::<Undirected, u32>(&a, &mut r); view_hdr!(&g, |e| e.id().index(), g.edge_count(), g.edge_bound(), id, 2, out, dump_view); q_cliques(&g, out); q_dsatur(&g, out); }
                    3 => { let g = build_graphmap::<Undirected>(&a, &mut r); view_hdr!(&g, |e| EdgeIndexable::to_index(&g, e.id()), g.edge_count(), EdgeIndexable::edge_bound(&g), id, 3, out, dump_view); q_cliques(&g, out); q_dsatur(&g, out); }
                    4 => { let g = build_csr::<Undirected, u32>(&a, &mut r); view_hdr!(&g, |e| e.id(), EdgeCount::edge_count(&g), 0, id, 4, out, dump_view_out); q_cliques(&g, out); q_dsatur(&g, out); }
                    _ => { let g = build_matrix::<Undirected, u16>(&a, &mut r); view_hdr!(&g, |_e| 0, g.edge_count(), 0, id, 6, out, dump_view_out); q_cliques(&g, out); q_dsatur(&g, out); }
                }
                out.end_case();
            }
            1 => {
                // dsatur on undirected multigraphs with self-loops; empty graph now and then
                let mut a = gen_abs(&mut r, 9, false, true, 1, 1);
                a.directed = false;
                if r.chance(4) { a = AbsGraph { directed: false, n: 0, edges: vec![] }; }
                if r.chance(50) { let g = build_graph::<Undirected, u32>(&a, &mut r); view_hdr!(&g, |e| e.id().index(), g.edge_count(), g.edge_bound(), id, 0, out, dump_view); q_dsatur(&g, out); }
                else { let g = build_stable::<Undirected, u32>(&a, &mut r); view_hdr!(&g, |e| e.id().index(), g.edge_count(), g.edge_bound(), id, 2, out, dump_view); q_dsatur(&g, out); }
                out.end_case();
            }
            2 => {
                // feedback arc set on directed multigraphs with self-loops and 2-cycles
                let simple = r.chance(40); let mut a = gen_abs(&mut r, 8, simple, true, 1, 1);
                a.directed = true;
                if r.chance(50) { let g = build_graph::<Directed, u32>(&a, &mut r); view_hdr!(&g, |e| e.id().index(), g.edge_count(), g.edge_bound(), id, 0, out, dump_view); q_fas(&g, |e| e.id().index(), out); }
                else { let g = build_stable::<Directed, u32>(&a, &mut r); view_hdr!(&g, |e| e.id().index(), g.edge_count(), g.edge_bound(), id, 2, out, dump_view); q_fas(&g, |e| e.id().index(), out); }
                out.end_case();
            }
            3 => {
                // transitive reduction / closure of a DAG (edges along a hidden order)
                let n = 1 + r.below(8);
                let mut perm: Vec<usize> = (0..n).collect(); shuffle(&mut r, &mut perm);
                let mut edges = Vec::new();
                let dens = [20usize, 40, 70][r.below(3)];
                for i in 0..n { for j in i + 1..n { if r.below(100) < dens { edges.push((perm[i], perm[j], 1)); } } }
                let a = AbsGraph { directed: true, n, edges };
                if r.chance(60) { let g = build_graph::<Directed, u32>(&a, &mut r); view_hdr!(&g, |e| e.id().index(), g.edge_count(), g.edge_bound(), id, 0, out, dump_view); q_tred(&g, out); }
                else { let g = build_graphmap::<Directed>(&a, &mut r); view_hdr!(&g, |e| EdgeIndexable::to_index(&g, e.id()), g.edge_count(), EdgeIndexable::edge_bound(&g), id, 3, out, dump_view); q_tred(&g, out); }
                out.end_case();
            }
            4 => {
                // all_simple_paths on directed graphs (30% multigraphs), several endpoint pairs and bounds
                let a = { let simple = r.chance(70); let mut a = gen_abs(&mut r, 7, simple, true, 1, 1); a.directed = true; a };
                macro_rules! qs { ($g:expr) => {{
                    let g = $g;
                    let ids: Vec<usize> = g.node_identifiers().map(|x| NodeIndexable::to_index(&g, x)).collect();
                    if !ids.is_empty() { for _ in 0..3 {
                        let f = ids[r.below(ids.len())]; let mut t = ids[r.below(ids.len())];
                        if f == t && r.chance(85) { t = ids[(ids.iter().position(|x| *x == f).unwrap() + 1) % ids.len()]; }
                        let min_i = if r.chance(60) { 0 } else { r.below(3) };
                        let max_i = if r.chance(45) { -1 } else { r.below(5) as i64 };
                        q_paths(g, f, t, min_i, max_i, out);
                    } }
                }}; }
                match [0usize, 2, 3, 6][r.below(4)] {
                    0 => { let g = build_graph::<Directed, u32>(&a, &mut r); view_hdr!(&g, |e| e.id().index(), g.edge_count(), g.edge_bound(), id, 0, out, dump_view); qs!(&g); }
                    2 => { let g = build_stable::<Directed, u32>(&a, &mut r); view_hdr!(&g, |e| e.id().index(), g.edge_count(), g.edge_bound(), id, 2, out, dump_view); qs!(&g); }
                    3 if a.is_simple() => { let g = build_graphmap::<Directed>(&a, &mut r); view_hdr!(&g, |e| EdgeIndexable::to_index(&g, e.id()), g.edge_count(), EdgeIndexable::edge_bound(&g), id, 3, out, dump_view); qs!(&g); }
                    6 if a.is_simple() => { let g = build_matrix::<Directed, u16>(&a, &mut r); view_hdr!(&g, |_e| 0, g.edge_count(), 0, id, 6, out, dump_view); qs!(&g); }
                    _ => { let g = build_graph::<Directed, u8>(&a, &mut r); view_hdr!(&g, |e| e.id().index(), g.edge_count(), g.edge_bound(), id, 1, out, dump_view); qs!(&g); }
                }
                out.end_case();
            }
            6 => {
                // page_rank against its rational mirror: directed multigraphs with self-loops, dangling nodes, now and then edgeless or
                // complete; damping 0, 1/4, 1/2, 17/20, 1; 0..12 iterations; Graph, GraphMap, Csr, List (compact node indices)
                let simple = r.chance(60); let mut a = gen_abs(&mut r, 7, simple, true, 1, 1);
                a.directed = true;
                if r.chance(8) { a.edges.clear(); }
                if r.chance(6) { a.edges.clear(); for s in 0..a.n { for t in 0..a.n { a.edges.push((s, t, 1)); } } }
                macro_rules! qs { ($g:expr) => {{
                    for _ in 0..3 {
                        let (dn, dd) = [(0i64, 1i64), (1, 4), (1, 2), (17, 20), (17, 20), (1, 1)][r.below(6)];
                        let it = [0usize, 1, 2, 3, 5, 12][r.below(6)];
                        q_prank($g, dn, dd, it, out);
                    }
                }}; }
                match [0usize, 3, 4, 0][r.below(4)] {
                    0 => { let g = build_graph::<Directed, u32>(&a, &mut r); view_hdr!(&g, |e| e.id().index(), g.edge_count(), g.edge_bound(), id, 0, out, dump_view); qs!(&g); }
                    3 if a.is_simple() => { let g = build_graphmap::<Directed>(&a, &mut r); view_hdr!(&g, |e| EdgeIndexable::to_index(&g, e.id()), g.edge_count(), EdgeIndexable::edge_bound(&g), id, 3, out, dump_view); qs!(&g); }
                    4 if a.is_simple() => { let g = build_csr::<Directed, u32>(&a, &mut r); view_hdr!(&g, |e| e.id(), EdgeCount::edge_count(&g), 0, id, 4, out, dump_view_out); qs!(&g); }
                    _ => { let g = build_graph::<Directed, u8>(&a, &mut r); view_hdr!(&g, |e| e.id().index(), g.edge_count(), g.edge_bound(), id, 1, out, dump_view); qs!(&g); }
                }
                out.end_case();
            }
            _ => {
                // steiner_tree on connected undirected simple graphs (UnGraph only), and page_rank on a graph and a relabelled twin
                let n = 2 + r.below(6);
                let mut edges: Vec<(usize, usize, i64)> = Vec::new();
                // 45%: weights 1..2 only, denser: many equally short paths (their union need not be a tree)
                let ties = r.chance(45);
                let (w1, w2, dens) = if ties { (2, 2, 35) } else { (6, 9, 25) };
                let n = if ties { 4 + r.below(5) } else { n };
                for i in 1..n { edges.push((r.below(i), i, 1 + r.below(w1) as i64)); }           // a random spanning tree
                for s in 0..n { for t in s + 1..n { if r.chance(dens) && !edges.iter().any(|e| (e.0, e.1) == (s, t) || (e.0, e.1) == (t, s)) { edges.push((s, t, 1 + r.below(w2) as i64)); } } }
                // 20%: a hub with adjacent terminal pairs and pendant terminals, unit weights: the shortest paths chosen for two
                // closure edges can close a triangle through the hub (the union of the paths is then not a tree)
                let gadget = r.chance(20);
                let mut gterms: Vec<usize> = Vec::new();
                let (n, edges) = if gadget {
                    let pairs = 1 + r.below(2); let pend = 1 + r.below(3);
                    let mut es: Vec<(usize, usize, i64)> = Vec::new();
                    let mut k = 1;
                    for _ in 0..pairs { es.push((0, k, 1)); es.push((0, k + 1, 1)); es.push((k, k + 1, 1)); gterms.push(k); gterms.push(k + 1); k += 2; }
                    for _ in 0..pend { es.push((0, k, 1)); if r.chance(80) { gterms.push(k); } k += 1; }
                    if r.chance(40) { es.push((k - 1, k, 1)); k += 1; }
                    (k, es)
                } else { (n, edges) };
                // 12%: some edges doubled with another weight (the result must still be a tree of the lighter ones)
                let mut edges = edges;
                if !gadget && r.chance(12) { let mut extra: Vec<(usize, usize, i64)> = Vec::new(); for e in edges.iter() { if r.chance(35) { let w = 1 + r.below(9) as i64; extra.push(if r.chance(50) { (e.0, e.1, w) } else { (e.1, e.0, w) }); } } let at_front = r.chance(50); if at_front { let mut v = extra; v.extend(edges); edges = v; } else { edges.extend(extra); } out.stat("kind_steiner_parallel_edges"); }
                let a0 = AbsGraph { directed: false, n, edges };
                let (a, gperm) = if gadget { relabelled(&a0, &mut r) } else { (a0, (0..n).collect()) };
                let g = if gadget { plain_graph::<Undirected>(&a) } else { build_graph::<Undirected, u32>(&a, &mut r) };
                view_hdr!(&g, |e| e.id().index(), g.edge_count(), g.edge_bound(), id, 0, out, dump_view);
                let ids: Vec<usize> = (0..g.node_count()).collect();
                // 6%: a single terminal (the answer is that node alone), 1%: none
                let nt = if r.chance(6) { 1 } else if r.chance(1) { 0 } else { 2 + r.below(3.min(n - 1)) };
                let mut pool = ids.clone(); shuffle(&mut r, &mut pool);
                let terms: Vec<usize> = if gadget { let mut t: Vec<usize> = gterms.iter().map(|x| gperm[*x]).collect(); shuffle(&mut r, &mut t); t } else { pool[..nt.min(pool.len())].to_vec() };
                if gadget { out.stat("kind_steiner_gadget"); }
                let tn: Vec<NodeIndex<u32>> = terms.iter().map(|x| NodeIndex::new(*x)).collect();
                match catch_unwind(AssertUnwindSafe(|| algo::steiner_tree(&g, &tn))) {
                    Ok(t) => {
                        let mut args = vec![terms.len() as i64]; args.extend(terms.iter().map(|x| *x as i64));
                        let ns: Vec<i64> = t.node_indices().map(|x| x.index() as i64).collect();
                        args.push(ns.len() as i64); args.extend(ns);
                        for e in t.edge_references() { args.extend_from_slice(&[e.source().index() as i64, e.target().index() as i64, *e.weight()]); }
                        emit(out, ("steiner".into(), args), Ok(vec![line("verdict", &[0])]));
                    }
                    Err(_) => emit(out, ("steiner".into(), vec![0, 0]), Ok(vec!["panic".into()])),
                }
                // page_rank: directed variant of the same edges, relabelled twin, and a StableGraph with vacancies
                let mut d = a.clone(); d.directed = true; if r.chance(50) { let extra: Vec<_> = d.edges.iter().map(|e| (e.1, e.0, e.2)).collect(); for e in extra { if r.chance(40) { d.edges.push(e); } } }
                if r.chance(35) { let k = r.below(d.n); d.edges.push((k, k, 1)); if r.chance(50) { d.edges.retain(|e| e.0 != k || e.1 == k); } }   // a self-loop; sometimes the node's only out-edge
                let (tw, perm) = relabelled(&d, &mut r);
                let g1 = plain_graph::<Directed>(&d); let g2 = plain_graph::<Directed>(&tw);
                q_pagerank(&g1, &g2, &perm, out);
                let s1 = build_stable::<Directed, u32>(&d, &mut r);
                let sperm: Vec<usize> = s1.node_indices().map(|x| x.index()).collect();
                q_pagerank(&s1, &s1, &sperm, out);
                out.end_case();
            }
        }
        out.stat(&format!("kind_{}", kind));
    }
}
