//! C17: serde round trips and robustness, on Graph and StableGraph histories.
use crate::rng::Rng;
use crate::{c01, c02, line, GOp, Out};
use petgraph::graph::{Graph, IndexType};
use petgraph::stable_graph::StableGraph;
use petgraph::{Directed, EdgeType, Undirected};
use serde::de::DeserializeOwned;
use serde::Serialize;
use serde_json::{json, Value};
use std::panic::{catch_unwind, AssertUnwindSafe};

/// serde_json::Value of a graph -> [n_nodes, w.., n_holes, h.., directed, n_edges, (flag s t w)*]
pub fn wire_nums(v: &Value) -> Vec<i64> {
    let mut out = Vec::new();
    let nodes = v["nodes"].as_array().cloned().unwrap_or_default();
    out.push(nodes.len() as i64);
    out.extend(nodes.iter().map(|x| x.as_i64().unwrap_or(-1)));
    let holes = v["node_holes"].as_array().cloned().unwrap_or_default();
    out.push(holes.len() as i64);
    out.extend(holes.iter().map(|x| x.as_i64().unwrap_or(-1)));
    out.push((v["edge_property"] == "directed") as i64);
    let edges = v["edges"].as_array().cloned().unwrap_or_default();
    out.push(edges.len() as i64);
    for e in edges {
        if e.is_null() { out.extend_from_slice(&[0, 0, 0, 0]); }
        else { out.extend_from_slice(&[1, e[0].as_i64().unwrap_or(-1), e[1].as_i64().unwrap_or(-1), e[2].as_i64().unwrap_or(-1)]); }
    }
    out
}

pub fn wire_value(a: &[i64]) -> Value {
    let nn = a[0] as usize;
    let nodes: Vec<Value> = a[1..1 + nn].iter().map(|x| json!(x)).collect();
    let nh = a[1 + nn] as usize;
    let holes: Vec<Value> = a[2 + nn..2 + nn + nh].iter().map(|x| json!(x)).collect();
    let p = 2 + nn + nh;
    let directed = a[p] == 1;
    let ne = a[p + 1] as usize;
    let mut edges = Vec::new();
    for k in 0..ne { let c = &a[p + 2 + 4 * k..p + 6 + 4 * k]; edges.push(if c[0] == 1 { json!([c[1], c[2], c[3]]) } else { Value::Null }); }
    json!({"nodes": nodes, "node_holes": holes, "edge_property": if directed { "directed" } else { "undirected" }, "edges": edges})
}

/// batteries up to the order inside each adjacency list (a reloaded graph relinks its edges in index order)
fn canon(b: Vec<String>) -> Vec<String> {
    b.into_iter().map(|l| {
        let t: Vec<&str> = l.split_whitespace().collect();
        match t.first().copied() {
            Some("nbo") | Some("nbi") | Some("nbu") => { let mut r: Vec<&str> = t[2..].to_vec(); r.sort(); format!("{} {} {}", t[0], t[1], r.join(" ")) }
            Some("edo") | Some("edi") => { let mut q: Vec<Vec<&str>> = t[2..].chunks(4).map(|c| c.to_vec()).collect(); q.sort(); format!("{} {} {}", t[0], t[1], q.concat().join(" ")) }
            _ => l.clone(),
        }
    }).collect()
}

/// byte-level robustness: mutated JSON and bincode streams must give Err or a graph whose battery does not panic
pub fn bytemut<T: Serialize + DeserializeOwned>(g: &T, seed: i64, use_it: &dyn Fn(T)) -> String {
    let mut r = Rng::new(seed as u64);
    let js = serde_json::to_vec(g).unwrap();
    let bc = bincode::serialize(g).unwrap();
    for round in 0..12 {
        let src = if round % 2 == 0 { &js } else { &bc };
        let mut m = src.clone();
        if m.is_empty() { continue; }
        match r.below(4) {
            0 => { let k = r.below(m.len()); m.truncate(k); }
            1 => { let k = r.below(m.len()); m[k] ^= 1 << r.below(8); }
            2 => { let k = r.below(m.len()); m[k] = b"0123456789[],:\"{}nul-"[r.below(21)]; }
            _ => { let k = r.below(m.len()); let b = m[k]; m.insert(k, b); }
        }
        let ok = catch_unwind(AssertUnwindSafe(|| {
            if round % 2 == 0 { if let Ok(h) = serde_json::from_slice::<T>(&m) { use_it(h); } }
            else if let Ok(h) = bincode::deserialize::<T>(&m) { use_it(h); }
        }));
        if ok.is_err() { return format!("panic-on-mutated-{}-stream round {}", if round % 2 == 0 { "json" } else { "bincode" }, round); }
    }
    "robust".into()
}

fn run_g<Ty: EdgeType, Ix: IndexType + Serialize + DeserializeOwned>(ops: &[GOp], out: &mut Out) {
    let mut g: Graph<u32, u32, Ty, Ix> = Graph::default();
    for o in ops {
        let a = &o.1;
        let v: Vec<String> = match o.0.as_str() {
            "ser" => {
                let val = serde_json::to_value(&g).unwrap();
                let mut v = vec![line("wire", &wire_nums(&val))];
                // both codecs must reproduce the same graph
                let b1: Result<Graph<u32, u32, Ty, Ix>, _> = bincode::deserialize(&bincode::serialize(&g).unwrap());
                let j1: Result<Graph<u32, u32, Ty, Ix>, _> = serde_json::from_str(&serde_json::to_string(&g).unwrap());
                match (b1, j1) {
                    (Ok(b), Ok(j)) => { if canon(c01::battery(&b)) != canon(c01::battery(&g)) || canon(c01::battery(&j)) != canon(c01::battery(&g)) { v.push("codec-roundtrip-differs".into()); } }
                    _ => { if g.node_count() < <Ix as IndexType>::max().index() && g.edge_count() < <Ix as IndexType>::max().index() { v.push("codec-roundtrip-failed".into()); } }
                }
                v
            }
            "deser" | "roundtrip" => {
                let val = if o.0 == "deser" { wire_value(a) } else { serde_json::to_value(&g).unwrap() };
                match catch_unwind(AssertUnwindSafe(|| serde_json::from_value::<Graph<u32, u32, Ty, Ix>>(val))) {
                    Ok(Ok(h)) => { g = h; let mut v = vec!["unit".to_string()]; v.extend(c01::battery(&g)); v }
                    Ok(Err(_)) => vec!["err".into()],
                    Err(_) => vec!["panic".into()],
                }
            }
            "xload" => {
                let val = serde_json::to_value(&g).unwrap();
                match catch_unwind(AssertUnwindSafe(|| serde_json::from_value::<StableGraph<u32, u32, Ty, Ix>>(val))) {
                    Ok(Ok(h)) => { let mut v = vec!["unit".to_string()]; v.extend(c02::battery(&h)); v }
                    Ok(Err(_)) => vec!["err".into()],
                    Err(_) => vec!["panic".into()],
                }
            }
            "bytemut" => vec![bytemut(&g, a[0], &|h: Graph<u32, u32, Ty, Ix>| { let _ = c01::battery(&h); let mut h = h; let n = h.add_node(1); if h.node_count() > 1 { h.add_edge(n, petgraph::graph::NodeIndex::new(0), 2); } let _ = c01::battery(&h); })],
            _ => {
                let first = match catch_unwind(AssertUnwindSafe(|| c01::apply(&mut g, o))) { Ok(s) => s, Err(_) => "panic".into() };
                let mut v = vec![first];
                if !c01::is_query(&o.0) { v.extend(c01::battery(&g)); }
                v
            }
        };
        out.obs_lines(&v);
    }
}

fn run_s<Ty: EdgeType, Ix: IndexType + Serialize + DeserializeOwned>(ops: &[GOp], out: &mut Out) {
    let mut g: StableGraph<u32, u32, Ty, Ix> = StableGraph::default();
    for o in ops {
        let a = &o.1;
        let v: Vec<String> = match o.0.as_str() {
            "ser" => {
                let val = serde_json::to_value(&g).unwrap();
                let mut v = vec![line("wire", &wire_nums(&val))];
                let b1: Result<StableGraph<u32, u32, Ty, Ix>, _> = bincode::deserialize(&bincode::serialize(&g).unwrap());
                let j1: Result<StableGraph<u32, u32, Ty, Ix>, _> = serde_json::from_str(&serde_json::to_string(&g).unwrap());
                match (b1, j1) {
                    (Ok(b), Ok(j)) => { if canon(c02::battery(&b)) != canon(c02::battery(&g)) || canon(c02::battery(&j)) != canon(c02::battery(&g)) { v.push("codec-roundtrip-differs".into()); } }
                    _ => { use petgraph::visit::{EdgeIndexable, NodeIndexable};
                           if g.node_bound() < <Ix as IndexType>::max().index() && g.edge_bound() < <Ix as IndexType>::max().index() { v.push("codec-roundtrip-failed".into()); } }
                }
                v
            }
            "deser" | "roundtrip" => {
                let val = if o.0 == "deser" { wire_value(a) } else { serde_json::to_value(&g).unwrap() };
                match catch_unwind(AssertUnwindSafe(|| serde_json::from_value::<StableGraph<u32, u32, Ty, Ix>>(val))) {
                    Ok(Ok(h)) => { g = h; let mut v = vec!["unit".to_string()]; v.extend(c02::battery(&g)); v }
                    Ok(Err(_)) => vec!["err".into()],
                    Err(_) => vec!["panic".into()],
                }
            }
            "xload" => {
                let val = serde_json::to_value(&g).unwrap();
                match catch_unwind(AssertUnwindSafe(|| serde_json::from_value::<Graph<u32, u32, Ty, Ix>>(val))) {
                    Ok(Ok(h)) => { let mut v = vec!["unit".to_string()]; v.extend(c01::battery(&h)); v }
                    Ok(Err(_)) => vec!["err".into()],
                    Err(_) => vec!["panic".into()],
                }
            }
            "bytemut" => vec![bytemut(&g, a[0], &|h: StableGraph<u32, u32, Ty, Ix>| { let _ = c02::battery(&h); let mut h = h; let n = h.add_node(1); let m = h.add_node(2); h.add_edge(n, m, 2); h.retain_nodes(|_, _| true); let _ = c02::battery(&h); })],
            _ => {
                let mut v = match catch_unwind(AssertUnwindSafe(|| c02::apply(&mut g, o))) { Ok(s) => s, Err(_) => vec!["panic".to_string()] };
                if !c02::is_query(&o.0) { v.extend(c02::battery(&g)); }
                v
            }
        };
        out.obs_lines(&v);
    }
}

/// header: [directed, debug, cap, capcheck, ixcode]
pub fn run_case(stream: &str, id: usize, h: &[i64], ops: &[GOp], out: &mut Out) {
    let mut h = h.to_vec();
    h[1] = cfg!(debug_assertions) as i64;
    out.case(id, &h);
    for o in ops { out.op(o); }
    macro_rules! go { ($f:ident, $ix:ty) => { if h[0] == 1 { $f::<Directed, $ix>(ops, out) } else { $f::<Undirected, $ix>(ops, out) } }; }
    if stream == "C17g" { match h[4] { 0 => go!(run_g, u8), 1 => go!(run_g, u16), _ => go!(run_g, u32) } }
    else { match h[4] { 0 => go!(run_s, u8), 1 => go!(run_s, u16), _ => go!(run_s, u32) } }
    out.end_case();
}

fn random_wire(r: &mut Rng, directed: bool, stable: bool) -> Vec<i64> {
    let nn = r.below(6);
    let mut v = vec![nn as i64];
    for _ in 0..nn { v.push(r.below(50) as i64); }
    let mut holes: Vec<i64> = Vec::new();
    if stable || r.chance(15) {
        let nh = r.below(4);
        let total = nn + nh;
        let mut hs: Vec<i64> = (0..nh).map(|_| r.below(total.max(1) + 1) as i64).collect();
        match r.below(10) { 0 => {}, 1 => hs.reverse(), _ => { hs.sort(); if r.chance(80) { hs.dedup(); } } }
        holes = hs;
    }
    v.push(holes.len() as i64); v.extend(holes.iter());
    v.push(if r.chance(90) { directed as i64 } else { 1 - directed as i64 });
    let total = (nn + holes.len()).max(1);
    let ne = r.below(6);
    v.push(ne as i64);
    for _ in 0..ne {
        if (stable && r.chance(20)) || r.chance(4) { v.extend_from_slice(&[0, 0, 0, 0]); }
        else { let pick = |r: &mut Rng| if r.chance(88) { r.below(total) as i64 } else { (total + r.below(3)) as i64 }; v.extend_from_slice(&[1, pick(r), pick(r), r.below(50) as i64]); }
    }
    v
}

pub fn gen(stream: &str, seed: u64, n: usize, out: &mut Out) {
    let stable = stream == "C17s";
    let mut r = Rng::new(seed ^ if stable { 0xC175 } else { 0xC176 });
    for id in 0..n {
        let directed = r.chance(50);
        let ixc = if id % 60 == 7 { 0 } else { 1 + r.below(2) as i64 };
        let (cap, capcheck) = if ixc == 0 { (255, 1) } else { (3000, 0) };
        let mut ops: Vec<GOp> = Vec::new();
        if ixc == 0 {
            // a full u8 graph: 255 nodes serialize, and (known finding) do not load again
            let mut chain = Vec::new();
            for i in 0..253 { chain.extend_from_slice(&[i as i64, i as i64 + 1, (i % 40) as i64]); }
            ops.push(("extend_with_edges".into(), chain));       // 254 live nodes, 253 edges
            ops.push(("roundtrip".into(), vec![]));
            ops.push(("add_node".into(), vec![1]));
            ops.push(("ser".into(), vec![]));
            ops.push(("roundtrip".into(), vec![]));
            run_case(stream, id, &[directed as i64, 0, cap, capcheck, ixc], &ops, out);
            out.stat("kind_u8_full");
            continue;
        }
        if stable && id % 30 == 11 {
            // more slots than the index type admits although the present nodes fit: 250 nodes + 5..10 holes into a u8 graph
            let holes_n = 5 + r.below(6);
            let total = 250 + holes_n;
            let mut holes: Vec<i64> = Vec::new();
            while holes.len() < holes_n { let h = r.below(total) as i64; if !holes.contains(&h) { holes.push(h); } }
            holes.sort();
            let mut w = vec![250i64]; w.extend((0..250).map(|i| (i % 50) as i64));
            w.push(holes_n as i64); w.extend(holes.iter());
            w.push(directed as i64); w.push(0);
            ops.push(("deser".into(), w));
            ops.push(("add_node".into(), vec![1]));
            run_case(stream, id, &[directed as i64, 0, 255, 1, 0], &ops, out);
            out.stat("kind_u8_slots_over_limit");
            continue;
        }
        if stable && id % 30 == 17 {
            // several node vacancies, round trip, then re-occupy a vacancy that is not the head of the free list
            for i in 0..6 { ops.push(("add_node".into(), vec![10 + i])); }
            ops.push(("add_edge".into(), vec![0, 3, 1])); ops.push(("add_edge".into(), vec![3, 5, 2])); ops.push(("add_edge".into(), vec![1, 2, 3]));
            let mut dead = vec![1i64, 2, 4];
            for i in (1..dead.len()).rev() { let j = r.below(i + 1); dead.swap(i, j); }
            for d in &dead { ops.push(("remove_node".into(), vec![*d])); }
            ops.push(("roundtrip".into(), vec![]));
            ops.push(("extend_with_edges".into(), vec![0, dead[r.below(3)], 7]));
            for i in 0..3 { ops.push(("add_node".into(), vec![20 + i])); }
            ops.push(("add_edge".into(), vec![0, 5, 9]));
            run_case(stream, id, &[directed as i64, 0, cap, capcheck, ixc], &ops, out);
            out.stat("kind_vacancies_reoccupied_after_load");
            continue;
        }
        let len = 6 + r.below(25);
        let mut nb = 0usize; let mut eb = 0usize;
        for _ in 0..len {
            let node = |r: &mut Rng, nb: usize| -> i64 { if nb > 0 && r.chance(90) { r.below(nb) as i64 } else { (nb + r.below(2)) as i64 } };
            match r.weighted(&[14, 22, 8, 8, 2, 6, 7, 10, 4, 3, 3]) {
                0 => { nb += 1; ops.push(("add_node".into(), vec![r.below(50) as i64])); }
                1 => { eb += 1; ops.push(("add_edge".into(), vec![if nb > 0 { r.below(nb) as i64 } else { 0 }, if nb > 0 { r.below(nb) as i64 } else { 0 }, r.below(50) as i64])); }
                2 => ops.push(("remove_node".into(), vec![node(&mut r, nb)])),
                3 => ops.push(("remove_edge".into(), vec![if eb > 0 { r.below(eb) as i64 } else { 0 }])),
                4 => ops.push(("reverse".into(), vec![])),
                5 => ops.push(("ser".into(), vec![])),
                6 => ops.push(("roundtrip".into(), vec![])),
                7 => { ops.push(("deser".into(), random_wire(&mut r, directed, stable))); nb = 6; eb = 6; }
                8 => ops.push(("xload".into(), vec![])),
                9 => ops.push(("bytemut".into(), vec![r.below(1_000_000) as i64])),
                _ => ops.push(("try_add_node".into(), vec![r.below(50) as i64])),
            }
        }
        ops.push(("ser".into(), vec![]));
        ops.push(("roundtrip".into(), vec![]));
        ops.push(("add_node".into(), vec![9]));
        ops.push(("add_node".into(), vec![8]));
        ops.push(("add_edge".into(), vec![0, 1, 5]));
        run_case(stream, id, &[directed as i64, 0, cap, capcheck, ixc], &ops, out);
    }
}
