//! C10 / C11: shortest-path algorithms on the encodings of one abstract weighted graph.
use crate::enc::*;
use crate::rng::Rng;
use crate::{line, GOp, Out};
use petgraph::algo;
use petgraph::visit::{
    Data, EdgeCount, EdgeIndexable, EdgeRef, GraphProp, GraphRef, IntoEdgeReferences, IntoEdges, IntoNodeIdentifiers,
    NodeCompactIndexable, NodeCount, NodeIndexable, Visitable,
};
use petgraph::{Directed, Undirected};
use std::hash::Hash;
use std::panic::{catch_unwind, AssertUnwindSafe};

const INF: i64 = 2_000_000_000;

fn scores<G: NodeIndexable>(g: G, m: impl IntoIterator<Item = (G::NodeId, i64)>) -> String {
    let mut v: Vec<(i64, i64)> = m.into_iter().map(|(k, d)| (g.to_index(k) as i64, d)).collect();
    v.sort();
    line("scores", &v.iter().flat_map(|(a, b)| vec![*a, *b]).collect::<Vec<_>>())
}

pub fn q_cost<G>(g: G, q: &GOp) -> Option<Vec<String>>
where G: GraphRef + IntoEdges + IntoNodeIdentifiers + Visitable + NodeIndexable + NodeCount + Data<EdgeWeight = i64>, G::NodeId: Eq + Hash {
    let a = &q.1;
    let n = |i: i64| g.from_index(i as usize);
    Some(match q.0.as_str() {
        "dijkstra" => {
            let goal = if a[1] < 0 { None } else { Some(n(a[1])) };
            let r1 = algo::dijkstra(g, n(a[0]), goal, |e| *e.weight());
            let r2 = algo::dijkstra(g, n(a[0]), goal, |e| *e.weight() as f64);
            let s1 = scores(g, r1.into_iter());
            let s2 = scores(g, r2.into_iter().map(|(k, d)| (k, d as i64)));
            if s1 != s2 { vec![s1, "float-vs-integer-mismatch".into()] } else { vec![s1] }
        }
        "astar" => {
            let ng = a[1] as usize;
            let goals: Vec<usize> = a[2..2 + ng].iter().map(|x| *x as usize).collect();
            let tbl: Vec<(usize, i64)> = a[2 + ng..].chunks(2).filter(|c| c.len() == 2).map(|c| (c[0] as usize, c[1])).collect();
            let h = |x: G::NodeId| -> i64 { let i = g.to_index(x); tbl.iter().find(|(k, _)| *k == i).map(|(_, v)| *v).unwrap_or(0) };
            match algo::astar(g, n(a[0]), |x| goals.contains(&g.to_index(x)), |e| *e.weight(), h) {
                None => vec!["none".into()],
                Some((c, p)) => { let mut v = vec![c]; v.extend(p.iter().map(|x| g.to_index(*x) as i64)); vec![line("path", &v)] }
            }
        }
        "ksp" => {
            let goal = if a[2] < 0 { None } else { Some(n(a[2])) };
            vec![scores(g, algo::k_shortest_path(g, n(a[1]), goal, a[3] as usize, |e| *e.weight()).into_iter())]
        }
        "spfa" => match algo::spfa(g, n(a[0]), |e| *e.weight() as i32) {
            Err(_) => vec!["err".into()],
            Ok(p) => vec![line("dist", &p.distances.iter().map(|d| *d as i64).collect::<Vec<_>>()),
                          line("pred", &p.predecessors.iter().map(|o| o.map(|x| g.to_index(x) as i64).unwrap_or(-1)).collect::<Vec<_>>())],
        },
        _ => return None,
    })
}

pub fn q_float<G>(g: G, q: &GOp) -> Option<Vec<String>>
where G: GraphRef + IntoEdges + IntoNodeIdentifiers + Visitable + NodeIndexable + NodeCount + Data<EdgeWeight = f64> {
    let a = &q.1;
    let n = |i: i64| g.from_index(i as usize);
    let fd = |d: f64| if d.is_infinite() { INF } else { d as i64 };
    Some(match q.0.as_str() {
        "bellman_ford" => {
            // the f32 instance on a copy of the arcs (an undirected edge shows as two arcs): same Ok/Err, same distances
            let mut h: petgraph::graph::DiGraph<(), f32> = petgraph::graph::DiGraph::new();
            for _ in 0..g.node_bound() { h.add_node(()); }
            for x in g.node_identifiers() { for e in g.edges(x) { h.add_edge(petgraph::graph::NodeIndex::new(g.to_index(x)), petgraph::graph::NodeIndex::new(g.to_index(e.target())), *e.weight() as f32); } }
            let exact32 = h.edge_weights().all(|w| w.abs() < 16_000_000.0);      // f32 holds these integers exactly
            let r32 = algo::bellman_ford(&h, petgraph::graph::NodeIndex::new(a[0] as usize));
            match algo::bellman_ford(g, n(a[0])) {
                Err(_) => { let mut v = vec!["err".to_string()]; if exact32 && r32.is_ok() { v.push("f32-twin-mismatch".into()); } v }
                Ok(p) => {
                    let mut v = vec![line("dist", &p.distances.iter().map(|d| fd(*d)).collect::<Vec<_>>()),
                                     line("pred", &p.predecessors.iter().map(|o| o.map(|x| g.to_index(x) as i64).unwrap_or(-1)).collect::<Vec<_>>())];
                    match r32 {
                        _ if !exact32 => {}
                        Ok(q) => { if q.distances.iter().map(|d| if d.is_infinite() { INF } else { *d as i64 }).collect::<Vec<_>>() != p.distances.iter().map(|d| fd(*d)).collect::<Vec<_>>() { v.push("f32-twin-mismatch".into()); } }
                        Err(_) => v.push("f32-twin-mismatch".into()),
                    }
                    v
                }
            }
        }
        "find_negative_cycle" => match algo::find_negative_cycle(g, n(a[0])) {
            None => vec!["none".into()],
            Some(c) => vec![line("cycle", &c.iter().map(|x| g.to_index(*x) as i64).collect::<Vec<_>>())],
        },
        _ => return None,
    })
}

pub fn q_fw<G>(g: G, q: &GOp) -> Option<Vec<String>>
where G: GraphRef + NodeCompactIndexable + IntoEdgeReferences + IntoNodeIdentifiers + GraphProp + Data<EdgeWeight = i64>, G::NodeId: Eq + Hash {
    let n = g.node_count();
    let flat = |m: &hashbrown::HashMap<(G::NodeId, G::NodeId), i32>| -> Vec<i64> {
        let mut v = Vec::new();
        for i in 0..n { for j in 0..n { v.push(*m.get(&(g.from_index(i), g.from_index(j))).unwrap() as i64); } }
        v
    };
    Some(match q.0.as_str() {
        "floyd_warshall" => match algo::floyd_warshall(g, |e| *e.weight() as i32) { Err(_) => vec!["err".into()], Ok(m) => vec![line("fw", &flat(&m))] },
        "floyd_warshall_path" => match algo::floyd_warshall::floyd_warshall_path(g, |e| *e.weight() as i32) {
            Err(_) => vec!["err".into()],
            Ok((m, p)) => vec![line("fw", &flat(&m)), line("fwp", &p.iter().flat_map(|r| r.iter().map(|o| o.map(|x| x as i64).unwrap_or(-1))).collect::<Vec<_>>())],
        },
        _ => return None,
    })
}

pub fn q_mst<G>(g: G, q: &GOp) -> Option<Vec<String>>
where G: GraphRef + petgraph::visit::IntoNodeReferences + IntoEdgeReferences + IntoEdges + NodeIndexable + Data<EdgeWeight = i64>, G::NodeWeight: Clone + WAsI64 {
    use petgraph::data::Element;
    let collect = |it: &mut dyn Iterator<Item = Element<G::NodeWeight, i64>>| -> Vec<String> {
        let (mut ns, mut es) = (Vec::new(), Vec::new());
        let mut seen_edge = false;
        for el in it {
            match el {
                Element::Node { weight } => { if seen_edge { ns.push(-777); } ns.push(weight.as_i64()); }
                Element::Edge { source, target, weight } => { seen_edge = true; es.extend_from_slice(&[source as i64, target as i64, weight]); }
            }
        }
        vec![line("msn", &ns), line("mse", &es)]
    };
    Some(match q.0.as_str() {
        "kruskal" => {
            let mut v = collect(&mut algo::min_spanning_tree(g));
            // NaN scores are ordered last: on an f64 copy in which every edge outside this forest weighs NaN, Kruskal must
            // return a forest of the same finite total weight and never a NaN edge
            let forest: Vec<(usize, usize, i64)> = algo::min_spanning_tree(g).filter_map(|el| match el { Element::Edge { source, target, weight } => Some((source, target, weight)), _ => None }).collect();
            let total: i64 = forest.iter().map(|e| e.2).sum();
            let ids: Vec<usize> = g.node_references().map(|n| g.to_index(petgraph::visit::NodeRef::id(&n))).collect();
            let mut left = forest.clone();
            let mut h: petgraph::graph::UnGraph<(), f64> = petgraph::graph::UnGraph::new_undirected();
            for _ in 0..g.node_bound() { h.add_node(()); }
            for e in g.edge_references() {
                let (s, t, w) = (g.to_index(e.source()), g.to_index(e.target()), *e.weight());
                let pos = |x: usize| ids.iter().position(|y| *y == x).unwrap_or(usize::MAX);
                let k = left.iter().position(|f| f.2 == w && ((f.0 == pos(s) && f.1 == pos(t)) || (f.0 == pos(t) && f.1 == pos(s))));
                let wf = match k { Some(i) => { left.remove(i); w as f64 } None => f64::NAN };
                h.add_edge(petgraph::graph::NodeIndex::new(s), petgraph::graph::NodeIndex::new(t), wf);
            }
            let t2: f64 = algo::min_spanning_tree(&h).filter_map(|el| match el { Element::Edge { weight, .. } => Some(weight), _ => None }).sum();
            if left.is_empty() && !(t2 == total as f64) { v.push("nan-twin-mismatch".into()); }
            v
        }
        "prim" => collect(&mut algo::min_spanning_tree_prim(g)),
        _ => return None,
    })
}

pub trait WAsI64 { fn as_i64(&self) -> i64; }
impl WAsI64 for u32 { fn as_i64(&self) -> i64 { *self as i64 } }
impl WAsI64 for () { fn as_i64(&self) -> i64 { 0 } }

/// all-pairs distances over the dumped out-lists (for building admissible heuristics); None = unreachable
fn dist_matrix(ops: &[GOp], bound: usize) -> Vec<Vec<Option<i64>>> {
    let mut d = vec![vec![None; bound]; bound];
    for i in 0..bound { d[i][i] = Some(0); }
    for o in ops {
        if o.0 == "out" {
            let a = o.1[0] as usize;
            for c in o.1[1..].chunks(3) { let (t, w) = (c[1] as usize, c[2]); if d[a][t].map_or(true, |x| w < x) { d[a][t] = Some(w); } }
        }
    }
    for k in 0..bound { for i in 0..bound { for j in 0..bound {
        if let (Some(x), Some(y)) = (d[i][k], d[k][j]) { if d[i][j].map_or(true, |z| x + y < z) { d[i][j] = Some(x + y); } }
    } } }
    d
}

fn gen_queries(stream: &str, r: &mut Rng, ids: &[usize], bound: usize, ncount: usize, ops: &[GOp], compact: bool, nodew: &[i64], directed: bool) -> Vec<GOp> {
    let mut qs: Vec<GOp> = Vec::new();
    if ids.is_empty() && stream != "C12" { return qs; }
    let pick = |r: &mut Rng| -> i64 { ids[r.below(ids.len())] as i64 };
    if stream == "C12" {
        // the element stream starts with the node weights in node_references order: passed along for the model
        let nw: Vec<i64> = nodew.to_vec();
        qs.push(("kruskal".into(), nw.clone()));
        if !directed { qs.push(("prim".into(), nw)); }
        return qs;
    }
    if stream == "C10" {
        let dm = dist_matrix(ops, bound);
        for _ in 0..2 { qs.push(("dijkstra".into(), vec![pick(r), -1])); }
        qs.push(("dijkstra".into(), vec![pick(r), pick(r)]));
        for _ in 0..2 {
            let s = pick(r);
            let ng = 1 + r.below(2);
            let goals: Vec<i64> = (0..ng).map(|_| pick(r)).collect();
            let mut v = vec![s, ng as i64]; v.extend(goals.iter());
            // admissible, usually inconsistent: h(x) = floor(lambda_x * dist(x, goals)), lambda_x in {0, 1/2, 1}
            for &x in ids {
                let dg = goals.iter().filter_map(|g| dm[x][*g as usize]).min();
                if let Some(dg) = dg { let lam = r.below(3) as i64; v.extend_from_slice(&[x as i64, dg * lam / 2]); }
                else if r.chance(30) { v.extend_from_slice(&[x as i64, r.below(20) as i64]); }   // no goal reachable from x: any value is admissible
            }
            qs.push(("astar".into(), v));
        }
        for _ in 0..2 { qs.push(("ksp".into(), vec![ncount as i64, pick(r), -1, 1 + r.below(4) as i64])); }
        if r.chance(30) { qs.push(("ksp".into(), vec![ncount as i64, pick(r), pick(r), 1 + r.below(3) as i64])); }
    } else {
        for _ in 0..2 {
            let s = pick(r);
            qs.push(("bellman_ford".into(), vec![s]));
            qs.push(("find_negative_cycle".into(), vec![s]));
            qs.push(("spfa".into(), vec![s]));
        }
        if compact { qs.push((if r.chance(50) { "floyd_warshall" } else { "floyd_warshall_path" }.into(), vec![])); }
    }
    qs
}

fn answer(out: &mut Out, q: &GOp, r: std::thread::Result<Option<Vec<String>>>) {
    out.op(q);
    match r { Ok(Some(s)) => out.obs_lines(&s), Ok(None) => out.obs_lines(&["unsupported".to_string()]), Err(_) => out.obs_lines(&["panic".to_string()]) }
}

macro_rules! run_w {
    ($stream:expr, $g:expr, $gf:expr, $eid:expr, $ecount:expr, $ebound:expr, $id:expr, $enc:expr, $r:expr, $out:expr, $compact:tt) => {{
        let g = $g; let gf = $gf;
        let (hdr, ops) = dump_view_out(g, $eid, $ecount, $ebound, &[$enc as i64]);
        emit_view($out, $id, &hdr, &ops);
        let ids: Vec<usize> = g.node_identifiers().map(|x| NodeIndexable::to_index(&g, x)).collect();
        let nodew: Vec<i64> = petgraph::visit::IntoNodeReferences::node_references(g).map(|n| WAsI64::as_i64(petgraph::visit::NodeRef::weight(&n))).collect();
        let qs = gen_queries($stream, $r, &ids, NodeIndexable::node_bound(&g), NodeIndexable::node_bound(&g), &ops, $compact, &nodew, hdr[0] == 1);
        for q in &qs {
            let res = catch_unwind(AssertUnwindSafe(|| q_cost(g, q).or_else(|| q_float(gf, q)).or_else(|| fw_q!($compact, g, q)).or_else(|| q_mst(g, q))));
            answer($out, q, res);
        }
        $out.end_case();
    }};
}
macro_rules! fw_q {
    (true, $g:expr, $q:expr) => { q_fw($g, $q) };
    (false, $g:expr, $q:expr) => { None::<Vec<String>> };
}

fn f(w: i64) -> f64 { w as f64 }

pub fn run_enc(stream: &str, id: usize, a: &AbsGraph, enc: usize, r: &mut Rng, out: &mut Out) {
    macro_rules! ty { ($f:ident, $d:ty, $u:ty) => { if a.directed { $f!($d) } else { $f!($u) } }; }
    let mut r2 = r.clone();   // the float-weighted twin is built from the same random choices
    match enc {
        0 => { macro_rules! go { ($t:ty) => {{ let g = build_graph::<$t, u32>(a, r); let gf = build_graph_w::<$t, u32, f64>(a, &mut r2, f); run_w!(stream, &g, &gf, |e| e.id().index(), g.edge_count(), g.edge_bound(), id, enc, r, out, true) }}; } ty!(go, Directed, Undirected) }
        2 => { macro_rules! go { ($t:ty) => {{ let g = build_stable::<$t, u32>(a, r); let gf = build_stable_w::<$t, u32, f64>(a, &mut r2, f); run_w!(stream, &g, &gf, |e| e.id().index(), g.edge_count(), g.edge_bound(), id, enc, r, out, false) }}; } ty!(go, Directed, Undirected) }
        3 => { macro_rules! go { ($t:ty) => {{ let g = build_graphmap::<$t>(a, r); let gf = build_graphmap_w::<$t, f64>(a, &mut r2, f); run_w!(stream, &g, &gf, |e| { let (s, t) = e.id(); g.all_edges().position(|(x, y, _)| (x, y) == (s, t) || (!a.directed && (x, y) == (t, s))).unwrap_or(9999) }, g.edge_count(), EdgeIndexable::edge_bound(&g), id, enc, r, out, true) }}; } ty!(go, Directed, Undirected) }
        4 => { macro_rules! go { ($t:ty) => {{ let g = build_csr::<$t, u32>(a, r); let gf = build_csr_w::<$t, u32, f64>(a, &mut r2, f); run_w!(stream, &g, &gf, |e| e.id(), EdgeCount::edge_count(&g), 0, id, enc, r, out, true) }}; } ty!(go, Directed, Undirected) }
        5 => { let g = build_list::<u32>(a, r); let gf = build_list_w::<u32, f64>(a, &mut r2, f); run_w!(stream, &g, &gf, |_e| 0, EdgeCount::edge_count(&g), 0, id, enc, r, out, true) }
        _ => { macro_rules! go { ($t:ty) => {{ let g = build_matrix::<$t, u16>(a, r); let gf = build_matrix_w::<$t, u16, f64>(a, &mut r2, f); run_w!(stream, &g, &gf, |_e| 0, g.edge_count(), 0, id, enc, r, out, false) }}; } ty!(go, Directed, Undirected) }
    }
    out.stat(&format!("enc_{}", enc));
}

pub fn gen(stream: &str, seed: u64, n: usize, out: &mut Out) {
    let mut r = Rng::new(seed ^ match stream { "C10" => 0xC10, "C11" => 0xC11, _ => 0xC12 });
    for id in 0..n {
        let simple = r.chance(45);
        let mut a = match stream { "C10" => gen_abs(&mut r, 8, simple, true, 0, 9), "C11" => gen_abs(&mut r, 8, simple, true, -6, 9), _ => gen_abs(&mut r, 8, simple, true, 0, 5) };
        if stream == "C12" && r.chance(60) { a.directed = false; }
        if stream == "C11" && id % 5 == 0 {
            // acyclic with exponentially spread negative costs: the family on which a LIFO work list over-visits
            let n = 7 + r.below(5);
            let mut edges = Vec::new();
            for i in 0..n { for j in i + 1..n { if j == i + 1 || r.chance(45) { edges.push((i, j, -(1i64 << (n - 1 - i).min(12)) + (j - i) as i64 - r.below(3) as i64)); } } }
            a = AbsGraph { directed: true, n, edges };
            out.stat("kind_spread_dag");
        } else if stream == "C11" && r.chance(12) {
            // non-negative costs near the top of i32: path sums overflow although the shortest distances mostly fit; the i32
            // instances (spfa, floyd_warshall) must skip the overflowing candidates (overflowing_add), not wrap them
            let huge: [i64; 6] = [1 << 30, (1 << 30) + 7, (1i64 << 31) - 1, (1i64 << 31) - 9, 1_500_000_000, 2_000_000_011];
            for e in a.edges.iter_mut() { e.2 = if r.chance(50) { huge[r.below(6)] } else { r.below(10) as i64 }; }
            out.stat("kind_costs_near_i32_max");
        } else if stream == "C11" && !a.directed && r.chance(70) {
            // undirected graphs: a negative edge is already a negative cycle; keep most of them non-negative
            for e in a.edges.iter_mut() { e.2 = e.2.abs(); }
        }
        let encs = [0usize, 2, 3, 4, 5, 6];
        let mut enc = encs[r.below(6)];
        if !enc_ok(enc, &a, false) { enc = if r.chance(50) { 0 } else { 2 }; }
        out.stat(if a.directed { "abs_directed" } else { "abs_undirected" });
        run_enc(stream, id, &a, enc, &mut r, out);
    }
}
