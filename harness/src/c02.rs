//! C02: StableGraph histories.
use crate::rng::Rng;
use crate::{line, GOp, Out};
use petgraph::graph::{EdgeIndex, Graph, GraphError, IndexType, NodeIndex};
use petgraph::stable_graph::StableGraph;
use petgraph::visit::{EdgeIndexable, EdgeRef, IntoEdgeReferences, IntoNodeReferences, NodeIndexable};
use petgraph::{Directed, Direction, EdgeType, Undirected};
use std::panic::{catch_unwind, AssertUnwindSafe};

pub type Sg<Ty, Ix> = StableGraph<u32, u32, Ty, Ix>;

fn ni<Ix: IndexType>(x: i64) -> NodeIndex<Ix> { NodeIndex::new(x as usize) }
fn ei<Ix: IndexType>(x: i64) -> EdgeIndex<Ix> { EdgeIndex::new(x as usize) }
fn dir(k: i64) -> Direction { if k == 0 { Direction::Outgoing } else { Direction::Incoming } }
fn with(a: i64, mut v: Vec<i64>) -> Vec<i64> { v.insert(0, a); v }

fn eref_flat<'a, Ix: IndexType>(it: impl Iterator<Item = petgraph::stable_graph::EdgeReference<'a, u32, Ix>>) -> Vec<i64> {
    let mut v = Vec::new();
    for e in it { v.extend_from_slice(&[e.id().index() as i64, e.source().index() as i64, e.target().index() as i64, *e.weight() as i64]); }
    v
}

pub fn battery<Ty: EdgeType, Ix: IndexType>(g: &Sg<Ty, Ix>) -> Vec<String> {
    let mut v = Vec::new();
    v.push(line("counts", &[g.node_count() as i64, g.edge_count() as i64, g.node_bound() as i64, g.edge_bound() as i64]));
    let mut nodes = Vec::new();
    for (i, w) in g.node_references() { nodes.push(i.index() as i64); nodes.push(*w as i64); }
    v.push(line("nodes", &nodes));
    v.push(line("erefs", &eref_flat(g.edge_references())));
    v.push(line("exto", &g.externals(Direction::Outgoing).map(|x| x.index() as i64).collect::<Vec<_>>()));
    v.push(line("exti", &g.externals(Direction::Incoming).map(|x| x.index() as i64).collect::<Vec<_>>()));
    let ids: Vec<i64> = g.node_indices().map(|x| x.index() as i64).collect();
    for &a in &ids {
        v.push(line("nbo", &with(a, g.neighbors(ni(a)).take(4000).map(|x| x.index() as i64).collect())));
        v.push(line("nbi", &with(a, g.neighbors_directed(ni(a), Direction::Incoming).take(4000).map(|x| x.index() as i64).collect())));
        v.push(line("nbu", &with(a, g.neighbors_undirected(ni(a)).take(4000).map(|x| x.index() as i64).collect())));
        v.push(line("edo", &with(a, eref_flat(g.edges(ni(a)).take(4000)))));
        v.push(line("edi", &with(a, eref_flat(g.edges_directed(ni(a), Direction::Incoming).take(4000)))));
    }
    // every iterator must describe the same element sets
    if ids != nodes.chunks(2).map(|c| c[0]).collect::<Vec<_>>() { v.push("node-indices-vs-references-mismatch".into()); }
    if g.node_weights().map(|w| *w as i64).collect::<Vec<_>>() != nodes.chunks(2).map(|c| c[1]).collect::<Vec<_>>() { v.push("node-weights-mismatch".into()); }
    let er = eref_flat(g.edge_references());
    if g.edge_indices().map(|e| e.index() as i64).collect::<Vec<_>>() != er.chunks(4).map(|c| c[0]).collect::<Vec<_>>() { v.push("edge-indices-mismatch".into()); }
    if g.edge_weights().map(|w| *w as i64).collect::<Vec<_>>() != er.chunks(4).map(|c| c[3]).collect::<Vec<_>>() { v.push("edge-weights-mismatch".into()); }
    if ids.len() != g.node_count() || er.len() / 4 != g.edge_count() { v.push("counts-vs-iterators-mismatch".into()); }
    // double-ended iteration (vacant slots are skipped from both ends), size hints and indexing agree with the forward lists
    if !crate::enc::rev_ok(g.node_indices()) || !crate::enc::rev_ok(g.edge_indices()) || !crate::enc::rev_ok(g.node_references())
        || !crate::enc::rev_ok(g.edge_references()) { v.push("back-iteration-mismatch".into()); }
    if g.node_indices().any(|i| Some(&g[i]) != g.node_weight(i)) || g.edge_indices().any(|e| Some(&g[e]) != g.edge_weight(e)) { v.push("index-operator-mismatch".into()); }
    {   // the visit traits answer like the inherent methods; a visit map reset for this graph has room for every index below node_bound
        use petgraph::visit::{EdgeCount, NodeCount, Visitable};
        let mut m = fixedbitset::FixedBitSet::default(); g.reset_map(&mut m);
        if NodeCount::node_count(g) != g.node_count() || EdgeCount::edge_count(g) != g.edge_count()
            || m.len() < g.node_bound() || g.visit_map().len() < g.node_bound() { v.push("visit-trait-mismatch".into()); }
    }
    v
}

fn gerr(e: GraphError) -> String {
    match e { GraphError::NodeIxLimit => "limit".into(), GraphError::EdgeIxLimit => "elimit".into(),
              GraphError::NodeMissed(i) => line("missed", &[i as i64]), GraphError::NodeOutBounds => "oob".into() }
}
fn opt(o: Option<u32>) -> String { match o { Some(w) => line("some", &[w as i64]), None => "none".into() } }
fn optix(o: Option<usize>) -> String { match o { Some(w) => line("some", &[w as i64]), None => "none".into() } }

pub fn apply<Ty: EdgeType, Ix: IndexType>(g: &mut Sg<Ty, Ix>, o: &GOp) -> Vec<String> {
    let a = &o.1;
    let one = |s: String| vec![s];
    match o.0.as_str() {
        "add_node" => one(line("idx", &[g.add_node(a[0] as u32).index() as i64])),
        "try_add_node" => one(match g.try_add_node(a[0] as u32) { Ok(i) => line("idx", &[i.index() as i64]), Err(e) => gerr(e) }),
        "add_edge" => one(line("idx", &[g.add_edge(ni(a[0]), ni(a[1]), a[2] as u32).index() as i64])),
        "try_add_edge" => one(match g.try_add_edge(ni(a[0]), ni(a[1]), a[2] as u32) { Ok(i) => line("idx", &[i.index() as i64]), Err(e) => gerr(e) }),
        "update_edge" => one(line("idx", &[g.update_edge(ni(a[0]), ni(a[1]), a[2] as u32).index() as i64])),
        "try_update_edge" => one(match g.try_update_edge(ni(a[0]), ni(a[1]), a[2] as u32) { Ok(i) => line("idx", &[i.index() as i64]), Err(e) => gerr(e) }),
        "remove_node" => one(opt(g.remove_node(ni(a[0])))),
        "remove_edge" => one(opt(g.remove_edge(ei(a[0])))),
        "reverse" => { g.reverse(); one("unit".into()) }
        "clear" => { g.clear(); one("unit".into()) }
        "clear_edges" => { g.clear_edges(); one("unit".into()) }
        "retain_nodes" => { let (m, r) = (a[0] as u32, a[1] as u32); g.retain_nodes(|gr, i| gr[i] % m != r); one("unit".into()) }
        "retain_edges" => { let (m, r) = (a[0] as u32, a[1] as u32); g.retain_edges(|gr, e| gr[e] % m != r); one("unit".into()) }
        "extend_with_edges" => { g.extend_with_edges(a.chunks(3).filter(|c| c.len() == 3).map(|c| (NodeIndex::<Ix>::new(c[0] as usize), NodeIndex::<Ix>::new(c[1] as usize), c[2] as u32))); one("unit".into()) }
        "filter_map" => {
            let (m, r, m2, r2) = (a[0] as u32, a[1] as u32, a[2] as u32, a[3] as u32);
            let g2 = g.filter_map(|_, w| if *w % m != r { Some(*w + 1) } else { None }, |_, w| if *w % m2 != r2 { Some(*w + 1) } else { None });
            *g = g2; one("unit".into())
        }
        "map" => { let g2 = g.map(|_, w| *w + 1, |_, w| *w + 1); *g = g2.clone(); one("unit".into()) }
        "set_node_weight" => one(line("bool", &[match g.node_weight_mut(ni(a[0])) { Some(w) => { *w = a[1] as u32; 1 } None => 0 }])),
        "set_edge_weight" => one(line("bool", &[match g.edge_weight_mut(ei(a[0])) { Some(w) => { *w = a[1] as u32; 1 } None => 0 }])),
        "node_weight" => one(opt(g.node_weight(ni(a[0])).cloned())),
        "edge_weight" => one(opt(g.edge_weight(ei(a[0])).cloned())),
        "edge_endpoints" => one(match g.edge_endpoints(ei(a[0])) { Some((s, t)) => line("pair", &[s.index() as i64, t.index() as i64]), None => "none".into() }),
        "find_edge" => { let r = g.find_edge(ni(a[0]), ni(a[1])); assert_eq!(r.is_some(), g.contains_edge(ni(a[0]), ni(a[1]))); one(optix(r.map(|e| e.index()))) }
        "find_edge_undirected" => one(match g.find_edge_undirected(ni(a[0]), ni(a[1])) { Some((e, d)) => line("pair", &[e.index() as i64, d.index() as i64]), None => "none".into() }),
        "edges_connecting" => one(line("econn", &eref_flat(g.edges_connecting(ni(a[0]), ni(a[1]))))),
        "contains_node" => one(line("bool", &[g.contains_node(ni(a[0])) as i64])),
        "walker" => {
            let mut w = g.neighbors_directed(ni(a[0]), dir(a[1])).detach();
            let mut l = Vec::new();
            while let Some((e, n)) = w.next(g) { l.push(e.index() as i64); l.push(n.index() as i64); if l.len() > 4000 { break; } }
            one(line("walk", &l))
        }
        "to_graph" => {
            let gr: Graph<u32, u32, Ty, Ix> = Graph::from(g.clone());
            let nw: Vec<i64> = gr.node_weights().map(|w| *w as i64).collect();
            let mut el = Vec::new();
            for e in gr.edge_indices() { let (s, t) = gr.edge_endpoints(e).unwrap(); el.extend_from_slice(&[s.index() as i64, t.index() as i64, gr[e] as i64]); }
            vec![line("nw", &nw), line("el", &el)]
        }
        "compact" => { let gr: Graph<u32, u32, Ty, Ix> = Graph::from(g.clone()); *g = StableGraph::from(gr); one("unit".into()) }
        _ => panic!("bad op"),
    }
}

pub fn is_query(name: &str) -> bool {
    matches!(name, "node_weight" | "edge_weight" | "edge_endpoints" | "find_edge" | "find_edge_undirected" | "edges_connecting" | "contains_node" | "walker" | "to_graph")
}

fn run_sg<Ty: EdgeType, Ix: IndexType>(ops: &[GOp], out: &mut Out) {
    let mut g: Sg<Ty, Ix> = StableGraph::default();
    let mut snap: Option<Sg<Ty, Ix>> = None;
    for o in ops {
        if o.0 == "snapshot" || o.0 == "clone_from" {
            if o.0 == "snapshot" { snap = Some(g.clone()); }
            else { let mut h = snap.take().unwrap_or_default(); h.clone_from(&g); g = h; }
            let mut v = vec!["unit".to_string()];
            match catch_unwind(AssertUnwindSafe(|| battery(&g))) { Ok(b) => v.extend(b), Err(_) => v.push("battery-panic".into()) }
            out.obs_lines(&v);
            continue;
        }
        let mut v = match catch_unwind(AssertUnwindSafe(|| apply(&mut g, o))) { Ok(s) => s, Err(_) => vec!["panic".to_string()] };
        if !is_query(&o.0) {
            match catch_unwind(AssertUnwindSafe(|| battery(&g))) { Ok(b) => v.extend(b), Err(_) => v.push("battery-panic".into()) }
        }
        out.obs_lines(&v);
    }
}

/// header: [directed, debug, cap, capcheck, ixcode]
pub fn run_case(id: usize, h: &[i64], ops: &[GOp], out: &mut Out) {
    let mut h = h.to_vec();
    h[1] = cfg!(debug_assertions) as i64;
    out.case(id, &h);
    for o in ops { out.op(o); }
    macro_rules! go { ($ix:ty) => { if h[0] == 1 { run_sg::<Directed, $ix>(ops, out) } else { run_sg::<Undirected, $ix>(ops, out) } }; }
    match h[4] { 0 => go!(u8), 1 => go!(u16), 2 => go!(u32), _ => go!(usize) }
    out.end_case();
    out.stat(if h[0] == 1 { "ty_directed" } else { "ty_undirected" });
    out.stat(&format!("ix_{}", h[4]));
}

pub fn gen(seed: u64, n: usize, out: &mut Out) {
    let mut r = Rng::new(seed ^ 0xC02);
    for id in 0..n {
        let directed = r.chance(50);
        let ixc = if id % 120 == 5 { 0 } else { r.below(4) as i64 };
        let (cap, capcheck) = crate::c01::caps(ixc);
        let mut ops: Vec<GOp> = Vec::new();
        if id % 120 == 5 {
            // fill the u8 index space, remove, re-add, hit both limits with and without vacancies
            let mut flat = vec![254, 0, 7];
            for k in 0..252 { flat.extend_from_slice(&[r.below(255) as i64, r.below(255) as i64, k as i64 % 50]); }
            ops.push(("extend_with_edges".into(), flat));
            ops.push(("try_add_node".into(), vec![1]));
            ops.push(("try_add_node".into(), vec![1]));
            ops.push(("add_node".into(), vec![2]));
            ops.push(("try_add_edge".into(), vec![r.below(255) as i64, r.below(255) as i64, 3]));
            ops.push(("try_add_edge".into(), vec![r.below(255) as i64, r.below(255) as i64, 3]));
            ops.push(("try_add_edge".into(), vec![r.below(255) as i64, r.below(255) as i64, 3]));
            ops.push(("try_add_edge".into(), vec![r.below(255) as i64, 255, 3]));
            ops.push(("add_edge".into(), vec![0, 1, 4]));
            ops.push(("remove_node".into(), vec![r.below(255) as i64]));
            ops.push(("remove_edge".into(), vec![r.below(200) as i64]));
            ops.push(("try_add_edge".into(), vec![3, 300 % 256, 8]));
            ops.push(("try_add_node".into(), vec![6]));
            ops.push(("try_add_node".into(), vec![7]));
            ops.push(("try_add_edge".into(), vec![3, 4, 8]));
            ops.push(("try_add_edge".into(), vec![3, 4, 9]));
            ops.push(("try_add_edge".into(), vec![3, 4, 9]));
            ops.push(("reverse".into(), vec![]));
            ops.push(("retain_edges".into(), vec![5, 1]));
            run_case(id, &[directed as i64, 0, cap, capcheck, ixc], &ops, out);
            out.stat("kind_u8_fill");
            continue;
        }
        if id % 120 == 35 {
            // the padding loop of extend_with_edges (ensure_node_exists) runs into the u8 limit: the vacant slots pushed before
            // the panic stay, at the head of the free list
            for k in 0..1 + r.below(4) { ops.push(("add_node".into(), vec![k as i64 + 1])); }
            if r.chance(40) { ops.push(("remove_node".into(), vec![0])); }
            let mut flat = Vec::new();
            for _ in 0..r.below(3) { flat.extend_from_slice(&[r.below(6) as i64, r.below(6) as i64, 5]); }
            if r.chance(50) { flat.extend_from_slice(&[255, 0, 7]); } else { flat.extend_from_slice(&[r.below(8) as i64, 255, 7]); }
            flat.extend_from_slice(&[0, 1, 9]);
            ops.push(("extend_with_edges".into(), flat));
            ops.push(("try_add_node".into(), vec![9]));
            ops.push(("try_add_edge".into(), vec![r.below(8) as i64, r.below(8) as i64, 3]));
            ops.push(("try_add_edge".into(), vec![200, 254, 3]));
            ops.push(("try_add_node".into(), vec![10]));
            ops.push(("remove_node".into(), vec![r.below(8) as i64]));
            ops.push(("try_add_node".into(), vec![11]));
            run_case(id, &[directed as i64, 0, 255, 1, 0], &ops, out);
            out.stat("kind_u8_padding_limit");
            continue;
        }
        if id % 120 == 65 {
            // fill the u8 EDGE index space on a few nodes: the 256th edge must be refused and refusing must change nothing;
            // then free a slot and fill it again
            let nn = 4 + r.below(4);
            let mut flat = Vec::new();
            for k in 0..255 { flat.extend_from_slice(&[r.below(nn) as i64, r.below(nn) as i64, (k % 50) as i64]); }
            ops.push(("extend_with_edges".into(), flat));
            ops.push(("try_add_edge".into(), vec![0, 1, 3]));
            ops.push(("try_add_edge".into(), vec![1, 0, 3]));
            ops.push(("try_update_edge".into(), vec![2, 2, 4]));
            ops.push(("remove_edge".into(), vec![r.below(255) as i64]));
            ops.push(("try_add_edge".into(), vec![1, 2, 5]));
            ops.push(("try_add_edge".into(), vec![2, 1, 6]));
            ops.push(("add_edge".into(), vec![0, 0, 7]));
            ops.push(("remove_node".into(), vec![r.below(nn) as i64]));
            ops.push(("try_add_edge".into(), vec![0, 1, 8]));
            run_case(id, &[directed as i64, 0, 255, 1, 0], &ops, out);
            out.stat("kind_u8_edge_fill");
            continue;
        }
        let len = 8 + r.below(40);
        let mut nb: usize = 0; let mut eb: usize = 0;    // approximate bounds (slots ever created)
        let mut pairs: Vec<(i64, i64)> = Vec::new();
        for _ in 0..len {
            let node = |r: &mut Rng, nb: usize| -> i64 { let c = r.below(100); if nb > 0 && c < 85 { r.below(nb) as i64 } else if c < 95 { (nb + r.below(3)) as i64 } else { cap } };
            let edge = |r: &mut Rng, eb: usize| -> i64 { let c = r.below(100); if eb > 0 && c < 85 { r.below(eb) as i64 } else if c < 95 { (eb + r.below(3)) as i64 } else { cap } };
            let w = r.below(60) as i64;
            match r.weighted(&[if nb < 9 { 14 } else { 3 }, 4, 16, 9, 4, 3, 9, 11, 3, 1, 1, 3, 3, 3, 3, 2, 2, 2, 12]) {
                0 => { nb += 1; ops.push(("add_node".into(), vec![w])); }
                1 => { nb += 1; ops.push(("try_add_node".into(), vec![w])); }
                2 | 3 => {
                    let c = r.below(100);
                    let (a, b) = if c < 18 { let x = node(&mut r, nb); (x, x) } else if c < 36 && !pairs.is_empty() { pairs[r.below(pairs.len())] } else { (node(&mut r, nb), node(&mut r, nb)) };
                    eb += 1; pairs.push((a, b));
                    ops.push((if r.chance(45) { "add_edge" } else { "try_add_edge" }.into(), vec![a, b, w]));
                }
                4 | 5 => {
                    let (a, b) = if r.chance(50) && !pairs.is_empty() { let p = pairs[r.below(pairs.len())]; if r.chance(50) { p } else { (p.1, p.0) } } else { (node(&mut r, nb), node(&mut r, nb)) };
                    eb += 1; pairs.push((a, b));
                    ops.push((if r.chance(45) { "update_edge" } else { "try_update_edge" }.into(), vec![a, b, w]));
                }
                6 => ops.push(("remove_node".into(), vec![node(&mut r, nb)])),
                7 => ops.push(("remove_edge".into(), vec![edge(&mut r, eb)])),
                8 => { pairs = pairs.iter().map(|p| (p.1, p.0)).collect(); ops.push(("reverse".into(), vec![])); }
                9 => { nb = 0; eb = 0; pairs.clear(); ops.push(("clear".into(), vec![])); }
                10 => { eb = 0; pairs.clear(); ops.push(("clear_edges".into(), vec![])); }
                11 => { let m = 2 + r.below(4) as i64; ops.push(("retain_nodes".into(), vec![m, r.below(m as usize) as i64])); }
                12 => { let m = 2 + r.below(4) as i64; ops.push(("retain_edges".into(), vec![m, r.below(m as usize) as i64])); }
                13 => {
                    let mut flat = Vec::new();
                    for _ in 0..1 + r.below(4) { let s = r.below(nb.min(10) + 3) as i64; let t = r.below(nb.min(10) + 3) as i64; flat.extend_from_slice(&[s, t, r.below(60) as i64]); nb = nb.max(s.max(t) as usize + 1); eb += 1; pairs.push((s, t)); }
                    ops.push(("extend_with_edges".into(), flat));
                }
                14 => { let m = 2 + r.below(4) as i64; let m2 = 2 + r.below(4) as i64; ops.push(("filter_map".into(), vec![m, r.below(m as usize) as i64, m2, r.below(m2 as usize) as i64])); }
                15 => ops.push(("map".into(), vec![])),
                16 => ops.push((if r.chance(50) { "set_node_weight" } else { "set_edge_weight" }.into(), vec![if r.chance(50) { node(&mut r, nb) } else { edge(&mut r, eb) }, w])),
                17 => ops.push((if r.chance(60) { "to_graph" } else { "compact" }.into(), vec![])),
                _ => {
                    match r.below(9) {
                        0 => ops.push(("node_weight".into(), vec![node(&mut r, nb)])),
                        1 => ops.push(("edge_weight".into(), vec![edge(&mut r, eb)])),
                        2 => ops.push(("edge_endpoints".into(), vec![edge(&mut r, eb)])),
                        3 => { let (a, b) = if r.chance(60) && !pairs.is_empty() { pairs[r.below(pairs.len())] } else { (node(&mut r, nb), node(&mut r, nb)) }; ops.push(("find_edge".into(), vec![a, b])); }
                        4 => { let (a, b) = if r.chance(60) && !pairs.is_empty() { let p = pairs[r.below(pairs.len())]; (p.1, p.0) } else { (node(&mut r, nb), node(&mut r, nb)) }; ops.push(("find_edge_undirected".into(), vec![a, b])); }
                        5 => { let (a, b) = if r.chance(70) && !pairs.is_empty() { pairs[r.below(pairs.len())] } else { (node(&mut r, nb), node(&mut r, nb)) }; ops.push(("edges_connecting".into(), vec![a, b])); }
                        6 => ops.push(("contains_node".into(), vec![node(&mut r, nb)])),
                        _ => ops.push(("walker".into(), vec![node(&mut r, nb), r.below(2) as i64])),
                    }
                }
            }
        }
        if r.chance(35) && ops.len() > 6 {
            // keep a clone early, overwrite it later through clone_from and go on with it
            let i = 1 + r.below(ops.len() / 2); ops.insert(i, ("snapshot".into(), vec![]));
            let j = i + 2 + r.below(ops.len() - i - 2); ops.insert(j, ("clone_from".into(), vec![]));
        }
        run_case(id, &[directed as i64, 0, cap, capcheck, ixc], &ops, out);
    }
}
