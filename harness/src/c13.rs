//! C13: the VF2 functions on pairs of small simple graphs (self-loops allowed), Graph and GraphMap.
use crate::rng::Rng;
use crate::{line, GOp, Out};
use petgraph::algo;
use petgraph::graph::Graph;
use petgraph::graphmap::GraphMap;
use petgraph::{Directed, EdgeType, Undirected};
use std::panic::{catch_unwind, AssertUnwindSafe};

#[derive(Clone)]
struct Sg { n: usize, nw: Vec<i64>, es: Vec<(usize, usize, i64)> }

fn wmatch(m: i64, x: i64, y: i64) -> bool { m == 0 || x.rem_euclid(m) == y.rem_euclid(m) }

fn build<Ty: EdgeType>(g: &Sg) -> Graph<i64, i64, Ty, u32> {
    let mut h = Graph::default();
    let ix: Vec<_> = g.nw.iter().map(|w| h.add_node(*w)).collect();
    for &(s, t, w) in &g.es { h.add_edge(ix[s], ix[t], w); }
    h
}
fn build_map<Ty: EdgeType>(g: &Sg) -> GraphMap<u32, i64, Ty> {
    // node value = index: GraphMap keeps insertion order, so to_index = value
    let mut h = GraphMap::default();
    for i in 0..g.n { h.add_node(i as u32); }
    for &(s, t, w) in &g.es { h.add_edge(s as u32, t as u32, w); }
    h
}

fn run_pair<Ty: EdgeType>(g0: &Sg, g1: &Sg, qs: &[GOp], use_map: bool, raw_order: bool, out: &mut Out) {
    let a = build::<Ty>(g0); let b = build::<Ty>(g1);
    let am = build_map::<Ty>(g0); let bm = build_map::<Ty>(g1);
    for q in qs {
        out.op(q);
        let (nm, em) = (q.1.get(0).copied().unwrap_or(0), q.1.get(1).copied().unwrap_or(0));
        let r = catch_unwind(AssertUnwindSafe(|| -> Vec<String> {
            match q.0.as_str() {
                "iso" => vec![line("bool", &[(if use_map { algo::is_isomorphic(&am, &bm) } else { algo::is_isomorphic(&a, &b) }) as i64])],
                "sub" => vec![line("bool", &[(if use_map { algo::is_isomorphic_subgraph(&am, &bm) } else { algo::is_isomorphic_subgraph(&a, &b) }) as i64])],
                "iso_matching" => vec![line("bool", &[algo::is_isomorphic_matching(&a, &b, |x, y| wmatch(nm, *x, *y), |x, y| wmatch(em, *x, *y)) as i64])],
                "sub_matching" => vec![line("bool", &[algo::is_isomorphic_subgraph_matching(&a, &b, |x, y| wmatch(nm, *x, *y), |x, y| wmatch(em, *x, *y)) as i64])],
                "sub_iter" => {
                    let mut nmf = |x: &i64, y: &i64| wmatch(nm, *x, *y);
                    let mut emf = |x: &i64, y: &i64| wmatch(em, *x, *y);
                    let ga = &a; let gb = &b;
                    let mut all: Vec<Vec<usize>> = match algo::subgraph_isomorphisms_iter(&ga, &gb, &mut nmf, &mut emf) { Some(it) => it.collect(), None => Vec::new() };
                    if !raw_order { all.sort(); }      // stream C13v keeps the order in which the iterator yields
                    let mut v = vec![line("nat", &[all.len() as i64])];
                    for m in all { v.push(line("row", &m.iter().map(|x| *x as i64).collect::<Vec<_>>())); }
                    v
                }
                _ => vec!["panic".into()],
            }
        }));
        match r { Ok(v) => out.obs_lines(&v), Err(_) => out.obs_lines(&["panic".to_string()]) }
    }
}

fn rand_graph(r: &mut Rng, n: usize, directed: bool, dens: usize, loops: bool) -> Sg {
    let mut es = Vec::new();
    for s in 0..n { for t in 0..n {
        if s == t { if loops && r.chance(12) { es.push((s, t, r.below(4) as i64)); } continue; }
        if !directed && s > t { continue; }
        if r.below(100) < dens { es.push((s, t, r.below(4) as i64)); }
    } }
    Sg { n, nw: (0..n).map(|_| r.below(4) as i64).collect(), es }
}

fn relabel(r: &mut Rng, g: &Sg, directed: bool) -> Sg {
    let mut p: Vec<usize> = (0..g.n).collect();
    for i in (1..g.n).rev() { let j = r.below(i + 1); p.swap(i, j); }
    let mut nw = vec![0; g.n];
    for i in 0..g.n { nw[p[i]] = g.nw[i]; }
    let mut es: Vec<(usize, usize, i64)> = g.es.iter().map(|&(s, t, w)| if !directed && r.chance(50) { (p[t], p[s], w) } else { (p[s], p[t], w) }).collect();
    for i in (1..es.len()).rev() { let j = r.below(i + 1); es.swap(i, j); }
    Sg { n: g.n, nw, es }
}

pub fn gen(stream: &str, seed: u64, n: usize, out: &mut Out) {
    let raw_order = stream == "C13v";
    let mut r = Rng::new(seed ^ 0xC13);
    for id in 0..n {
        let directed = r.chance(50);
        let loops = r.chance(40);
        let kind = r.below(6);
        let n1 = 1 + r.below(6);
        let dens = [15usize, 30, 50, 70][r.below(4)];
        let g1 = rand_graph(&mut r, n1, directed, dens, loops);
        let g0 = match kind {
            0 => relabel(&mut r, &g1, directed),                                   // isomorphic copy
            1 => {                                                                 // nearly isomorphic: one edge rewired, same edge count
                let mut h = relabel(&mut r, &g1, directed);
                if !h.es.is_empty() && h.n >= 2 {
                    let k = r.below(h.es.len()); let w = h.es[k].2; h.es.remove(k);
                    for _ in 0..20 { let s = r.below(h.n); let t = r.below(h.n); if (s != t || loops) && !h.es.iter().any(|e| (e.0, e.1) == (s, t) || (!directed && (e.0, e.1) == (t, s))) { h.es.push((s, t, w)); break; } }
                }
                h
            }
            2 | 3 => {                                                             // node-induced subgraph of g1, relabelled (kind 3: one edge dropped)
                let keep: Vec<usize> = (0..g1.n).filter(|_| r.chance(65)).collect();
                let pos = |x: usize| keep.iter().position(|y| *y == x);
                let mut h = Sg { n: keep.len(), nw: keep.iter().map(|&x| g1.nw[x]).collect(),
                                 es: g1.es.iter().filter_map(|&(s, t, w)| match (pos(s), pos(t)) { (Some(a), Some(b)) => Some((a, b, w)), _ => None }).collect() };
                if kind == 3 && !h.es.is_empty() { let k = r.below(h.es.len()); h.es.remove(k); }
                relabel(&mut r, &h, directed)
            }
            4 => { let mut h = relabel(&mut r, &g1, directed); if !h.nw.is_empty() { let k = r.below(h.n); h.nw[k] += 1; } if !h.es.is_empty() && r.chance(50) { let k = r.below(h.es.len()); h.es[k].2 += 1; } h }  // weights changed
            _ => { let k = 1 + r.below(5); rand_graph(&mut r, k, directed, dens, loops) }       // unrelated
        };
        // one case in 150: a path of 19..22 nodes against a relabelled copy (node weights = position, matched modulo 4), so that
        // the size_hint / collect path of the iterator sees pattern graphs around the 20! boundary of its bound table
        let big = raw_order && (r.chance(2) || id == 7);
        let (g0, g1, kind) = if big {
            let n = [20usize, 21, 21, 22][r.below(4)];
            let p = Sg { n, nw: (0..n as i64).collect(), es: (0..n - 1).map(|i| (i, i + 1, 0)).collect() };
            (relabel(&mut r, &p, directed), p, 9)
        } else { (g0, g1, kind) };
        let mut qs: Vec<GOp> = vec![("iso".into(), vec![]), ("sub".into(), vec![])];
        let nm = [0i64, 2, 4][r.below(3)]; let em = [0i64, 2, 4][r.below(3)];
        let nm = if big { 4 } else { nm };
        qs.push(("iso_matching".into(), vec![nm, em]));
        qs.push(("sub_matching".into(), vec![nm, em]));
        qs.push(("sub_iter".into(), vec![nm, em]));
        if r.chance(40) { qs.push(("sub_iter".into(), vec![0, 0])); }
        let use_map = r.chance(30) && !raw_order;
        if std::env::var("PGH_DEBUG").is_ok() { eprintln!("case {} dir {} kind {} map {} g0 {:?} {:?} g1 {:?} {:?} qs {:?}", id, directed, kind, use_map, g0.nw, g0.es, g1.nw, g1.es, qs); }
        out.case(id, &[directed as i64, cfg!(debug_assertions) as i64, kind as i64, use_map as i64]);
        let flat = |es: &Vec<(usize, usize, i64)>| es.iter().flat_map(|e| vec![e.0 as i64, e.1 as i64, e.2]).collect::<Vec<_>>();
        for o in [("n0".to_string(), g0.nw.clone()), ("e0".to_string(), flat(&g0.es)), ("n1".to_string(), g1.nw.clone()), ("e1".to_string(), flat(&g1.es))] { out.op(&o); out.obs_lines(&[]); }
        if directed { run_pair::<Directed>(&g0, &g1, &qs, use_map, raw_order, out) } else { run_pair::<Undirected>(&g0, &g1, &qs, use_map, raw_order, out) }
        out.end_case();
        out.stat(&format!("kind_{}", kind));
        out.stat(if directed { "directed" } else { "undirected" });
    }
}
