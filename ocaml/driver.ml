(* Runs the extracted Coq models on the case files written by the Rust harness
   and prints the model's observations in the same line grammar. *)
open Datatypes
module L = Stdlib.List
module Str_ = Stdlib.String

let nat_of_int n = let rec go acc n = if n <= 0 then acc else go (S acc) (n - 1) in go O n
let int_of_nat n = let rec go acc = function O -> acc | S m -> go (acc + 1) m in go 0 n

let read_lines file =
  let ic = open_in file in
  let rec go acc = match input_line ic with
    | l -> go (l :: acc)
    | exception End_of_file -> close_in ic; L.rev acc in
  go []

let words l = L.filter (fun s -> s <> "") (String.split_on_char ' ' (String.trim l))

(* ---------------- C19 ---------------- *)
module C19 = struct
  open UnionFindM
  let parse_op l =
    match words l with
    | ["ns"] -> ONewSet
    | ["f"; x] -> OFind (nat_of_int (int_of_string x))
    | ["fm"; x] -> OFindMut (nat_of_int (int_of_string x))
    | ["tf"; x] -> OTryFind (nat_of_int (int_of_string x))
    | ["tfm"; x] -> OTryFindMut (nat_of_int (int_of_string x))
    | ["eq"; x; y] -> OEquiv (nat_of_int (int_of_string x), nat_of_int (int_of_string y))
    | ["teq"; x; y] -> OTryEquiv (nat_of_int (int_of_string x), nat_of_int (int_of_string y))
    | ["un"; x; y] -> OUnion (nat_of_int (int_of_string x), nat_of_int (int_of_string y))
    | ["tun"; x; y] -> OTryUnion (nat_of_int (int_of_string x), nat_of_int (int_of_string y))
    | ["lab"] -> OLabeling
    | ["len"] -> OLen
    | "cap" :: _ -> OCapacity
    | _ -> failwith ("bad op: " ^ l)
  let show = function
    | VNat n -> Printf.sprintf "n %d" (int_of_nat n)
    | VOpt None -> "o none"
    | VOpt (Some n) -> Printf.sprintf "o %d" (int_of_nat n)
    | VBool b -> Printf.sprintf "b %b" b
    | VRbk (RB b) -> Printf.sprintf "r ok %b" b
    | VRbk (RErr k) -> Printf.sprintf "r err %d" (int_of_nat k)
    | VList l -> String.concat " " ("l" :: L.map (fun n -> string_of_int (int_of_nat n)) l)
    | VUnit -> "u"
    | VPanic -> "panic"
    | VFuel -> "OUT-OF-FUEL"
  let run_file lines oc =
    let flush id n0 ops =
      let (_, outs) = run (uf_new (nat_of_int n0)) (L.rev ops) in
      Printf.fprintf oc "case %d\n" id;
      L.iter (fun v -> output_string oc (show v); output_char oc '\n') outs;
      output_string oc "end\n" in
    let rec go cur = function
      | [] -> ()
      | l :: rest ->
        let l = String.trim l in
        if l = "" || l.[0] = '#' then go cur rest
        else match words l, cur with
          | ("case" :: id :: _ix :: n0 :: _), _ -> go (Some (int_of_string id, int_of_string n0, [])) rest
          | ["end"], Some (id, n0, ops) -> flush id n0 ops; go None rest
          | _, Some (id, n0, ops) -> go (Some (id, n0, parse_op l :: ops)) rest
          | _ -> failwith ("unexpected line: " ^ l) in
    go None lines
end


(* ---------------- generic line-based models ---------------- *)
open BinNums
let rec pos_of_int n = if n = 1 then Coq_xH else if n land 1 = 0 then Coq_xO (pos_of_int (n lsr 1)) else Coq_xI (pos_of_int (n lsr 1))
let z_of_int n = if n = 0 then Z0 else if n > 0 then Zpos (pos_of_int n) else Zneg (pos_of_int (- n))
let rec int_of_pos = function Coq_xH -> 1 | Coq_xO p -> 2 * int_of_pos p | Coq_xI p -> 2 * int_of_pos p + 1
let int_of_z = function Z0 -> 0 | Zpos p -> int_of_pos p | Zneg p -> - (int_of_pos p)

let index_of (tbl : string array) (s : string) =
  let r = ref (-1) in
  Array.iteri (fun i x -> if x = s then r := i) tbl;
  if !r < 0 then failwith ("unknown mnemonic " ^ s) else !r

(* run_case : header numbers -> (opcode, numbers) list -> observation lines per op *)
let run_generic (ops_tbl : string array) (tag_tbl : string array)
    (run_case : coq_Z list -> (nat * coq_Z list) list -> (nat * coq_Z list) list list) lines oc =
  let flush id header ops =
    let outs = run_case header (L.rev ops) in
    Printf.fprintf oc "case %s\n" id;
    L.iter (fun ls ->
        L.iter (fun (tag, nums) ->
            let t = int_of_nat tag in
            let name = if t < Array.length tag_tbl then tag_tbl.(t) else Printf.sprintf "tag%d" t in
            output_string oc (Stdlib.String.concat " " (name :: L.map (fun z -> string_of_int (int_of_z z)) nums));
            output_char oc '\n') ls;
        output_string oc ";\n") outs;
    output_string oc "end\n" in
  let rec go cur = function
    | [] -> ()
    | l :: rest ->
      let l = Stdlib.String.trim l in
      if l = "" || l.[0] = '#' then go cur rest
      else match words l, cur with
        | ("case" :: id :: hdr), _ -> go (Some (id, L.map (fun x -> z_of_int (int_of_string x)) hdr, [])) rest
        | ["end"], Some (id, hdr, ops) -> flush id hdr ops; go None rest
        | (m :: nums), Some (id, hdr, ops) ->
          let o = (nat_of_int (index_of ops_tbl m), L.map (fun x -> z_of_int (int_of_string x)) nums) in
          go (Some (id, hdr, o :: ops)) rest
        | _ -> failwith ("unexpected line: " ^ l) in
  go None lines

let csr_ops = [| "add_node"; "try_add_edge"; "add_edge"; "clear_edges"; "contains_edge"; "out_degree";
                 "neighbors_slice"; "edges_slice"; "from_sorted_edges" |]
let csr_tags = [| "bool"; "err"; "panic"; "idx"; "unit"; "counts"; "row"; "wrow"; "erefs"; "nw"; "OUT-OF-FUEL"; "nat"; "notsorted" |]
let list_ops = [| "add_node"; "add_edge"; "update_edge"; "clear"; "contains_edge"; "find_edge"; "edge_endpoints";
                  "edge_weight"; "set_edge_weight"; "edge_indices_from"; "neighbors"; "add_node_from_edges" |]
let list_tags = [| "bool"; "err"; "panic"; "eidx"; "unit"; "counts"; "row"; "wrow"; "erefs"; "nw"; "OUT-OF-FUEL"; "nat";
                   "notsorted"; "none"; "pair"; "eidxs" |]
let mg_ops = [| "add_node"; "try_add_node"; "remove_node"; "add_edge"; "update_edge"; "try_update_edge";
                "add_or_update_edge"; "remove_edge"; "try_remove_edge"; "clear"; "has_edge"; "get_edge_weight";
                "get_node_weight"; "edges"; "edges_directed" |]
let mg_tags = [| "bool"; "err"; "panic"; "idx"; "unit"; "counts"; "row"; "wrow"; "erefs"; "nw"; "OUT-OF-FUEL"; "nat";
                 "notsorted"; "none"; "pair"; "eidxs"; "nodes"; "out"; "in"; "has"; "limit"; "some" |]
let gmap_ops = [| "add_node"; "remove_node"; "add_edge"; "remove_edge"; "clear"; "set_edge_weight"; "extend";
                  "contains_node"; "contains_edge"; "edge_weight"; "neighbors"; "edges_directed"; "to_index"; "into_graph" |]
let all_tags = [| "bool"; "err"; "panic"; "idx"; "unit"; "counts"; "row"; "wrow"; "erefs"; "nw"; "OUT-OF-FUEL"; "nat";
                  "notsorted"; "none"; "pair"; "eidxs"; "nodes"; "out"; "in"; "has"; "limit"; "some";
                  "nb"; "nbo"; "nbi"; "ed"; "edo"; "edi"; "gn"; "ge"; "el"; "nbu"; "exto"; "exti"; "elimit"; "oob";
                  "walk"; "econn"; "missed"; "vac"; "free"; "seq"; "events"; "cycle"; "comp"; "cidx"; "scores"; "path"; "dist"; "pred"; "fw"; "fwp"; "mse"; "msn"; "bytes"; "dec"; "text"; "wire"; "robust"; "order"; "pos"; "atpos"; "selfloop"; "range"; "pairs"; "flow"; "dom"; "vhdr"; "nrefs"; "nbin"; "adj"; "verdict" |]
let view_ops = [| "node"; "out"; "in"; "neighbors_edges_mismatch"; "erefs"; "nmap"; "_6"; "_7"; "_8"; "reset";
                  "dfs"; "dfs_moveto"; "dfs_reset"; "dfspost"; "bfs"; "topo"; "topo_with_initials"; "dfsvisit"; "dfspost_moveto"; "dfspost_reset";
                  "connected_components"; "is_cyclic_undirected"; "toposort"; "toposort2"; "is_cyclic_directed"; "has_path";
                  "kosaraju"; "tarjan"; "bipartite"; "condensation";
                  "dijkstra"; "astar"; "ksp"; "bellman_ford"; "find_negative_cycle"; "spfa"; "floyd_warshall"; "floyd_warshall_path"; "_38"; "_39"; "kruskal"; "prim"; "toposort3"; "has_path3"; "_44"; "_45"; "_46"; "_47"; "_48"; "_49"; "greedy_matching"; "maximum_matching"; "ford_fulkerson"; "simple_fast"; "articulation_points"; "_55"; "_56"; "_57"; "_58"; "_59"; "maximal_cliques"; "dsatur"; "fas"; "tred"; "all_simple_paths"; "steiner"; "page_rank"; "prank" |]
let graph_ops = [| "add_node"; "try_add_node"; "add_edge"; "try_add_edge"; "update_edge"; "try_update_edge";
                   "remove_node"; "remove_edge"; "reverse"; "clear"; "clear_edges"; "retain_nodes"; "retain_edges";
                   "extend_with_edges"; "filter_map"; "into_edge_type"; "set_node_weight"; "set_edge_weight";
                   "node_weight"; "edge_weight"; "edge_endpoints"; "find_edge"; "find_edge_undirected";
                   "edges_connecting"; "first_edge"; "next_edge"; "walker"; "map"; "snapshot"; "clone_from" |]
let pad_to (a : string array) (n : int) = Array.append a (Array.init (n - Array.length a) (fun i -> Printf.sprintf "_pad%d" i))
let serde_tail = [| "ser"; "deser"; "xload"; "roundtrip"; "bytemut" |]
let stable_ops = [| "add_node"; "try_add_node"; "add_edge"; "try_add_edge"; "update_edge"; "try_update_edge";
                    "remove_node"; "remove_edge"; "reverse"; "clear"; "clear_edges"; "retain_nodes"; "retain_edges";
                    "extend_with_edges"; "filter_map"; "map"; "set_node_weight"; "set_edge_weight";
                    "node_weight"; "edge_weight"; "edge_endpoints"; "find_edge"; "find_edge_undirected";
                    "edges_connecting"; "contains_node"; "walker"; "to_graph"; "compact"; "snapshot"; "clone_from" |]

let () =
  let prop = Sys.argv.(1) and infile = Sys.argv.(2) and outfile = Sys.argv.(3) in
  let lines = read_lines infile in
  let oc = open_out outfile in
  (match prop with
   | "C19" -> C19.run_file lines oc
   | "C01" -> run_generic graph_ops all_tags CloneIO.run_case_g lines oc
   | "C02" -> run_generic stable_ops all_tags CloneIO.run_case_s lines oc
   | "C08" | "C09" | "C10" | "C11" | "C12" | "C15" | "C16" | "C07" | "C20" -> run_generic view_ops all_tags AlgoIO.run_case lines oc
   | "C17g" -> run_generic (Array.append (pad_to graph_ops 40) serde_tail) all_tags SerdeIO.run_case_g lines oc
   | "C17s" -> run_generic (Array.append (pad_to stable_ops 40) serde_tail) all_tags SerdeIO.run_case_s lines oc
   | "C18g6" -> run_generic [| "g6"; "g6d" |] all_tags Graph6M.run_case lines oc
   | "C18dot" -> run_generic [| "dn"; "de"; "render" |] all_tags DotM.run_case lines oc
   | "C14" -> run_generic [| "add_node"; "try_add_edge"; "try_update_edge"; "build_add_edge"; "build_update_edge"; "remove_edge"; "remove_node"; "is_valid_edge"; "raw_edge"; "range" |] all_tags AcyclicIO.run_case lines oc
   | "C06" -> run_generic [| "node"; "out"; "in"; "nb"; "nbin"; "erefs"; "nrefs"; "adj"; "_8"; "_9"; "consistent"; "adaptor"; "adaptor2" |] all_tags FullView.run_case lines oc
   | "C13" -> run_generic [| "n0"; "e0"; "n1"; "e1"; "_4"; "_5"; "_6"; "_7"; "_8"; "_9"; "iso"; "iso_matching"; "sub"; "sub_matching"; "sub_iter" |] all_tags IsoM.run_case lines oc
   | "C13v" -> run_generic [| "n0"; "e0"; "n1"; "e1"; "_4"; "_5"; "_6"; "_7"; "_8"; "_9"; "iso"; "iso_matching"; "sub"; "sub_matching"; "sub_iter" |] all_tags Vf2M.vf2_run_case lines oc
   | "C03" -> run_generic gmap_ops all_tags GraphMapM.run_case lines oc
   | "C17m" -> run_generic (Array.append (pad_to gmap_ops 20) [| "ser"; "roundtrip"; "deser" |]) all_tags SerdeGM.run_case lines oc
   | "C04" -> run_generic mg_ops mg_tags MatrixM.run_case lines oc
   | "C05csr" -> run_generic csr_ops csr_tags CsrM.run_case lines oc
   | "C05list" -> run_generic list_ops list_tags AdjListM.run_case lines oc
   | _ -> prerr_endline ("unknown property " ^ prop); exit 2);
  close_out oc
