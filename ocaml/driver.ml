(* Runs the extracted Coq models on the case files written by the Rust harness
   and prints the model's observations in the same line grammar. *)
open Datatypes
module L = Stdlib.List
module Str_ = Stdlib.String

let nat_of_int n = let rec go acc n = if n <= 0 then acc else go (S acc) (n - 1) in go O n
let int_of_nat n = let rec go acc = function O -> acc | S m -> go (acc + 1) m in go 0 n

let read_lines file =
  let ic = open_in file in
  let rec go acc = match input_line ic with
    | l -> go (l :: acc)
    | exception End_of_file -> close_in ic; L.rev acc in
  go []

let words l = L.filter (fun s -> s <> "") (String.split_on_char ' ' (String.trim l))

(* ---------------- C19 ---------------- *)
module C19 = struct
  open UnionFindM
  let parse_op l =
    match words l with
    | ["ns"] -> ONewSet
    | ["f"; x] -> OFind (nat_of_int (int_of_string x))
    | ["fm"; x] -> OFindMut (nat_of_int (int_of_string x))
    | ["tf"; x] -> OTryFind (nat_of_int (int_of_string x))
    | ["tfm"; x] -> OTryFindMut (nat_of_int (int_of_string x))
    | ["eq"; x; y] -> OEquiv (nat_of_int (int_of_string x), nat_of_int (int_of_string y))
    | ["teq"; x; y] -> OTryEquiv (nat_of_int (int_of_string x), nat_of_int (int_of_string y))
    | ["un"; x; y] -> OUnion (nat_of_int (int_of_string x), nat_of_int (int_of_string y))
    | ["tun"; x; y] -> OTryUnion (nat_of_int (int_of_string x), nat_of_int (int_of_string y))
    | ["lab"] -> OLabeling
    | ["len"] -> OLen
    | "cap" :: _ -> OCapacity
    | _ -> failwith ("bad op: " ^ l)
  let show = function
    | VNat n -> Printf.sprintf "n %d" (int_of_nat n)
    | VOpt None -> "o none"
    | VOpt (Some n) -> Printf.sprintf "o %d" (int_of_nat n)
    | VBool b -> Printf.sprintf "b %b" b
    | VRbk (RB b) -> Printf.sprintf "r ok %b" b
    | VRbk (RErr k) -> Printf.sprintf "r err %d" (int_of_nat k)
    | VList l -> String.concat " " ("l" :: L.map (fun n -> string_of_int (int_of_nat n)) l)
    | VUnit -> "u"
    | VPanic -> "panic"
    | VFuel -> "OUT-OF-FUEL"
  let run_file lines oc =
    let flush id n0 ops =
      let (_, outs) = run (uf_new (nat_of_int n0)) (L.rev ops) in
      Printf.fprintf oc "case %d\n" id;
      L.iter (fun v -> output_string oc (show v); output_char oc '\n') outs;
      output_string oc "end\n" in
    let rec go cur = function
      | [] -> ()
      | l :: rest ->
        let l = String.trim l in
        if l = "" || l.[0] = '#' then go cur rest
        else match words l, cur with
          | ("case" :: id :: _ix :: n0 :: _), _ -> go (Some (int_of_string id, int_of_string n0, [])) rest
          | ["end"], Some (id, n0, ops) -> flush id n0 ops; go None rest
          | _, Some (id, n0, ops) -> go (Some (id, n0, parse_op l :: ops)) rest
          | _ -> failwith ("unexpected line: " ^ l) in
    go None lines
end

let () =
  let prop = Sys.argv.(1) and infile = Sys.argv.(2) and outfile = Sys.argv.(3) in
  let lines = read_lines infile in
  let oc = open_out outfile in
  (match prop with
   | "C19" -> C19.run_file lines oc
   | _ -> prerr_endline ("unknown property " ^ prop); exit 2);
  close_out oc
