#!/bin/sh
# Extract the Coq models and build the OCaml driver.  Run from anywhere.
set -e
here="$(cd "$(dirname "$0")" && pwd)"
rm -rf "$here/gen" && mkdir -p "$here/gen"
cd "$here/gen"
timeout 600 coqc -Q "$here/../coq/theories" PG "$here/../coq/extract/Extract.v" -o "$here/gen/Extract.vo" 2>&1 | grep -v "WARNING conda" || true
rm -f Extract.vo Extract.glob .Extract.aux
cp "$here/driver.ml" driver.ml
files=$(ocamlfind ocamldep -sort *.mli *.ml)
ocamlfind ocamlopt -O2 -w -a -package str -linkpkg $files -o "$here/driver" 2>/dev/null || \
ocamlfind ocamlopt -w -a -package str -linkpkg $files -o "$here/driver"
echo "driver built: $here/driver"
