#!/bin/sh
# MANIFEST.setup_cmd: build the whole framework offline from files on disk.
set -e
cd "$(dirname "$0")"
export CARGO_NET_OFFLINE=true
( cd coq && coq_makefile -f _CoqProject -o Makefile >/dev/null 2>&1 && timeout 3000 make -j16 2>&1 | grep -v "WARNING conda" | tail -5 )
./ocaml/build.sh 2>&1 | grep -v "WARNING conda" | tail -3
cp /repo/Cargo.lock harness/Cargo.lock
( cd harness && cargo build --offline 2>&1 | tail -2 && cargo build --offline --release 2>&1 | tail -2 )
echo "setup done"
