# generates theories/Props/C01b.v : (comment, name, statement, proof term)
T = []
def th(name, comment, stmt, proof, kind="Theorem"):
    T.append((name, comment.strip(), stmt.strip(), proof.strip(), kind))

# ---------------------------------------------------------------- G5
th("C01b_first_edge", """
G5. first_edge(a, dir) is the head of a's out-list (k = 0) / in-list (k >= 1); None for an empty list and for an
absent node.  [adjf cap g k a] is the list C01_walks describes.""",
"""forall (NW EW : Type) (cap : nat) (g : graph NW EW) (a k : nat),
  GInv cap g ->
  first_edge cap g a k = hd_error (adjf cap g k a) /\\
  (length (gnodes g) <= a -> first_edge cap g a k = None)""",
"fun NW EW cap g a k I => conj (@first_edge_spec NW EW cap g a k I) (@first_edge_absent NW EW cap g a k)")

th("C01b_next_edge", """
G5. next_edge(e, dir): if e is the p-th element of the direction-k list of some node a, the result is the
(p+1)-th element of that list (None after the last one).""",
"""forall (NW EW : Type) (cap : nat) (g : graph NW EW) (a k p e : nat),
  GInv cap g ->
  nth_error (adjf cap g k a) p = Some e ->
  next_edge cap g e k = nth_error (adjf cap g k a) (S p)""",
"@next_edge_spec")

th("C01b_next_edge_own", """
G5. Every existing edge e sits in the direction-k list of its own endpoint k ([ept g k e]: source for k = 0, target
otherwise), and next_edge is its successor there; an absent edge gives None.""",
"""forall (NW EW : Type) (cap : nat) (g : graph NW EW) (e k : nat),
  GInv cap g ->
  (e < length (gedges g) ->
     exists p : nat, nth_error (adjf cap g k (ept g k e)) p = Some e /\\
                     next_edge cap g e k = nth_error (adjf cap g k (ept g k e)) (S p)) /\\
  (length (gedges g) <= e -> next_edge cap g e k = None)""",
"fun NW EW cap g e k I => conj (@next_edge_own NW EW cap g e k I) (@next_edge_absent NW EW cap g e k)")

th("C01b_walk_def", """
G5. [walk_edges cap g a k]: start at first_edge(a, k) and iterate next_edge(_, k) (fuel = edge count + 1).""",
"""forall (NW EW : Type) (cap : nat) (g : graph NW EW),
  (forall a k : nat, walk_edges cap g a k = walk_next cap (fuel_of g) g (first_edge cap g a k) k) /\\
  (forall (o : option nat) (k : nat), walk_next cap 0 g o k = []) /\\
  (forall f k : nat, walk_next cap (S f) g None k = []) /\\
  (forall f e k : nat,
     walk_next cap (S f) g (Some e) k = e :: walk_next cap f g (next_edge cap g e k) k)""",
"fun NW EW cap g => conj (fun a k => eq_refl) (conj (fun o k => eq_refl) (conj (fun f k => eq_refl) (fun f e k => eq_refl)))")

th("C01b_walk_edges", """
G5. Iterating next_edge from first_edge yields exactly the adjacency list (never cut short by the fuel).""",
"""forall (NW EW : Type) (cap : nat) (g : graph NW EW) (a k : nat),
  GInv cap g -> walk_edges cap g a k = adjf cap g k a""",
"@walk_edges_spec")

th("C01b_dirk", "[dirk k]: the direction index as the model reads it (0 = Outgoing, anything else = Incoming).",
"""dirk 0 = 0 /\\ (forall k : nat, dirk (S k) = 1) /\\
  (forall (NW EW : Type) (cap : nat) (g : graph NW EW) (k i : nat), adjf cap g k i = adjf cap g (dirk k) i)""",
"conj eq_refl (conj (fun k => eq_refl) (@adjf_dirk))")

th("C01b_walker", """
G5. The detached walker of opcode 26 (= neighbors_directed(a, dir).detach() walked to the end) returns, for a
directed graph, the pairs (edge, other endpoint) of the first_edge / next_edge walk; the Edges iterator
edges_directed returns the references of the same walk; for an undirected graph the out-walk with targets, then the
in-walk with sources minus the self-loops.""",
"""forall (NW EW : Type) (cap : nat) (g : graph NW EW) (a k : nat),
  GInv cap g ->
  neighbors_directed cap true g a k =
    Ok (map (fun e : nat => (e, ept g (1 - dirk k) e)) (walk_edges cap g a k)) /\\
  (exists r : list (nat * (nat * nat) * EW),
     edges_directed cap true g a k = Ok r /\\ Forall2 (eref g false) (walk_edges cap g a k) r) /\\
  neighbors_directed cap false g a k =
    Ok (map (fun e : nat => (e, tgt g e)) (walk_edges cap g a 0) ++
        map (fun e : nat => (e, src g e))
          (filter (fun e : nat => negb (src g e =? a)) (walk_edges cap g a 1)))""",
"fun NW EW cap g a k I => conj (@walker_directed NW EW cap g a k I) (conj (@walker_edges_directed NW EW cap g a k I) (@walker_undirected NW EW cap g a k I))")

# ---------------------------------------------------------------- G3
th("C01b_set_weights_links", """
G3. set_edge_weight / set_node_weight change one weight and nothing else: the other vector, every link and every
endpoint are identical (C01_set_weights adds: None exactly for an absent index, invariant kept, adjf unchanged).""",
"""forall (NW EW : Type) (g : graph NW EW),
  (forall (e : nat) (w : EW) (g' : graph NW EW),
     set_edge_weight g e w = Some g' ->
     gnodes g' = gnodes g /\\
     map enext (gedges g') = map enext (gedges g) /\\
     map enode (gedges g') = map enode (gedges g) /\\
     map ewt (gedges g') = upd (map ewt (gedges g)) e w) /\\
  (forall (a : nat) (w : NW) (g' : graph NW EW),
     set_node_weight g a w = Some g' ->
     gedges g' = gedges g /\\
     map nnext (gnodes g') = map nnext (gnodes g) /\\
     map nwt (gnodes g') = upd (map nwt (gnodes g)) a w)""",
"@set_weights_links")

th("C01b_gmap_def", "[gmap f h g]: Graph::map -- the state opcode 27 moves to (with f = h = S).",
"""forall (NW EW NW2 EW2 : Type) (f : NW -> NW2) (h : EW -> EW2) (g : graph NW EW),
  gmap f h g =
    mkGraph (map (fun n => mkNode (f (nwt n)) (nnext n)) (gnodes g))
            (map (fun e => mkEdge (h (ewt e)) (enext e) (enode e)) (gedges g))""",
"fun NW EW NW2 EW2 f h g => eq_refl")

th("C01b_map_weights", """
G3. The weight map of opcode 27: invariant kept, weights mapped, all links, endpoints and adjacency lists identical.""",
"""forall (NW EW NW2 EW2 : Type) (f : NW -> NW2) (h : EW -> EW2) (cap : nat) (g : graph NW EW),
  GInv cap g ->
  GInv cap (gmap f h g) /\\
  map nwt (gnodes (gmap f h g)) = map f (map nwt (gnodes g)) /\\
  map nnext (gnodes (gmap f h g)) = map nnext (gnodes g) /\\
  map ewt (gedges (gmap f h g)) = map h (map ewt (gedges g)) /\\
  map enext (gedges (gmap f h g)) = map enext (gedges g) /\\
  map enode (gedges (gmap f h g)) = map enode (gedges g) /\\
  (forall k i : nat, adjf cap (gmap f h g) k i = adjf cap g k i)""",
"@gmap_spec")

# ---------------------------------------------------------------- G2
th("C01b_pushed", """
[pushed g' k i m n]: the edges m .. m+n-1 of g' having node i as endpoint k, highest index (= most recently added)
first -- what n successive add_edge calls push in front of the direction-k list of i (C01_inv_add_edge).""",
"""forall (NW EW : Type) (g : graph NW EW) (k i m n : nat),
  pushed g k i m n = rev (filter (fun x : nat => ept g k x =? i) (seq m n))""",
"@F_pushed")

th("C01b_need", "[need es]: one more than the highest node index named in es (0 for the empty list).",
"""forall W : Type,
  need (@nil (nat * nat * W)) = 0 /\\
  (forall (a b : nat) (w : W) (r : list (nat * nat * W)),
     need ((a, b, w) :: r) = Nat.max (S (Nat.max a b)) (need r))""",
"@F_need")

th("C01b_extend_with_edges", """
G2. extend_with_edges(es) with the node default [dflt].  It always returns; the list splits into the processed
prefix [pre] and the rest [post].  Invariant kept; old node weights untouched and only default-weight nodes
appended; old edges untouched and exactly [pre] appended in order; every adjacency list is the old one with the new
incident edges pushed in front, most recent first.  ok = true: everything was processed.  ok = false (checked
indices only): the first unprocessed edge names a node at or beyond the index limit, or the edge index limit was
reached.  The node count is min(cap, max(old count, need(pre ++ first edge of post))): THE REFUSED EDGE STILL
APPENDS ITS DEFAULT NODES (up to the limit) -- the state is not the one reached before that edge
(C01b_example_extend).  The size hypothesis is needed for unchecked (usize) indices only.""",
"""forall (NW EW : Type) (cap : nat) (capcheck : bool) (dflt : NW) (es : list (nat * nat * EW)) (g : graph NW EW),
  GInv cap g ->
  (capcheck = false ->
     Nat.max (length (gnodes g)) (need es) <= cap /\\ length (gedges g) + length es <= cap) ->
  exists (ok : bool) (g' : graph NW EW) (pre post : list (nat * nat * EW)),
    extend_with_edges cap capcheck dflt g es = (ok, g') /\\
    es = pre ++ post /\\
    GInv cap g' /\\
    map nwt (gnodes g') = map nwt (gnodes g) ++ repeat dflt (length (gnodes g') - length (gnodes g)) /\\
    length (gnodes g') = Nat.min cap (Nat.max (length (gnodes g)) (need (pre ++ firstn 1 post))) /\\
    etrip g' = etrip g ++ pre /\\
    (forall k i : nat,
       adjf cap g' k i = pushed g' k i (length (gedges g)) (length pre) ++ adjf cap g k i) /\\
    (if ok
     then post = [] /\\ Nat.max (length (gnodes g)) (need es) <= cap
     else capcheck = true /\\
          (exists (a b : nat) (w : EW) (post' : list (nat * nat * EW)),
             post = (a, b, w) :: post' /\\
             (cap <= Nat.max a b \\/ Nat.max a b < cap /\\ length (gedges g) + length pre = cap)))""",
"@F_extend_with_edges")

th("C01b_extend_ok_iff", """
G2. With checked indices the boolean is false exactly when an index limit is in the way: some named node index is
>= cap, or the edge vector would exceed cap.""",
"""forall (NW EW : Type) (cap : nat) (capcheck : bool) (dflt : NW) (es : list (nat * nat * EW))
    (g : graph NW EW) (ok : bool) (g' : graph NW EW),
  GInv cap g -> capcheck = true ->
  extend_with_edges cap capcheck dflt g es = (ok, g') ->
  (ok = true <-> need es <= cap /\\ length (gedges g) + length es <= cap)""",
"@F_extend_ok_iff")

# ---------------------------------------------------------------- G1
th("C01b_omapi", """
[omapi f i l]: filter_map over a list with the running index (starting at i); the p-th element, when kept, lands at
position (number of kept elements before p).""",
"""forall (A B : Type) (f : nat -> A -> option B),
  (forall i : nat, omapi f i [] = []) /\\
  (forall (i : nat) (x : A) (r : list A),
     omapi f i (x :: r) =
       match f i x with Some y => y :: omapi f (S i) r | None => omapi f (S i) r end) /\\
  (forall (l : list A) (i p : nat) (x : A) (y : B),
     nth_error l p = Some x -> f (i + p) x = Some y ->
     nth_error (omapi f i l) (length (omapi f i (firstn p l))) = Some y)""",
"@F_omapi")

th("C01b_filter_map_vocabulary", """
G1 vocabulary.  [keptb nmap g i]: node i exists and nmap keeps it.  [rank nmap g i]: the number of kept nodes
before i = the NEW INDEX of a kept node i (strictly increasing on kept nodes, below the new node count).
[fm_edge_of nmap emap g x ((a,b),w)]: what becomes of edge x: kept iff both endpoints are kept and emap keeps it, with
the mapped weight and the renumbered endpoints.""",
"""forall (NW EW NW2 EW2 : Type) (nmap : nat -> NW -> option NW2) (emap : nat -> EW -> option EW2)
    (g : graph NW EW),
  (forall i : nat,
     keptb nmap g i = true <->
     (exists (n : node NW) (w2 : NW2), nth_error (gnodes g) i = Some n /\\ nmap i (nwt n) = Some w2)) /\\
  (forall i : nat, rank nmap g i = length (omapi nmap 0 (firstn i (map nwt (gnodes g))))) /\\
  (forall i j : nat, i < j -> keptb nmap g i = true -> rank nmap g i < rank nmap g j) /\\
  (forall i : nat,
     keptb nmap g i = true -> rank nmap g i < length (omapi nmap 0 (map nwt (gnodes g)))) /\\
  (forall (x a b : nat) (w : EW),
     fm_edge_of nmap emap g x (a, b, w) =
       (if keptb nmap g a && keptb nmap g b
        then option_map (fun w2 : EW2 => (rank nmap g a, rank nmap g b, w2)) (emap x w)
        else None))""",
"@F_fm_vocabulary")

th("C01b_filter_map", """
G1. filter_map on a graph satisfying the invariant NEVER hits an index limit (the result is no larger than the
source; None is reachable only from states violating the invariant).  The result satisfies the invariant; its nodes
are the kept nodes in order with the mapped weights (compacted: node i moves to [rank nmap g i]); its edges are the
edges whose endpoints are both kept and that emap keeps, in order, with mapped weights and renumbered endpoints; its
adjacency lists are those of a graph built by add_edge in that order: the incident edges by DESCENDING index.""",
"""forall (NW EW NW2 EW2 : Type) (cap : nat) (capcheck : bool)
    (nmap : nat -> NW -> option NW2) (emap : nat -> EW -> option EW2) (g : graph NW EW),
  GInv cap g ->
  exists g' : graph NW2 EW2,
    filter_map cap capcheck nmap emap g = Some g' /\\
    GInv cap g' /\\
    map nwt (gnodes g') = omapi nmap 0 (map nwt (gnodes g)) /\\
    etrip g' = omapi (fm_edge_of nmap emap g) 0 (etrip g) /\\
    (forall k i : nat, adjf cap g' k i = pushed g' k i 0 (length (gedges g'))) /\\
    (forall (i : nat) (n : node NW) (w2 : NW2),
       nth_error (gnodes g) i = Some n -> nmap i (nwt n) = Some w2 ->
       nth_error (map nwt (gnodes g')) (rank nmap g i) = Some w2) /\\
    (forall (x : nat) (t : nat * nat * EW) (t2 : nat * nat * EW2),
       nth_error (etrip g) x = Some t -> fm_edge_of nmap emap g x t = Some t2 ->
       nth_error (etrip g') (length (omapi (fm_edge_of nmap emap g) 0 (firstn x (etrip g)))) = Some t2)""",
"@F_filter_map")

# ---------------------------------------------------------------- G4
th("C01b_into_edge_type", """
G4. into_edge_type (opcode 15): the graph value is unchanged, only the flag flips; the stream prints the battery of
the SAME graph under the new flag.""",
"""forall (cap : nat) (capcheck debug : bool) (d : bool) (g : G) (a : list Z),
  GraphIO.step cap capcheck debug (d, g) (15, a) =
    ((negb d, g), (TAG_UNIT, []) :: battery cap (negb d) g) /\\
  step2 cap capcheck debug 0 (d, g) GIntoEdgeType = Ok (RUnit, (negb d, g))""",
"fun cap capcheck debug d g a => conj (@into_edge_type_step cap capcheck debug d g a) eq_refl")

th("C01b_queries_any_flag", """
G4. What the queries return on the same g for an ARBITRARY flag d (so also for the flag after into_edge_type): the
C01 query theorems, in one statement parametrised by d.""",
"""forall (NW EW : Type) (cap : nat) (g : graph NW EW) (d : bool),
  GInv cap g ->
  (forall a k : nat,
     neighbors_directed cap d g a k =
       Ok (if d
           then map (fun e : nat => (e, ept g (1 - dirk k) e)) (adjf cap g (dirk k) a)
           else map (fun e : nat => (e, tgt g e)) (adjf cap g 0 a) ++
                map (fun e : nat => (e, src g e))
                  (filter (fun e : nat => negb (src g e =? a)) (adjf cap g 1 a)))) /\\
  (forall a k : nat,
     exists r1 r2 : list (nat * (nat * nat) * EW),
       edges_directed cap d g a k = Ok (r1 ++ r2) /\\
       (if d
        then Forall2 (eref g false) (adjf cap g (dirk k) a) r1 /\\ r2 = []
        else Forall2 (eref g (negb (k =? 0))) (adjf cap g 0 a) r1 /\\
             Forall2 (eref g (k =? 0))
               (filter (fun e : nat => negb (src g e =? a)) (adjf cap g 1 a)) r2)) /\\
  (forall a b : nat,
     find_edge d g a b =
       Ok match find (fun x : nat => tgt g x =? b) (adjf cap g 0 a) with
          | Some e => Some e
          | None => if d then None else find (fun x : nat => src g x =? b) (adjf cap g 1 a)
          end) /\\
  (forall a b : nat,
     find_edge_undirected g a b =
       Ok match find (fun x : nat => tgt g x =? b) (adjf cap g 0 a) with
          | Some e => Some (e, 0)
          | None => option_map (fun e : nat => (e, 1))
                      (find (fun x : nat => src g x =? b) (adjf cap g 1 a))
          end) /\\
  (forall a b : nat,
     exists r : list (nat * (nat * nat) * EW),
       edges_directed cap d g a 0 = Ok r /\\
       edges_connecting cap d g a b =
         Ok (filter (fun t : nat * (nat * nat) * EW => snd (snd (fst t)) =? b) r)) /\\
  (forall k : nat,
     externals cap d g k =
       filter (fun i : nat => isnil (adjf cap g k i) && (d || isnil (adjf cap g (1 - k) i)))
         (seq 0 (length (gnodes g))))""",
"""fun NW EW cap g d I =>
    conj (fun a k => @neighbors_flag NW EW cap g d a k I)
   (conj (fun a k => @edges_flag NW EW cap g d a k I)
   (conj (fun a b => @find_edge_flag NW EW cap g d a b I)
   (conj (fun a b => @find_edge_undirected_total NW EW cap g a b I)
   (conj (fun a b => @edges_connecting_flag NW EW cap g d a b I)
         (fun k => @externals_spec NW EW cap g I d k)))))""")

# ---------------------------------------------------------------- G6
th("C01b_step2_def", """
G6. The semantic step over ALL operations ([gop2], Proofs/GraphH2.v), case by case.  State = (directed, graph).""",
"""forall (NW EW : Type) (cap : nat) (capcheck debug : bool) (dflt : NW) (d : bool) (g : graph NW EW),
  let s := (d, g) in
  let step2 := step2 cap capcheck debug dflt in
  (forall w, step2 s (GAddNode w) =
     (let '(r, g') := try_add_node cap capcheck g w in Ok (RIdx r, (d, g')))) /\\
  (forall a b w, step2 s (GAddEdge a b w) =
     (let '(r, g') := try_add_edge cap capcheck g a b w in Ok (RIdx r, (d, g')))) /\\
  (forall a b w, step2 s (GUpdateEdge a b w) =
     rmap (fun '(r, g') => (RIdx r, (d, g'))) (try_update_edge cap capcheck d g a b w)) /\\
  (forall a, step2 s (GRemoveNode a) =
     rmap (fun '(r, g') => (RNw r, (d, g'))) (remove_node cap debug g a)) /\\
  (forall e, step2 s (GRemoveEdge e) =
     rmap (fun '(r, g') => (REw r, (d, g'))) (remove_edge debug g e)) /\\
  step2 s GReverse = Ok (RUnit, (d, reverse g)) /\\
  step2 s GClear = Ok (RUnit, (d, g_empty)) /\\
  step2 s GClearEdges = Ok (RUnit, (d, clear_edges cap g)) /\\
  (forall keep, step2 s (GRetainNodes keep) =
     rmap (fun g' => (RUnit, (d, g'))) (retain_nodes cap debug keep g)) /\\
  (forall keep, step2 s (GRetainEdges keep) =
     rmap (fun g' => (RUnit, (d, g'))) (retain_edges debug keep g)) /\\
  (forall es, step2 s (GExtend es) =
     (let '(ok, g') := extend_with_edges cap capcheck dflt g es in Ok (RBool ok, (d, g')))) /\\
  (forall nmap emap, step2 s (GFilterMap nmap emap) =
     match filter_map cap capcheck nmap emap g with
     | Some g' => Ok (RUnit, (d, g'))
     | None => Panic
     end) /\\
  step2 s GIntoEdgeType = Ok (RUnit, (negb d, g)) /\\
  (forall a w, step2 s (GSetNodeWeight a w) =
     match set_node_weight g a w with
     | Some g' => Ok (RBool true, (d, g'))
     | None => Ok (RBool false, (d, g))
     end) /\\
  (forall e w, step2 s (GSetEdgeWeight e w) =
     match set_edge_weight g e w with
     | Some g' => Ok (RBool true, (d, g'))
     | None => Ok (RBool false, (d, g))
     end) /\\
  (forall a, step2 s (GNodeWeight a) = Ok (RNw (option_map nwt (nth_error (gnodes g) a)), s)) /\\
  (forall e, step2 s (GEdgeWeight e) = Ok (REw (option_map ewt (nth_error (gedges g) e)), s)) /\\
  (forall e, step2 s (GEdgeEndpoints e) = Ok (REnds (option_map enode (nth_error (gedges g) e)), s)) /\\
  (forall a b, step2 s (GFindEdge a b) = rmap (fun o => (REdge o, s)) (find_edge d g a b)) /\\
  (forall a b, step2 s (GFindEdgeUndirected a b) =
     rmap (fun o => (REdgeDir o, s)) (find_edge_undirected g a b)) /\\
  (forall a b, step2 s (GEdgesConnecting a b) =
     rmap (fun l => (RErefs l, s)) (edges_connecting cap d g a b)) /\\
  (forall a k, step2 s (GFirstEdge a k) = Ok (REdge (first_edge cap g a k), s)) /\\
  (forall e k, step2 s (GNextEdge e k) = Ok (REdge (next_edge cap g e k), s)) /\\
  (forall a k, step2 s (GWalk a k) = rmap (fun l => (RPairs l, s)) (neighbors_directed cap d g a k)) /\\
  (forall f h, step2 s (GMap f h) = Ok (RUnit, (d, gmap f h g)))""",
"""fun NW EW cap capcheck debug dflt d g =>
  conj (fun w => eq_refl) (conj (fun a b w => eq_refl) (conj (fun a b w => eq_refl) (conj (fun a => eq_refl)
 (conj (fun e => eq_refl) (conj eq_refl (conj eq_refl (conj eq_refl (conj (fun keep => eq_refl)
 (conj (fun keep => eq_refl) (conj (fun es => eq_refl) (conj (fun nmap emap => eq_refl) (conj eq_refl
 (conj (fun a w => eq_refl) (conj (fun e w => eq_refl) (conj (fun a => eq_refl) (conj (fun e => eq_refl)
 (conj (fun e => eq_refl) (conj (fun a b => eq_refl) (conj (fun a b => eq_refl) (conj (fun a b => eq_refl)
 (conj (fun a k => eq_refl) (conj (fun e k => eq_refl) (conj (fun a k => eq_refl) (fun f h => eq_refl))))))))))))))))))))))))""")

th("C01b_run2_def", "G6. Histories: run2 threads step2, stopping at the first Panic / OutOfFuel (there is none: C01b_run2).",
"""forall (NW EW : Type) (cap : nat) (capcheck debug : bool) (dflt : NW) (s : bool * graph NW EW),
  run2 cap capcheck debug dflt s [] = Ok s /\\
  (forall (o : gop2 NW EW) (rest : list (gop2 NW EW)),
     run2 cap capcheck debug dflt s (o :: rest) =
       rbind (step2 cap capcheck debug dflt s o) (fun '(_, s') => run2 cap capcheck debug dflt s' rest))""",
"fun NW EW cap capcheck debug dflt s => conj eq_refl (fun o rest => eq_refl)")

th("C01b_bounds_def", """
G6. The size bookkeeping used for unchecked (usize) indices only: upper bounds on the two vector lengths after an
operation, and [fits]: they stay within cap along the history.""",
"""forall (NW EW : Type) (cap : nat),
  (forall (o : gop2 NW EW) (n : nat),
     nbound o n = match o with
                  | GAddNode _ => S n
                  | GClear => 0
                  | GExtend es => Nat.max n (need es)
                  | _ => n
                  end) /\\
  (forall (o : gop2 NW EW) (e : nat),
     ebound o e = match o with
                  | GAddEdge _ _ _ | GUpdateEdge _ _ _ => S e
                  | GClear | GClearEdges => 0
                  | GExtend es => e + length es
                  | _ => e
                  end) /\\
  (forall n e : nat, fits cap n e (@nil (gop2 NW EW)) = True) /\\
  (forall (n e : nat) (o : gop2 NW EW) (rest : list (gop2 NW EW)),
     fits cap n e (o :: rest) =
       (nbound o n <= cap /\\ ebound o e <= cap /\\ fits cap (nbound o n) (ebound o e) rest))""",
"fun NW EW cap => conj (fun o n => eq_refl) (conj (fun o e => eq_refl) (conj (fun n e => eq_refl) (fun n e o rest => eq_refl)))")

th("C01b_step2_total", """
G6. Every operation, on every state satisfying the invariant, returns (no panic, no fuel exhaustion -- the only Panic
of step2, filter_map at an index limit, is unreachable), keeps the invariant and respects the bounds.""",
"""forall (NW EW : Type) (cap : nat) (capcheck debug : bool) (dflt : NW) (d : bool) (g : graph NW EW)
    (o : gop2 NW EW),
  GInv cap g ->
  (capcheck = false ->
     nbound o (length (gnodes g)) <= cap /\\ ebound o (length (gedges g)) <= cap) ->
  exists (r : gout2 NW EW) (d' : bool) (g' : graph NW EW),
    step2 cap capcheck debug dflt (d, g) o = Ok (r, (d', g')) /\\
    GInv cap g' /\\
    length (gnodes g') <= nbound o (length (gnodes g)) /\\
    length (gedges g') <= ebound o (length (gedges g))""",
"@step2_ok")

th("C01b_run2", "G6. Histories over all operations from any state satisfying the invariant.",
"""forall (NW EW : Type) (cap : nat) (capcheck debug : bool) (dflt : NW) (ops : list (gop2 NW EW))
    (s : bool * graph NW EW),
  GInv cap (snd s) ->
  (capcheck = false -> fits cap (length (gnodes (snd s))) (length (gedges (snd s))) ops) ->
  exists s' : bool * graph NW EW, run2 cap capcheck debug dflt s ops = Ok s' /\\ GInv cap (snd s')""",
"@run2_ok")

th("C01b_history2", """
G6. From Graph::new(), with either flag: every operation list runs to the end and the invariant holds (checked
indices: no hypothesis at all).""",
"""forall (NW EW : Type) (cap : nat) (capcheck debug : bool) (dflt : NW) (d : bool) (ops : list (gop2 NW EW)),
  (capcheck = false -> fits cap 0 0 ops) ->
  exists s' : bool * graph NW EW,
    run2 cap capcheck debug dflt (d, g_empty) ops = Ok s' /\\ GInv cap (snd s')""",
"@history2_ok")

th("C01b_decode2_def", "G6. The decoder of the differential stream, opcode by opcode (weights are numbers, default 0).",
"""forall a : list Z,
  decode2 (0, a) = Some (GAddNode (arg a 0)) /\\
  decode2 (1, a) = Some (GAddNode (arg a 0)) /\\
  decode2 (2, a) = Some (GAddEdge (arg a 0) (arg a 1) (arg a 2)) /\\
  decode2 (3, a) = Some (GAddEdge (arg a 0) (arg a 1) (arg a 2)) /\\
  decode2 (4, a) = Some (GUpdateEdge (arg a 0) (arg a 1) (arg a 2)) /\\
  decode2 (5, a) = Some (GUpdateEdge (arg a 0) (arg a 1) (arg a 2)) /\\
  decode2 (6, a) = Some (GRemoveNode (arg a 0)) /\\
  decode2 (7, a) = Some (GRemoveEdge (arg a 0)) /\\
  decode2 (8, a) = Some GReverse /\\
  decode2 (9, a) = Some GClear /\\
  decode2 (10, a) = Some GClearEdges /\\
  decode2 (11, a) = Some (GRetainNodes (keepmod (arg a 0) (arg a 1))) /\\
  decode2 (12, a) = Some (GRetainEdges (keepmod (arg a 0) (arg a 1))) /\\
  decode2 (13, a) = Some (GExtend (triples a)) /\\
  decode2 (14, a) =
    Some (GFilterMap (fun _ w => if keepmod (arg a 0) (arg a 1) w then Some (S w) else None)
                     (fun _ w => if keepmod (arg a 2) (arg a 3) w then Some (S w) else None)) /\\
  decode2 (15, a) = Some GIntoEdgeType /\\
  decode2 (16, a) = Some (GSetNodeWeight (arg a 0) (arg a 1)) /\\
  decode2 (17, a) = Some (GSetEdgeWeight (arg a 0) (arg a 1)) /\\
  decode2 (18, a) = Some (GNodeWeight (arg a 0)) /\\
  decode2 (19, a) = Some (GEdgeWeight (arg a 0)) /\\
  decode2 (20, a) = Some (GEdgeEndpoints (arg a 0)) /\\
  decode2 (21, a) = Some (GFindEdge (arg a 0) (arg a 1)) /\\
  decode2 (22, a) = Some (GFindEdgeUndirected (arg a 0) (arg a 1)) /\\
  decode2 (23, a) = Some (GEdgesConnecting (arg a 0) (arg a 1)) /\\
  decode2 (24, a) = Some (GFirstEdge (arg a 0) (arg a 1)) /\\
  decode2 (25, a) = Some (GNextEdge (arg a 0) (arg a 1)) /\\
  decode2 (26, a) = Some (GWalk (arg a 0) (arg a 1)) /\\
  decode2 (27, a) = Some (GMap S S) /\\
  (forall code : nat, 28 <= code -> decode2 (code, a) = None)""",
"fun a => " + "".join("conj eq_refl (" for _ in range(28)) + "fun code H => @decode2_default code a H" + ")"*28)

th("C01b_step_link", """
G6, the link.  For EVERY line (all 28 opcodes and the unknown ones): the state after GraphIO.step and the lines it
prints are those of step2 on the decoded operation -- first line = [render] of step2's result (Proofs/GraphH2.v: the
opcode only selects the panicking / try_ rendering of an index-limit error and the rendering of extend_with_edges'
boolean), followed by the observation battery of the new state when the operation is a mutation ([mutates]).""",
"""forall (cap : nat) (capcheck debug : bool) (s : st) (o : line),
  GraphIO.step cap capcheck debug s o =
    match decode2 o with
    | Some p =>
        match step2 cap capcheck debug 0 s p with
        | Ok (r, s') =>
            (s', render (fst o) r :: (if mutates p then battery cap (fst s') (snd s') else []))
        | Panic => (s, [(TAG_PANIC, [])])
        | OutOfFuel => (s, [(TAG_FUEL, [])])
        end
    | None => (s, [(TAG_PANIC, [])])
    end""",
"@step_link")

th("C01b_step_link_inv", """
G6. On a state satisfying the invariant the first case always applies: step2 returns, the new state satisfies the
invariant, and no walk of the printed battery panics or runs out of fuel ([quiet]: tag neither PANIC nor FUEL).""",
"""forall (cap : nat) (capcheck debug : bool) (d : bool) (g : G) (o : line) (p : gop2 nat nat),
  GInv cap g -> decode2 o = Some p ->
  (capcheck = false ->
     nbound p (length (gnodes g)) <= cap /\\ ebound p (length (gedges g)) <= cap) ->
  exists (r : gout2 nat nat) (d' : bool) (g' : graph nat nat),
    step2 cap capcheck debug 0 (d, g) p = Ok (r, (d', g')) /\\
    GInv cap g' /\\
    GraphIO.step cap capcheck debug (d, g) o =
      ((d', g'), render (fst o) r :: (if mutates p then battery cap d' g' else [])) /\\
    Forall quiet (if mutates p then battery cap d' g' else [])""",
"@step_link_inv")

th("C01b_quiet", "[quiet l]: the line is neither a panic nor a fuel-exhaustion report.",
"forall l : line, quiet l <-> fst l <> TAG_PANIC /\\ fst l <> TAG_FUEL",
"fun l => conj (fun H => H) (fun H => H)")

th("C01b_battery_quiet", "G6. Under the invariant every line of the observation battery is quiet.",
"""forall (cap : nat) (d : bool) (g : G), GInv cap g -> Forall quiet (battery cap d g)""",
"@battery_quiet")

th("C01b_visited_def", "[visited s ops]: the states GraphIO.run goes through; [decode_all]: the decoded operations.",
"""forall (cap : nat) (capcheck debug : bool) (s : st),
  visited cap capcheck debug s [] = [s] /\\
  (forall (o : line) (rest : list line),
     visited cap capcheck debug s (o :: rest) =
       s :: visited cap capcheck debug (fst (GraphIO.step cap capcheck debug s o)) rest) /\\
  (forall ops : list line,
     decode_all ops =
       flat_map (fun o : line => match decode2 o with Some p => [p] | None => [] end) ops)""",
"fun cap capcheck debug s => conj eq_refl (conj (fun o rest => eq_refl) (fun ops => eq_refl))")

th("C01b_visited_inv", """
G6. Hence every state the differential stream visits satisfies the invariant (checked indices: unconditionally, from
Graph::new()).""",
"""forall (cap : nat) (capcheck debug : bool) (ops : list line),
  (forall s : st,
     GInv cap (snd s) ->
     (capcheck = false ->
        fits cap (length (gnodes (snd s))) (length (gedges (snd s))) (decode_all ops)) ->
     Forall (fun s' : st => GInv cap (snd s')) (visited cap capcheck debug s ops)) /\\
  (forall d : bool,
     capcheck = true ->
     Forall (fun s' : st => GInv cap (snd s')) (visited cap capcheck debug (d, g_empty) ops))""",
"fun cap capcheck debug ops => conj (@visited_inv cap capcheck debug ops) (fun d H => @visited_inv_checked cap capcheck debug ops d H)")

# ---------------------------------------------------------------- examples
def ex(name, comment, lemma, src):
    # take the statement text of `Lemma lemma : ... Proof.` out of GraphFinal2.v
    i = src.index("Lemma %s :" % lemma) + len("Lemma %s :" % lemma)
    j = src.index("Proof.", i)
    stmt = src[i:j].strip()
    assert stmt.endswith(".")
    th(name, comment, stmt[:-1], lemma, kind="Example")

src = open("theories/Proofs/GraphFinal2.v").read()
ex("C01b_example_walk", """
Example: a graph after two swap-removals (remove_edge 1 moves the last edge to index 1, remove_node 1 moves the last
node to index 1 and drops its incident edges); first_edge / next_edge, the walk, and the iterators agree.""", "exA", src)
ex("C01b_example_filter_map", """
Example: filter_map dropping the middle node 1 (with its incident edges 0 and 3) and edge 4: nodes 2, 3 move to 1, 2;
the surviving edges are renumbered 0..3 in order; adjacency lists by descending index.""", "exB", src)
ex("C01b_example_extend", """
Example: extend_with_edges naming node 4 of a 2-node graph (three default nodes appended); a run refused at the node
index limit (the refused edge still appends a node); a run refused at the edge index limit; and the smallest case
showing that a refused edge changes the state (counterexample to "the state is the one reached before that edge").""", "exC", src)
ex("C01b_example_all_opcodes", """
Example: one stream using all 28 opcodes (codes 0..27 all occur); every visited state satisfies the invariant; run2 on
the decoded operations ends in the stream's last state; eight of the visited states and eleven of the printed first
lines (queries 18..26, setters 16, 17).""", "exD", src)

ex("C01b_example_unchecked", """
Example: the same stream with unchecked (usize-like) indices: the size hypothesis [fits] of C01b_visited_inv holds, the
visited states satisfy the invariant and are the same as with checked indices.""", "exE", src)

ex("C01b_example_filter_map_limit", """
Example: the None of filter_map is the index limit, reachable only from a source that violates the invariant for that
limit: a 3-node graph under a node index limit of 2 (cap = 2) gives None when all nodes are kept, Some when one is
dropped.""", "exF", src)

out = []
out.append("""(* C01b -- Graph, second round: the operations the first round (Props/C01.v) left out.  Walker primitives
   first_edge / next_edge and the detached walker of opcode 26 (G5), weight-only operations (G3),
   extend_with_edges (G2), filter_map (G1), into_edge_type (G4), and histories over ALL 28 opcodes of
   Model/GraphIO.v with the link between GraphIO.step and the semantic step (G6).  Only statements (closed by
   [exact]), their pinned forms ([Check]) and their assumptions.  Vocabulary as in Props/C01.v: [GInv cap g] the
   structural invariant, [adjf cap g 0 i] / [adjf cap g 1 i] the out- / in-list of node i in walk order (most
   recently added first), [ept g k e] endpoint k of edge e ([src] = [ept g 0], [tgt] = [ept g 1]),
   [etrip g] = [((source, target), weight)] by edge index. *)
From PG Require Import Lib.Io Lib.ListArr Lib.Walk Model.GraphM Model.GraphIO
  Proofs.GraphP Proofs.GraphQ Proofs.GraphRN Proofs.GraphW Proofs.GraphFM Proofs.GraphH2 Proofs.GraphFinal2.
""")
for (name, comment, stmt, proof, kind) in T:
    out.append("(* %s *)\n%s %s :\n  %s.\nProof. exact (%s). Qed.\n" % (comment, kind, name, stmt, proof))
out.append("")
for (name, comment, stmt, proof, kind) in T:
    out.append("Check %s :\n  %s.\n" % (name, stmt))
for (name, comment, stmt, proof, kind) in T:
    out.append("Print Assumptions %s." % name)
open("theories/Props/C01b.v", "w").write("\n".join(out) + "\n")
print(len(T), "theorems")
