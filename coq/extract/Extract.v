(* Extraction of the executable models for the correspondence check.
   ExtrOcamlBasic only: bool, option, unit, list, prod, sumbool, sumor map to
   OCaml's own; nat / N / Z / positive stay the extracted inductive types. *)
From Coq Require Import ExtrOcamlBasic.
From PG Require Import Model.UnionFindM Model.CsrM Model.AdjListM Model.MatrixM Model.GraphMapM Model.GraphIO Model.StableIO Model.Traversal Model.AlgoBasic Model.AlgoIO Model.Graph6M Model.DotM Model.SerdeIO Model.AcyclicIO Model.FullView Model.IsoM Model.CloneIO Model.Vf2M Model.SerdeGM.
Extraction Language OCaml.
Separate Extraction UnionFindM.run UnionFindM.uf_new CsrM.run_case AdjListM.run_case MatrixM.run_case GraphMapM.run_case GraphIO.run_case StableIO.run_case Traversal.run_case AlgoBasic.run_case AlgoIO.run_case Graph6M.run_case DotM.run_case SerdeIO.run_case_g SerdeIO.run_case_s AcyclicIO.run_case FullView.run_case IsoM.run_case CloneIO.run_case_g CloneIO.run_case_s Vf2M.vf2_run_case SerdeGM.run_case.
