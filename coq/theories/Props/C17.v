(* C17 -- serde round trips: serializing a Graph or StableGraph and deserializing the result gives a
   graph observably identical to the original (indices, weights, direction, vacancies up to the
   bounds); Graph and vacancy-free StableGraph streams are interchangeable; deserializing arbitrary
   input returns an error or a graph satisfying the full invariant of its type and never panics.
   This file holds only the property theorems (closed by [exact]), their pinned statements ([Check])
   and their assumptions.  Models: Model/SerdeM.v (wire value, the two serializers and the two deserializers) on Model/GraphM.v and
   Model/StableM.v.  Vocabulary:
     GInv cap g, SInv cap s    the structural invariants of C01 / C02 (Proofs/GraphP.v, Proofs/StableP.v;
                               SInv is spelled out by C02_invariant_meaning)
     adjf cap g k i            out- (k = 0) / in- (k = 1) list of node i of a Graph, as the model's walk meets it
     adj cap (sg s) k i l      the same for a StableGraph, as a relation
     etrip g                   [((source,target),weight)] by edge index
     g_node, g_edge, s_node, s_edge, graph_obs_eq, stable_obs_eq, cross_obs_eq, somes, holes_ok,
     slots_spec, occupied, fits, graph_wire_ok, stable_wire_ok      Spec/SerdeSpec.v
   Finding recorded here: C17_full_graph_not_reloadable / C17_full_stable_not_reloadable. *)
From Coq Require Import Permutation Sorted.
From PG Require Import Lib.ListArr Lib.Walk Model.GraphM Model.StableM Model.StableIO Model.SerdeM
  Spec.SerdeSpec
  Proofs.GraphP Proofs.GraphQ Proofs.GraphRN Proofs.StableP Proofs.StableT Proofs.StableH
  Proofs.SerdeGP Proofs.SerdeIL Proofs.SerdeSP Proofs.SerdeSQ Proofs.SerdeRT Proofs.SerdeEx Proofs.SerdeFinal.

(* The acceptance condition of Graph::deserialize, spelled out: no node_holes, no vacant edge, the
edge property of the target type, fewer than max nodes and edges when the index type is checked,
every endpoint below the node count. *)
Theorem C17_graph_wire_ok_meaning :
  forall (cap : nat) (capcheck directed : bool) (w : wire),
  graph_wire_ok cap capcheck directed w <->
  w_holes w = [] /\
  (forall e, In e (w_edges w) -> e <> None) /\
  w_directed w = directed /\
  (capcheck = true -> length (w_nodes w) < cap) /\
  (capcheck = true -> length (w_edges w) < cap) /\
  (forall s t x, In (Some (s, t, x)) (w_edges w) -> s < length (w_nodes w) /\ t < length (w_nodes w)).
Proof. exact (@F_graph_wire_ok_meaning). Qed.

(* T1. Graph::deserialize on ANY wire value returns an error or a graph; it returns a graph exactly
when the acceptance condition holds; that graph satisfies the full invariant GInv, its node weights
are the wire's node list and its edges, index by index, the wire's edge list.  (For usize indices,
capcheck = false, the value is assumed to fit the address space.) *)
Theorem C17_graph_deser :
  forall (cap : nat) (capcheck directed : bool) (w : wire),
  (capcheck = false -> length (w_nodes w) <= cap /\ length (w_edges w) <= cap) ->
  (deser_graph cap capcheck directed w = None /\ ~ graph_wire_ok cap capcheck directed w) \/
  (exists g : graph nat nat,
     deser_graph cap capcheck directed w = Some g /\
     graph_wire_ok cap capcheck directed w /\
     GInv cap g /\
     map nwt (gnodes g) = w_nodes w /\
     map (fun e => Some (fst (enode e), snd (enode e), ewt e)) (gedges g) = w_edges w).
Proof. exact (@F_graph_deser). Qed.

(* T1. Without any size assumption: a graph is returned only for acceptable input, and unacceptable
input is always an error. *)
Theorem C17_graph_deser_sound :
  forall (cap : nat) (capcheck directed : bool) (w : wire),
  (forall g : graph nat nat,
     deser_graph cap capcheck directed w = Some g -> graph_wire_ok cap capcheck directed w) /\
  (~ graph_wire_ok cap capcheck directed w -> deser_graph cap capcheck directed w = None).
Proof. exact (@F_graph_deser_sound). Qed.

(* T2. Serializing a valid Graph (below the index limit when it is checked) and deserializing gives a
valid Graph with the same node weights by index, the same ((source,target),weight) by edge index,
and for every node out- and in-lists holding the same edge indices (the order inside a list may
differ: the loader links in index order). *)
Theorem C17_graph_roundtrip :
  forall (cap : nat) (capcheck d : bool) (g : graph nat nat),
  GInv cap g ->
  (capcheck = true -> length (gnodes g) < cap /\ length (gedges g) < cap) ->
  exists g' : graph nat nat,
    deser_graph cap capcheck d (ser_graph d g) = Some g' /\
    GInv cap g' /\
    map nwt (gnodes g') = map nwt (gnodes g) /\
    etrip g' = etrip g /\
    graph_obs_eq g g' /\
    (forall k i : nat, i < length (gnodes g) ->
       NoDup (adjf cap g' k i) /\ NoDup (adjf cap g k i) /\
       (forall x : nat, In x (adjf cap g' k i) <-> In x (adjf cap g k i)) /\
       Permutation (adjf cap g' k i) (adjf cap g k i)).
Proof. exact (@F_graph_roundtrip). Qed.

(* T2, boundary (recorded finding): with a checked index type a graph holding exactly max nodes (or
edges) -- which add_node / add_edge allow -- serializes to a stream that its own deserializer refuses. *)
Theorem C17_full_graph_not_reloadable :
  forall (cap : nat) (capcheck d : bool) (g : graph nat nat),
  capcheck = true ->
  length (gnodes g) = cap \/ length (gedges g) = cap ->
  deser_graph cap capcheck d (ser_graph d g) = None.
Proof. exact (@F_full_graph_not_reloadable). Qed.

(* T3. The hole interleaving loop: it succeeds exactly when node_holes is strictly increasing with
every hole below the total slot count, and then returns THE slot vector that has None exactly at
the hole positions and the compact weights in order elsewhere. *)
Theorem C17_interleave :
  forall holes compact : list nat,
  (forall slots : list (option nat),
     interleave holes compact 0 (length compact + length holes) [] = Some slots <->
     holes_ok (length compact + length holes) holes /\ slots_spec holes compact slots) /\
  (interleave holes compact 0 (length compact + length holes) [] = None <->
   ~ holes_ok (length compact + length holes) holes).
Proof. exact (@F_interleave). Qed.

(* The acceptance condition of StableGraph::deserialize, spelled out ([slots] = the slot vector). *)
Theorem C17_stable_wire_ok_meaning :
  forall (cap : nat) (capcheck directed : bool) (w : wire) (slots : list (option nat)),
  stable_wire_ok cap capcheck directed w slots <->
  w_directed w = directed /\
  (capcheck = true -> length (w_edges w) < cap) /\
  (StronglySorted lt (w_holes w) /\
   Forall (fun h => h < length (w_nodes w) + length (w_holes w)) (w_holes w)) /\
  (length slots = length (w_nodes w) + length (w_holes w) /\
   (forall i, nth_error slots i = Some None <-> In i (w_holes w)) /\
   somes slots = w_nodes w) /\
  (capcheck = true -> length slots < cap) /\
  (forall s t x, In (Some (s, t, x)) (w_edges w) ->
     (exists v, nth_error slots s = Some (Some v)) /\ (exists v, nth_error slots t = Some (Some v))).
Proof. exact (@F_stable_wire_ok_meaning). Qed.

(* T3. StableGraph::deserialize on ANY wire value returns Ok: never a panic (the checked indexings of
upd_node / upd_edge / link_edge are unreachable), never fuel exhaustion.  It returns Some exactly when
the acceptance condition holds; the result satisfies the full invariant SInv (adjacency lists, both
free lists with back pointers, counters), its node slots are the denoted slot vector and its edge
slots the wire's edges, index by index. *)
Theorem C17_stable_deser :
  forall (cap : nat) (capcheck directed : bool) (w : wire),
  (capcheck = false -> length (w_nodes w) + length (w_holes w) <= cap /\ length (w_edges w) <= cap) ->
  (deser_stable cap capcheck directed w = Ok None /\
     forall slots, ~ stable_wire_ok cap capcheck directed w slots) \/
  (exists (s : sgraph) (slots : list (option nat)),
     deser_stable cap capcheck directed w = Ok (Some s) /\
     stable_wire_ok cap capcheck directed w slots /\
     SInv cap s /\
     map nwt (gnodes (sg s)) = slots /\
     length (gedges (sg s)) = length (w_edges w) /\
     (forall i, s_node s i = match nth_error slots i with Some o => o | None => None end) /\
     (forall x, s_edge s x = match nth_error (w_edges w) x with Some o => o | None => None end)).
Proof. exact (@F_stable_deser). Qed.

(* T3, the safety half alone. *)
Theorem C17_stable_deser_never_panics :
  forall (cap : nat) (capcheck directed : bool) (w : wire),
  (capcheck = false -> length (w_nodes w) + length (w_holes w) <= cap /\ length (w_edges w) <= cap) ->
  exists r : option sgraph,
    deser_stable cap capcheck directed w = Ok r /\
    match r with Some s => SInv cap s | None => True end.
Proof. exact (@F_stable_deser_never_panics). Qed.

(* T3, acceptance read off the wire: edge property, lengths, node_holes increasing and below the
total, and every endpoint of a present edge names an occupied slot of the denoted slot vector. *)
Theorem C17_stable_deser_accepts_iff :
  forall (cap : nat) (capcheck directed : bool) (w : wire),
  (capcheck = false -> length (w_nodes w) + length (w_holes w) <= cap /\ length (w_edges w) <= cap) ->
  ((exists s : sgraph, deser_stable cap capcheck directed w = Ok (Some s)) <->
   w_directed w = directed /\
   fits cap capcheck (length (w_edges w)) /\
   holes_ok (length (w_nodes w) + length (w_holes w)) (w_holes w) /\
   fits cap capcheck (length (w_nodes w) + length (w_holes w)) /\
   (forall slots, slots_spec (w_holes w) (w_nodes w) slots ->
      forall a b x, In (Some (a, b, x)) (w_edges w) -> occupied slots a /\ occupied slots b)).
Proof. exact (@F_stable_deser_accepts_iff). Qed.

(* T4. Serializing a valid StableGraph (bounds below the index limit when it is checked) and
deserializing gives a valid StableGraph that is observably the same: every index has the same node
weight or vacancy, the same edge (source, target, weight) or vacancy, same node_bound, edge_bound,
node_count, edge_count; the slot vectors are cut at the bounds (trailing vacancies are dropped); every
live node's out- and in-lists hold the same edge indices. *)
Theorem C17_stable_roundtrip :
  forall (cap : nat) (capcheck d : bool) (s : sgraph),
  SInv cap s ->
  (capcheck = true -> node_bound s < cap /\ edge_bound s < cap) ->
  exists s' : sgraph,
    deser_stable cap capcheck d (ser_stable d s) = Ok (Some s') /\
    SInv cap s' /\
    stable_obs_eq s s' /\
    length (gnodes (sg s')) = node_bound s /\
    length (gedges (sg s')) = edge_bound s /\
    (forall k i : nat, s_node s i <> None ->
       exists l l' : list nat,
         adj cap (sg s) k i l /\ adj cap (sg s') k i l' /\ NoDup l /\ NoDup l' /\
         (forall x : nat, In x l <-> In x l') /\ Permutation l l').
Proof. exact (@F_stable_roundtrip). Qed.

(* T4, boundary (same finding as for Graph): a StableGraph whose node_bound or edge_bound equals max
serializes to a stream that its own deserializer refuses. *)
Theorem C17_full_stable_not_reloadable :
  forall (cap : nat) (capcheck d : bool) (s : sgraph),
  capcheck = true ->
  node_bound s = cap \/ edge_bound s = cap ->
  deser_stable cap capcheck d (ser_stable d s) = Ok None.
Proof. exact (@F_full_stable_not_reloadable). Qed.

(* T5a. Any Graph stream loads as a StableGraph with the same indices, weights and endpoints and no
vacancy. *)
Theorem C17_graph_loads_as_stable :
  forall (cap : nat) (capcheck d : bool) (g : graph nat nat),
  GInv cap g ->
  (capcheck = true -> length (gnodes g) < cap /\ length (gedges g) < cap) ->
  exists s' : sgraph,
    deser_stable cap capcheck d (ser_graph d g) = Ok (Some s') /\
    SInv cap s' /\
    cross_obs_eq g s' /\
    length (gnodes (sg s')) = length (gnodes g) /\
    length (gedges (sg s')) = length (gedges g) /\
    (forall i, i < length (gnodes g) -> s_node s' i <> None) /\
    (forall x, x < length (gedges g) -> s_edge s' x <> None).
Proof. exact (@F_graph_loads_as_stable). Qed.

(* T5b. A StableGraph stream loads as a Graph exactly when there is no node vacancy below node_bound
and no edge vacancy below edge_bound (and the bounds fit); the Graph then has the same indices,
weights and endpoints. *)
Theorem C17_stable_loads_as_graph :
  forall (cap : nat) (capcheck d : bool) (s : sgraph),
  SInv cap s ->
  ((exists g' : graph nat nat, deser_graph cap capcheck d (ser_stable d s) = Some g') <->
   (forall i, i < node_bound s -> s_node s i <> None) /\
   (forall x, x < edge_bound s -> s_edge s x <> None) /\
   fits cap capcheck (node_bound s) /\ fits cap capcheck (edge_bound s)) /\
  (forall g' : graph nat nat,
     deser_graph cap capcheck d (ser_stable d s) = Some g' ->
     GInv cap g' /\ cross_obs_eq g' s /\
     length (gnodes g') = node_bound s /\ length (gedges g') = edge_bound s).
Proof. exact (@F_stable_loads_as_graph). Qed.

(* T6. Non-vacuity: a StableGraph reached by a history of public operations, with two node vacancies
and one interior edge vacancy; its wire value; the reloaded graph has the same observable content
(live nodes, live edges, counters, bounds, slot weights), passes the debug check of the free lists,
and lists the out-edges of node 0 in a different order; the stream is not a Graph stream. *)
Example C17_example_roundtrip :
  exists s s' : sgraph,
    srun 8 true true (sg_empty 8) ex_ops = Ok s /\
    SInv 8 s /\
    map nwt (gnodes (sg s)) = [Some 10; None; Some 12; None; Some 14] /\
    map ewt (gedges (sg s)) = [Some 104; Some 101; None; Some 103] /\
    ser_stable true s = ex_wire /\
    deser_stable 8 true true ex_wire = Ok (Some s') /\
    obs s' = obs s /\
    obs s = ([(0, 10); (2, 12); (4, 14)],
             [(0, (0, 2), 104); (1, (0, 4), 101); (3, (2, 4), 103)],
             (3, 3, 5, 4),
             ([Some 10; None; Some 12; None; Some 14], [Some 104; Some 101; None; Some 103])) /\
    check_free_lists 8 s' = true /\
    out_list s 0 = Ok [0; 1] /\ out_list s' 0 = Ok [1; 0] /\
    deser_graph 8 true true ex_wire = None.
Proof. exact (ex_roundtrip). Qed.

(* T6. The history and the wire value of the example. *)
Example C17_example_wire :
  ex_ops =
    [OAddNode 10; OAddNode 11; OAddNode 12; OAddNode 13; OAddNode 14;
     OAddEdge 0 2 100; OAddEdge 0 4 101; OAddEdge 4 4 102; OAddEdge 2 4 103;
     ORemoveNode 1; ORemoveNode 3; ORemoveEdge 0; OAddEdge 0 2 104; ORemoveEdge 2] /\
  ex_wire =
    mkWire [10; 12; 14] [1; 3] true [Some (0, 2, 104); Some (0, 4, 101); None; Some (2, 4, 103)].
Proof. exact ((conj (eq_refl ex_ops) (eq_refl ex_wire))). Qed.

(* T6. One rejected wire value per error kind (vacant endpoint, endpoint out of range, node_holes not
increasing, hole beyond the total, holes or a vacant edge in a Graph stream, wrong edge property, too
many nodes / slots / edges for a 4-valued index type); none panics; the size-limited ones load when
the index type has room. *)
Example C17_example_rejected :
  deser_stable 8 true true (mkWire [10; 12] [1] true [Some (0, 1, 5)]) = Ok None /\
  deser_stable 8 true true (mkWire [10; 12] [] true [Some (0, 2, 5)]) = Ok None /\
  deser_graph 8 true true (mkWire [10; 12] [] true [Some (0, 2, 5)]) = None /\
  deser_stable 8 true true (mkWire [10] [2; 1] true []) = Ok None /\
  deser_stable 8 true true (mkWire [10] [2] true []) = Ok None /\
  deser_graph 8 true true (mkWire [10] [0] true []) = None /\
  deser_graph 8 true true (mkWire [10; 12] [] true [Some (0, 1, 5); None]) = None /\
  deser_stable 8 true true (mkWire [10] [] false []) = Ok None /\
  deser_graph 8 true true (mkWire [10] [] false []) = None /\
  deser_stable 4 true true (mkWire [1; 2; 3; 4] [] true []) = Ok None /\
  deser_stable 4 true true (mkWire [1; 2; 3] [1] true []) = Ok None /\
  deser_stable 4 true true
    (mkWire [1; 2] [] true [Some (0, 1, 1); Some (0, 1, 1); Some (0, 1, 1); Some (0, 1, 1)]) = Ok None /\
  deser_graph 4 true true (mkWire [1; 2; 3; 4] [] true []) = None /\
  deser_graph 4 true true
    (mkWire [1; 2] [] true [Some (0, 1, 1); Some (0, 1, 1); Some (0, 1, 1); Some (0, 1, 1)]) = None /\
  (exists s, deser_stable 8 true true (mkWire [1; 2; 3] [1] true []) = Ok (Some s)) /\
  (exists g, deser_graph 8 true true (mkWire [1; 2; 3; 4] [] true []) = Some g).
Proof. exact (ex_rejected). Qed.

(* T6. The boundary on a concrete graph: the fourth add_node on a 4-valued index type succeeds (index
3), the graph is valid, its stream does not load with the checked index type and loads unchecked. *)
Example C17_example_full_graph :
  (exists g3, snd (try_add_node 4 true g3 4) = g4 /\ fst (try_add_node 4 true g3 4) = inr 3) /\
  GInv 4 g4 /\
  deser_graph 4 true true (ser_graph true g4) = None /\
  (exists g, deser_graph 4 false true (ser_graph true g4) = Some g).
Proof. exact (ex_full_graph). Qed.


Check C17_graph_wire_ok_meaning :
  forall (cap : nat) (capcheck directed : bool) (w : wire),
  graph_wire_ok cap capcheck directed w <->
  w_holes w = [] /\
  (forall e, In e (w_edges w) -> e <> None) /\
  w_directed w = directed /\
  (capcheck = true -> length (w_nodes w) < cap) /\
  (capcheck = true -> length (w_edges w) < cap) /\
  (forall s t x, In (Some (s, t, x)) (w_edges w) -> s < length (w_nodes w) /\ t < length (w_nodes w)).
Check C17_graph_deser :
  forall (cap : nat) (capcheck directed : bool) (w : wire),
  (capcheck = false -> length (w_nodes w) <= cap /\ length (w_edges w) <= cap) ->
  (deser_graph cap capcheck directed w = None /\ ~ graph_wire_ok cap capcheck directed w) \/
  (exists g : graph nat nat,
     deser_graph cap capcheck directed w = Some g /\
     graph_wire_ok cap capcheck directed w /\
     GInv cap g /\
     map nwt (gnodes g) = w_nodes w /\
     map (fun e => Some (fst (enode e), snd (enode e), ewt e)) (gedges g) = w_edges w).
Check C17_graph_deser_sound :
  forall (cap : nat) (capcheck directed : bool) (w : wire),
  (forall g : graph nat nat,
     deser_graph cap capcheck directed w = Some g -> graph_wire_ok cap capcheck directed w) /\
  (~ graph_wire_ok cap capcheck directed w -> deser_graph cap capcheck directed w = None).
Check C17_graph_roundtrip :
  forall (cap : nat) (capcheck d : bool) (g : graph nat nat),
  GInv cap g ->
  (capcheck = true -> length (gnodes g) < cap /\ length (gedges g) < cap) ->
  exists g' : graph nat nat,
    deser_graph cap capcheck d (ser_graph d g) = Some g' /\
    GInv cap g' /\
    map nwt (gnodes g') = map nwt (gnodes g) /\
    etrip g' = etrip g /\
    graph_obs_eq g g' /\
    (forall k i : nat, i < length (gnodes g) ->
       NoDup (adjf cap g' k i) /\ NoDup (adjf cap g k i) /\
       (forall x : nat, In x (adjf cap g' k i) <-> In x (adjf cap g k i)) /\
       Permutation (adjf cap g' k i) (adjf cap g k i)).
Check C17_full_graph_not_reloadable :
  forall (cap : nat) (capcheck d : bool) (g : graph nat nat),
  capcheck = true ->
  length (gnodes g) = cap \/ length (gedges g) = cap ->
  deser_graph cap capcheck d (ser_graph d g) = None.
Check C17_interleave :
  forall holes compact : list nat,
  (forall slots : list (option nat),
     interleave holes compact 0 (length compact + length holes) [] = Some slots <->
     holes_ok (length compact + length holes) holes /\ slots_spec holes compact slots) /\
  (interleave holes compact 0 (length compact + length holes) [] = None <->
   ~ holes_ok (length compact + length holes) holes).
Check C17_stable_wire_ok_meaning :
  forall (cap : nat) (capcheck directed : bool) (w : wire) (slots : list (option nat)),
  stable_wire_ok cap capcheck directed w slots <->
  w_directed w = directed /\
  (capcheck = true -> length (w_edges w) < cap) /\
  (StronglySorted lt (w_holes w) /\
   Forall (fun h => h < length (w_nodes w) + length (w_holes w)) (w_holes w)) /\
  (length slots = length (w_nodes w) + length (w_holes w) /\
   (forall i, nth_error slots i = Some None <-> In i (w_holes w)) /\
   somes slots = w_nodes w) /\
  (capcheck = true -> length slots < cap) /\
  (forall s t x, In (Some (s, t, x)) (w_edges w) ->
     (exists v, nth_error slots s = Some (Some v)) /\ (exists v, nth_error slots t = Some (Some v))).
Check C17_stable_deser :
  forall (cap : nat) (capcheck directed : bool) (w : wire),
  (capcheck = false -> length (w_nodes w) + length (w_holes w) <= cap /\ length (w_edges w) <= cap) ->
  (deser_stable cap capcheck directed w = Ok None /\
     forall slots, ~ stable_wire_ok cap capcheck directed w slots) \/
  (exists (s : sgraph) (slots : list (option nat)),
     deser_stable cap capcheck directed w = Ok (Some s) /\
     stable_wire_ok cap capcheck directed w slots /\
     SInv cap s /\
     map nwt (gnodes (sg s)) = slots /\
     length (gedges (sg s)) = length (w_edges w) /\
     (forall i, s_node s i = match nth_error slots i with Some o => o | None => None end) /\
     (forall x, s_edge s x = match nth_error (w_edges w) x with Some o => o | None => None end)).
Check C17_stable_deser_never_panics :
  forall (cap : nat) (capcheck directed : bool) (w : wire),
  (capcheck = false -> length (w_nodes w) + length (w_holes w) <= cap /\ length (w_edges w) <= cap) ->
  exists r : option sgraph,
    deser_stable cap capcheck directed w = Ok r /\
    match r with Some s => SInv cap s | None => True end.
Check C17_stable_deser_accepts_iff :
  forall (cap : nat) (capcheck directed : bool) (w : wire),
  (capcheck = false -> length (w_nodes w) + length (w_holes w) <= cap /\ length (w_edges w) <= cap) ->
  ((exists s : sgraph, deser_stable cap capcheck directed w = Ok (Some s)) <->
   w_directed w = directed /\
   fits cap capcheck (length (w_edges w)) /\
   holes_ok (length (w_nodes w) + length (w_holes w)) (w_holes w) /\
   fits cap capcheck (length (w_nodes w) + length (w_holes w)) /\
   (forall slots, slots_spec (w_holes w) (w_nodes w) slots ->
      forall a b x, In (Some (a, b, x)) (w_edges w) -> occupied slots a /\ occupied slots b)).
Check C17_stable_roundtrip :
  forall (cap : nat) (capcheck d : bool) (s : sgraph),
  SInv cap s ->
  (capcheck = true -> node_bound s < cap /\ edge_bound s < cap) ->
  exists s' : sgraph,
    deser_stable cap capcheck d (ser_stable d s) = Ok (Some s') /\
    SInv cap s' /\
    stable_obs_eq s s' /\
    length (gnodes (sg s')) = node_bound s /\
    length (gedges (sg s')) = edge_bound s /\
    (forall k i : nat, s_node s i <> None ->
       exists l l' : list nat,
         adj cap (sg s) k i l /\ adj cap (sg s') k i l' /\ NoDup l /\ NoDup l' /\
         (forall x : nat, In x l <-> In x l') /\ Permutation l l').
Check C17_full_stable_not_reloadable :
  forall (cap : nat) (capcheck d : bool) (s : sgraph),
  capcheck = true ->
  node_bound s = cap \/ edge_bound s = cap ->
  deser_stable cap capcheck d (ser_stable d s) = Ok None.
Check C17_graph_loads_as_stable :
  forall (cap : nat) (capcheck d : bool) (g : graph nat nat),
  GInv cap g ->
  (capcheck = true -> length (gnodes g) < cap /\ length (gedges g) < cap) ->
  exists s' : sgraph,
    deser_stable cap capcheck d (ser_graph d g) = Ok (Some s') /\
    SInv cap s' /\
    cross_obs_eq g s' /\
    length (gnodes (sg s')) = length (gnodes g) /\
    length (gedges (sg s')) = length (gedges g) /\
    (forall i, i < length (gnodes g) -> s_node s' i <> None) /\
    (forall x, x < length (gedges g) -> s_edge s' x <> None).
Check C17_stable_loads_as_graph :
  forall (cap : nat) (capcheck d : bool) (s : sgraph),
  SInv cap s ->
  ((exists g' : graph nat nat, deser_graph cap capcheck d (ser_stable d s) = Some g') <->
   (forall i, i < node_bound s -> s_node s i <> None) /\
   (forall x, x < edge_bound s -> s_edge s x <> None) /\
   fits cap capcheck (node_bound s) /\ fits cap capcheck (edge_bound s)) /\
  (forall g' : graph nat nat,
     deser_graph cap capcheck d (ser_stable d s) = Some g' ->
     GInv cap g' /\ cross_obs_eq g' s /\
     length (gnodes g') = node_bound s /\ length (gedges g') = edge_bound s).
Check C17_example_roundtrip :
  exists s s' : sgraph,
    srun 8 true true (sg_empty 8) ex_ops = Ok s /\
    SInv 8 s /\
    map nwt (gnodes (sg s)) = [Some 10; None; Some 12; None; Some 14] /\
    map ewt (gedges (sg s)) = [Some 104; Some 101; None; Some 103] /\
    ser_stable true s = ex_wire /\
    deser_stable 8 true true ex_wire = Ok (Some s') /\
    obs s' = obs s /\
    obs s = ([(0, 10); (2, 12); (4, 14)],
             [(0, (0, 2), 104); (1, (0, 4), 101); (3, (2, 4), 103)],
             (3, 3, 5, 4),
             ([Some 10; None; Some 12; None; Some 14], [Some 104; Some 101; None; Some 103])) /\
    check_free_lists 8 s' = true /\
    out_list s 0 = Ok [0; 1] /\ out_list s' 0 = Ok [1; 0] /\
    deser_graph 8 true true ex_wire = None.
Check C17_example_wire :
  ex_ops =
    [OAddNode 10; OAddNode 11; OAddNode 12; OAddNode 13; OAddNode 14;
     OAddEdge 0 2 100; OAddEdge 0 4 101; OAddEdge 4 4 102; OAddEdge 2 4 103;
     ORemoveNode 1; ORemoveNode 3; ORemoveEdge 0; OAddEdge 0 2 104; ORemoveEdge 2] /\
  ex_wire =
    mkWire [10; 12; 14] [1; 3] true [Some (0, 2, 104); Some (0, 4, 101); None; Some (2, 4, 103)].
Check C17_example_rejected :
  deser_stable 8 true true (mkWire [10; 12] [1] true [Some (0, 1, 5)]) = Ok None /\
  deser_stable 8 true true (mkWire [10; 12] [] true [Some (0, 2, 5)]) = Ok None /\
  deser_graph 8 true true (mkWire [10; 12] [] true [Some (0, 2, 5)]) = None /\
  deser_stable 8 true true (mkWire [10] [2; 1] true []) = Ok None /\
  deser_stable 8 true true (mkWire [10] [2] true []) = Ok None /\
  deser_graph 8 true true (mkWire [10] [0] true []) = None /\
  deser_graph 8 true true (mkWire [10; 12] [] true [Some (0, 1, 5); None]) = None /\
  deser_stable 8 true true (mkWire [10] [] false []) = Ok None /\
  deser_graph 8 true true (mkWire [10] [] false []) = None /\
  deser_stable 4 true true (mkWire [1; 2; 3; 4] [] true []) = Ok None /\
  deser_stable 4 true true (mkWire [1; 2; 3] [1] true []) = Ok None /\
  deser_stable 4 true true
    (mkWire [1; 2] [] true [Some (0, 1, 1); Some (0, 1, 1); Some (0, 1, 1); Some (0, 1, 1)]) = Ok None /\
  deser_graph 4 true true (mkWire [1; 2; 3; 4] [] true []) = None /\
  deser_graph 4 true true
    (mkWire [1; 2] [] true [Some (0, 1, 1); Some (0, 1, 1); Some (0, 1, 1); Some (0, 1, 1)]) = None /\
  (exists s, deser_stable 8 true true (mkWire [1; 2; 3] [1] true []) = Ok (Some s)) /\
  (exists g, deser_graph 8 true true (mkWire [1; 2; 3; 4] [] true []) = Some g).
Check C17_example_full_graph :
  (exists g3, snd (try_add_node 4 true g3 4) = g4 /\ fst (try_add_node 4 true g3 4) = inr 3) /\
  GInv 4 g4 /\
  deser_graph 4 true true (ser_graph true g4) = None /\
  (exists g, deser_graph 4 false true (ser_graph true g4) = Some g).

Print Assumptions C17_graph_wire_ok_meaning.
Print Assumptions C17_graph_deser.
Print Assumptions C17_graph_deser_sound.
Print Assumptions C17_graph_roundtrip.
Print Assumptions C17_full_graph_not_reloadable.
Print Assumptions C17_interleave.
Print Assumptions C17_stable_wire_ok_meaning.
Print Assumptions C17_stable_deser.
Print Assumptions C17_stable_deser_never_panics.
Print Assumptions C17_stable_deser_accepts_iff.
Print Assumptions C17_stable_roundtrip.
Print Assumptions C17_full_stable_not_reloadable.
Print Assumptions C17_graph_loads_as_stable.
Print Assumptions C17_stable_loads_as_graph.
Print Assumptions C17_example_roundtrip.
Print Assumptions C17_example_wire.
Print Assumptions C17_example_rejected.
Print Assumptions C17_example_full_graph.
