(* C08 — Dfs, Bfs, DfsPostOrder, Topo and depth_first_search over the visit-trait view of a
   graph.  This file holds only the property theorems (closed by [exact]), their pinned
   statements ([Check]), their assumptions, and non-vacuity examples.

   Vocabulary (Spec/Reach.v, Spec/DfsEvents.v):
     step v a b        b is in neighbors(a)
     reachable v s x   reflexive-transitive closure of step
     reach_in P v s x  reachable through nodes satisfying P only
     hopdist v s x k   a walk of k steps leads from s to x and none is shorter
     on_cycle, downstream, acyclic
     in_cap v x        x fits the visit map (FixedBitSet::put does not panic)
     VOk v             nodes and edge targets fit the visit map; edges run between view
                       nodes; in-lists and out-lists describe the same edges
     ev_run v ctl starts st evs st'   the event machine accepts evs (see Spec/DfsEvents.v)
     event_ok v pre e  the event e is justified by the events pre before it *)
From Coq Require Import Sorted Permutation.
From PG Require Import Lib.Io Model.View Model.Traversal Spec.Reach Spec.DfsEvents Proofs.TraversalAll.

(* ------------------------------------------------------------------ *)
(* Dfs                                                                 *)

(* From a fresh Dfs moved to s, draining emits exactly the nodes reachable from s, each
   once; no panic, no fuel exhaustion, for every fuel from trav_fuel on. *)
Theorem C08_dfs_reachable : forall v s fuel,
  VOk v -> in_cap v s -> trav_fuel v <= fuel ->
  exists l d, dfs_drain fuel v (dfs_move_to dfs_empty s) = Ok (l, d) /\ NoDup l /\
              (forall x, In x l <-> reachable v s x).
Proof. intros v s fuel Hv Hs Hf. exact (dfs_reachable_vok v s fuel Hv Hs Hf). Qed.

(* ... in particular for the fuel the model runs with. *)
Theorem C08_dfs_reachable_model : forall v s,
  VOk v -> in_cap v s ->
  exists l d, dfs_drain (4 * trav_fuel v) v (dfs_move_to dfs_empty s) = Ok (l, d) /\ NoDup l /\
              (forall x, In x l <-> reachable v s x).
Proof. intros v s Hv Hs. exact (dfs_reachable_vok v s (4 * trav_fuel v) Hv Hs (model_fuel v)). Qed.

(* move_to on any Dfs state: draining emits exactly the nodes reachable from t through nodes
   not discovered before the move — nothing when t itself was discovered. *)
Theorem C08_dfs_move_to_any : forall v d t,
  VOk v -> in_cap v t ->
  exists l d', dfs_drain (4 * trav_fuel v) v (dfs_move_to d t) = Ok (l, d') /\ NoDup l /\
    (forall x, In x l <-> reach_in (fun y => ~ In y (ddisc d)) v t x) /\
    (In t (ddisc d) -> l = []).
Proof. intros v d t Hv Ht. exact (dfs_move_to_vok v d t (4 * trav_fuel v) Hv Ht (model_fuel v)). Qed.

(* after any number k of next() calls that emitted l1: the nodes discovered are l1 *)
Theorem C08_dfs_move_to : forall v s k t l1 d1,
  VOk v -> in_cap v t ->
  dfs_steps k v (dfs_move_to dfs_empty s) = Ok (l1, d1) ->
  exists l2 d2, dfs_drain (4 * trav_fuel v) v (dfs_move_to d1 t) = Ok (l2, d2) /\ NoDup l2 /\
    (forall x, In x l2 <-> reach_in (fun y => ~ In y l1) v t x) /\
    (In t l1 -> l2 = []).
Proof.
  intros v s k t l1 d1 Hv Ht Hs.
  exact (dfs_move_to_after_steps v s k t l1 d1 (4 * trav_fuel v) Hv Ht (model_fuel v) Hs).
Qed.

(* reset forgets everything: continuing after it is a fresh traversal *)
Theorem C08_dfs_reset : forall d t, dfs_move_to (dfs_reset d) t = dfs_move_to dfs_empty t.
Proof. intros d t. exact (dfs_reset_fresh d t). Qed.

(* ------------------------------------------------------------------ *)
(* Bfs                                                                 *)

Theorem C08_bfs_reachable : forall v s fuel,
  VOk v -> in_cap v s -> trav_fuel v <= fuel ->
  exists l, rbind (bfs_new v s) (bfs_drain fuel v) = Ok l /\ NoDup l /\
    (forall x, In x l <-> reachable v s x) /\
    exists ds, Forall2 (hopdist v s) l ds /\ Sorted le ds.
Proof. intros v s fuel Hv Hs Hf. exact (bfs_vok v s fuel Hv Hs Hf). Qed.

(* the emitted nodes come in non-decreasing hop distance from the start (model fuel) *)
Theorem C08_bfs_nondecreasing_hops : forall v s,
  VOk v -> in_cap v s ->
  exists l, rbind (bfs_new v s) (bfs_drain (4 * trav_fuel v) v) = Ok l /\ NoDup l /\
    (forall x, In x l <-> reachable v s x) /\
    exists ds, Forall2 (hopdist v s) l ds /\ Sorted le ds.
Proof. intros v s Hv Hs. exact (bfs_vok v s (4 * trav_fuel v) Hv Hs (model_fuel v)). Qed.

(* ------------------------------------------------------------------ *)
(* DfsPostOrder                                                        *)

(* exactly the reachable nodes, each once; a node comes after each of its successors that
   cannot reach it back *)
Theorem C08_postorder_reachable : forall v s fuel,
  VOk v -> in_cap v s -> trav_fuel v + trav_fuel v <= fuel ->
  exists l d, dpo_drain fuel v (mkDpo [s] [] []) = Ok (l, d) /\ NoDup l /\
    (forall x, In x l <-> reachable v s x) /\
    (forall l1 u l2 w, l = l1 ++ u :: l2 -> step v u w -> ~ reachable v w u -> In w l1).
Proof. intros v s fuel Hv Hs Hf. exact (dpo_vok v s fuel Hv Hs Hf). Qed.

Theorem C08_postorder_successors_first : forall v s,
  VOk v -> in_cap v s ->
  exists l d, dpo_drain (4 * trav_fuel v) v (mkDpo [s] [] []) = Ok (l, d) /\ NoDup l /\
    (forall x, In x l <-> reachable v s x) /\
    (forall l1 u l2 w, l = l1 ++ u :: l2 -> step v u w -> ~ reachable v w u -> In w l1).
Proof. intros v s Hv Hs. exact (dpo_vok v s (4 * trav_fuel v) Hv Hs (model_fuel2 v)). Qed.

(* on an acyclic view: every successor first, i.e. the reverse is a topological order *)
Theorem C08_postorder_dag : forall v s,
  VOk v -> acyclic v -> in_cap v s ->
  exists l d, dpo_drain (4 * trav_fuel v) v (mkDpo [s] [] []) = Ok (l, d) /\ NoDup l /\
    (forall x, In x l <-> reachable v s x) /\
    (forall l1 u l2 w, l = l1 ++ u :: l2 -> step v u w -> In w l1).
Proof. intros v s Hv Ha Hs. exact (dpo_dag v s (4 * trav_fuel v) Hv Ha Hs (model_fuel2 v)). Qed.

(* ------------------------------------------------------------------ *)
(* Topo                                                                *)

(* each node once, after all its predecessors; exactly the view nodes that are neither on nor
   downstream of a cycle; hence every node exactly when the view is acyclic *)
Theorem C08_topo_predecessors_first : forall v fuel,
  VOk v -> trav_fuel v <= fuel ->
  exists l, topo_drain fuel v (topo_new v) = Ok l /\ NoDup l /\
    (forall x, In x l -> In x (vnodes v)) /\
    (forall l1 u l2 p, l = l1 ++ u :: l2 -> In p (neighbors_in v u) -> In p l1) /\
    (forall x, In x l <-> In x (vnodes v) /\ ~ downstream v x) /\
    ((forall x, In x (vnodes v) -> In x l) <-> acyclic v) /\
    (NoDup (vnodes v) -> (Permutation l (vnodes v) <-> acyclic v)).
Proof. intros v fuel Hv Hf. exact (topo_vok v fuel Hv Hf). Qed.

Theorem C08_topo_emits_iff : forall v,
  VOk v ->
  exists l, topo_drain (4 * trav_fuel v) v (topo_new v) = Ok l /\ NoDup l /\
    (forall x, In x l -> In x (vnodes v)) /\
    (forall l1 u l2 p, l = l1 ++ u :: l2 -> In p (neighbors_in v u) -> In p l1) /\
    (forall x, In x l <-> In x (vnodes v) /\ ~ downstream v x) /\
    ((forall x, In x (vnodes v) -> In x l) <-> acyclic v) /\
    (NoDup (vnodes v) -> (Permutation l (vnodes v) <-> acyclic v)).
Proof. intros v Hv. exact (topo_vok v (4 * trav_fuel v) Hv (model_fuel v)). Qed.

(* ------------------------------------------------------------------ *)
(* depth_first_search                                                  *)

(* For every visitor that does not prune on Finish (the Rust code panics there): the call
   succeeds; its events are accepted by the trace machine from the empty state; the flag is
   true exactly when the visitor broke, on the last event; without a break every node is
   closed and every start discovered; Discover/Finish are well nested with edge events
   leaving the innermost open node; times are 0,1,2,...; each event is justified by the
   events before it (tree: target undiscovered; back: target open; cross: target finished). *)
Theorem C08_dfsvisit_nesting : forall v ctl debug starts,
  VOk v -> (forall r, In r starts -> in_cap v r) -> (forall u t, ctl (EvFinish u t) <> CPrune) ->
  exists brk evs st, depth_first_search v ctl debug starts = Ok (brk, evs) /\
    ev_run v ctl starts tinit evs st /\ brk_ok ctl brk evs /\
    (brk = false -> topen st = [] /\ tpend st = None /\ forall r, In r starts -> In r (tdisc st)) /\
    nest [] evs = Some (map fst (topen st)) /\
    ev_times evs = seq 0 (length (ev_times evs)) /\
    (forall pre e post, evs = pre ++ e :: post -> event_ok v pre e).
Proof. intros v ctl debug starts Hv Hs Hf. exact (dfsvisit_vok v ctl debug starts Hv Hs Hf). Qed.

(* a visitor that always continues: one Discover and one Finish for exactly the nodes
   reachable from a start *)
Theorem C08_dfsvisit_continue : forall v debug starts,
  VOk v -> (forall r, In r starts -> in_cap v r) ->
  exists evs, depth_first_search v (fun _ => CContinue) debug starts = Ok (false, evs) /\
    NoDup (disc_nodes evs) /\ NoDup (fin_nodes evs) /\
    (forall x, In x (disc_nodes evs) <-> exists r, In r starts /\ reachable v r x) /\
    (forall x, In x (fin_nodes evs) <-> In x (disc_nodes evs)) /\
    nest [] evs = Some [].
Proof. intros v debug starts Hv Hs. exact (dfsvisit_continue v debug starts Hv Hs). Qed.

(* ------------------------------------------------------------------ *)
(* Non-vacuity: a 6-node view with a cycle 1 -> 3 -> 1 and a part (4 -> 5) unreachable from
   0, and an acyclic 4-node diamond                                    *)

Definition C08_ex : view :=
  mkView true 6 (Some 6) [0;1;2;3;4;5]
    [(0, [(0,1,0%Z); (1,2,0%Z)]); (1, [(2,3,0%Z)]); (2, [(3,3,0%Z)]); (3, [(4,1,0%Z)]); (4, [(5,5,0%Z)])]
    [(1, [(0,0,0%Z); (4,3,0%Z)]); (2, [(1,0,0%Z)]); (3, [(2,1,0%Z); (3,2,0%Z)]); (5, [(5,4,0%Z)])]
    6 6 [].

Definition C08_dag : view :=
  mkView true 4 (Some 4) [0;1;2;3]
    [(0, [(0,1,0%Z); (1,2,0%Z)]); (1, [(2,3,0%Z)]); (2, [(3,3,0%Z)])]
    [(1, [(0,0,0%Z)]); (2, [(1,0,0%Z)]); (3, [(2,1,0%Z); (3,2,0%Z)])]
    4 4 [].

Example C08_ex_ok : VOk C08_ex /\ VOk C08_dag /\ in_cap C08_ex 0 /\ in_cap C08_ex 4.
Proof.
  split; [apply vok_check_ok; vm_compute; reflexivity|].
  split; [apply vok_check_ok; vm_compute; reflexivity|].
  split; vm_compute; repeat constructor.
Qed.

(* the scripted visitors used below never prune on Finish *)
Example C08_ex_ctl_ok : forall u t,
  ctl_of [(1, 2, 1); (2, 1, 2)] (EvFinish u t) <> CPrune /\ ctl_of [(0, 3, 1)] (EvFinish u t) <> CPrune.
Proof. intros u t. vm_compute. split; discriminate. Qed.

Example C08_ex_traversals :
  rmap fst (dfs_drain (4 * trav_fuel C08_ex) C08_ex (dfs_move_to dfs_empty 0)) = Ok [0; 2; 3; 1]
  /\ rbind (dfs_steps 2 C08_ex (dfs_move_to dfs_empty 0)) (fun '(l1, d1) =>
       rmap (fun '(l2, _) => (l1, l2)) (dfs_drain (4 * trav_fuel C08_ex) C08_ex (dfs_move_to d1 1)))
     = Ok ([0; 2], [1; 3])
  /\ rbind (bfs_new C08_ex 0) (bfs_drain (4 * trav_fuel C08_ex) C08_ex) = Ok [0; 1; 2; 3]
  /\ rmap fst (dpo_drain (4 * trav_fuel C08_ex) C08_ex (mkDpo [0] [] [])) = Ok [1; 3; 2; 0]
  /\ topo_drain (4 * trav_fuel C08_ex) C08_ex (topo_new C08_ex) = Ok [4; 5; 0; 2]
  /\ topo_drain (4 * trav_fuel C08_dag) C08_dag (topo_new C08_dag) = Ok [0; 2; 1; 3]
  /\ rmap fst (dpo_drain (4 * trav_fuel C08_dag) C08_dag (mkDpo [0] [] [])) = Ok [3; 2; 1; 0].
Proof. vm_compute. repeat split; reflexivity. Qed.

Example C08_ex_events :
  depth_first_search C08_ex (fun _ => CContinue) true [0; 4] =
    Ok (false,
        [EvDiscover 0 0; EvTree 0 1; EvDiscover 1 1; EvTree 1 3; EvDiscover 3 2; EvBack 3 1;
         EvFinish 3 3; EvFinish 1 4; EvTree 0 2; EvDiscover 2 5; EvCross 2 3; EvFinish 2 6;
         EvFinish 0 7; EvDiscover 4 8; EvTree 4 5; EvDiscover 5 9; EvFinish 5 10; EvFinish 4 11])
  /\ (* prune the tree edge to 2, break on the back edge to 1 *)
     depth_first_search C08_ex (ctl_of [(1, 2, 1); (2, 1, 2)]) true [0; 4] =
    Ok (true,
        [EvDiscover 0 0; EvTree 0 1; EvDiscover 1 1; EvTree 1 3; EvDiscover 3 2; EvBack 3 1])
  /\ (* prune at the discovery of 3 *)
     depth_first_search C08_ex (ctl_of [(0, 3, 1)]) true [0] =
    Ok (false,
        [EvDiscover 0 0; EvTree 0 1; EvDiscover 1 1; EvTree 1 3; EvDiscover 3 2; EvFinish 3 3;
         EvFinish 1 4; EvTree 0 2; EvDiscover 2 5; EvCross 2 3; EvFinish 2 6; EvFinish 0 7]).
Proof. vm_compute. repeat split; reflexivity. Qed.

(* ------------------------------------------------------------------ *)

Check C08_dfs_reachable : forall v s fuel,
  VOk v -> in_cap v s -> trav_fuel v <= fuel ->
  exists l d, dfs_drain fuel v (dfs_move_to dfs_empty s) = Ok (l, d) /\ NoDup l /\
              (forall x, In x l <-> reachable v s x).
Check C08_dfs_reachable_model : forall v s,
  VOk v -> in_cap v s ->
  exists l d, dfs_drain (4 * trav_fuel v) v (dfs_move_to dfs_empty s) = Ok (l, d) /\ NoDup l /\
              (forall x, In x l <-> reachable v s x).
Check C08_dfs_move_to_any : forall v d t,
  VOk v -> in_cap v t ->
  exists l d', dfs_drain (4 * trav_fuel v) v (dfs_move_to d t) = Ok (l, d') /\ NoDup l /\
    (forall x, In x l <-> reach_in (fun y => ~ In y (ddisc d)) v t x) /\
    (In t (ddisc d) -> l = []).
Check C08_dfs_move_to : forall v s k t l1 d1,
  VOk v -> in_cap v t ->
  dfs_steps k v (dfs_move_to dfs_empty s) = Ok (l1, d1) ->
  exists l2 d2, dfs_drain (4 * trav_fuel v) v (dfs_move_to d1 t) = Ok (l2, d2) /\ NoDup l2 /\
    (forall x, In x l2 <-> reach_in (fun y => ~ In y l1) v t x) /\
    (In t l1 -> l2 = []).
Check C08_dfs_reset : forall d t, dfs_move_to (dfs_reset d) t = dfs_move_to dfs_empty t.
Check C08_bfs_reachable : forall v s fuel,
  VOk v -> in_cap v s -> trav_fuel v <= fuel ->
  exists l, rbind (bfs_new v s) (bfs_drain fuel v) = Ok l /\ NoDup l /\
    (forall x, In x l <-> reachable v s x) /\
    exists ds, Forall2 (hopdist v s) l ds /\ Sorted le ds.
Check C08_bfs_nondecreasing_hops : forall v s,
  VOk v -> in_cap v s ->
  exists l, rbind (bfs_new v s) (bfs_drain (4 * trav_fuel v) v) = Ok l /\ NoDup l /\
    (forall x, In x l <-> reachable v s x) /\
    exists ds, Forall2 (hopdist v s) l ds /\ Sorted le ds.
Check C08_postorder_reachable : forall v s fuel,
  VOk v -> in_cap v s -> trav_fuel v + trav_fuel v <= fuel ->
  exists l d, dpo_drain fuel v (mkDpo [s] [] []) = Ok (l, d) /\ NoDup l /\
    (forall x, In x l <-> reachable v s x) /\
    (forall l1 u l2 w, l = l1 ++ u :: l2 -> step v u w -> ~ reachable v w u -> In w l1).
Check C08_postorder_successors_first : forall v s,
  VOk v -> in_cap v s ->
  exists l d, dpo_drain (4 * trav_fuel v) v (mkDpo [s] [] []) = Ok (l, d) /\ NoDup l /\
    (forall x, In x l <-> reachable v s x) /\
    (forall l1 u l2 w, l = l1 ++ u :: l2 -> step v u w -> ~ reachable v w u -> In w l1).
Check C08_postorder_dag : forall v s,
  VOk v -> acyclic v -> in_cap v s ->
  exists l d, dpo_drain (4 * trav_fuel v) v (mkDpo [s] [] []) = Ok (l, d) /\ NoDup l /\
    (forall x, In x l <-> reachable v s x) /\
    (forall l1 u l2 w, l = l1 ++ u :: l2 -> step v u w -> In w l1).
Check C08_topo_predecessors_first : forall v fuel,
  VOk v -> trav_fuel v <= fuel ->
  exists l, topo_drain fuel v (topo_new v) = Ok l /\ NoDup l /\
    (forall x, In x l -> In x (vnodes v)) /\
    (forall l1 u l2 p, l = l1 ++ u :: l2 -> In p (neighbors_in v u) -> In p l1) /\
    (forall x, In x l <-> In x (vnodes v) /\ ~ downstream v x) /\
    ((forall x, In x (vnodes v) -> In x l) <-> acyclic v) /\
    (NoDup (vnodes v) -> (Permutation l (vnodes v) <-> acyclic v)).
Check C08_topo_emits_iff : forall v,
  VOk v ->
  exists l, topo_drain (4 * trav_fuel v) v (topo_new v) = Ok l /\ NoDup l /\
    (forall x, In x l -> In x (vnodes v)) /\
    (forall l1 u l2 p, l = l1 ++ u :: l2 -> In p (neighbors_in v u) -> In p l1) /\
    (forall x, In x l <-> In x (vnodes v) /\ ~ downstream v x) /\
    ((forall x, In x (vnodes v) -> In x l) <-> acyclic v) /\
    (NoDup (vnodes v) -> (Permutation l (vnodes v) <-> acyclic v)).
Check C08_dfsvisit_nesting : forall v ctl debug starts,
  VOk v -> (forall r, In r starts -> in_cap v r) -> (forall u t, ctl (EvFinish u t) <> CPrune) ->
  exists brk evs st, depth_first_search v ctl debug starts = Ok (brk, evs) /\
    ev_run v ctl starts tinit evs st /\ brk_ok ctl brk evs /\
    (brk = false -> topen st = [] /\ tpend st = None /\ forall r, In r starts -> In r (tdisc st)) /\
    nest [] evs = Some (map fst (topen st)) /\
    ev_times evs = seq 0 (length (ev_times evs)) /\
    (forall pre e post, evs = pre ++ e :: post -> event_ok v pre e).
Check C08_dfsvisit_continue : forall v debug starts,
  VOk v -> (forall r, In r starts -> in_cap v r) ->
  exists evs, depth_first_search v (fun _ => CContinue) debug starts = Ok (false, evs) /\
    NoDup (disc_nodes evs) /\ NoDup (fin_nodes evs) /\
    (forall x, In x (disc_nodes evs) <-> exists r, In r starts /\ reachable v r x) /\
    (forall x, In x (fin_nodes evs) <-> In x (disc_nodes evs)) /\
    nest [] evs = Some [].

Print Assumptions C08_dfs_reachable.
Print Assumptions C08_dfs_reachable_model.
Print Assumptions C08_dfs_move_to_any.
Print Assumptions C08_dfs_move_to.
Print Assumptions C08_dfs_reset.
Print Assumptions C08_bfs_reachable.
Print Assumptions C08_bfs_nondecreasing_hops.
Print Assumptions C08_postorder_reachable.
Print Assumptions C08_postorder_successors_first.
Print Assumptions C08_postorder_dag.
Print Assumptions C08_topo_predecessors_first.
Print Assumptions C08_topo_emits_iff.
Print Assumptions C08_dfsvisit_nesting.
Print Assumptions C08_dfsvisit_continue.
Print Assumptions C08_ex_ok.
Print Assumptions C08_ex_ctl_ok.
Print Assumptions C08_ex_traversals.
Print Assumptions C08_ex_events.
