(* C02b -- StableGraph, second round: the operations the first round left out.  find_edge /
   find_edge_undirected (U1), try_update_edge (U2), occupy_vacant_node anywhere in the free list and
   ensure_node_exists (X1), extend_with_edges (X2), filter_map (F1), map (F2), the conversions, and a
   history theorem over every operation of Model/StableIO.v (H1).  Only statements (closed by [exact]),
   their pinned forms ([Check]) and their assumptions.  Vocabulary as in Props/C02.v
   ([C02_invariant_meaning]): [nwo] / [ewo] slot weights, [epo] endpoints, [adj] adjacency lists, [fnx] /
   [fex] / [bkp] free-list links. *)
From PG Require Import Lib.Io Lib.ListArr Lib.Walk Model.GraphM Model.StableM Model.StableIO
  Proofs.GraphP Proofs.GraphRE Proofs.StableP Proofs.StableE Proofs.StableT Proofs.StableH
  Proofs.StableU Proofs.StableX Proofs.StableFM Proofs.StableTG Proofs.StableH2 Proofs.StableLink
  Proofs.StableFinal2.

(* U1. find_edge on a live node a is a search of the OUTGOING list of a, in list order, for the first edge whose
target is b; when undirected and nothing was found, of the INCOMING list of a for the first edge whose source is
b.  [lo] / [li] are the two adjacency lists of a as the invariant describes them ([adj], unique); [other_is g k b x]
tests the endpoint of x opposite to direction k (C02b_other_is). *)
Theorem C02b_find_edge :
  forall (cap : nat) (directed : bool) (s : sgraph) (a b : nat) (lo li : list nat),
  SInv cap s ->
  nwo (sg s) a <> None ->
  adj cap (sg s) 0 a lo ->
  adj cap (sg s) 1 a li ->
  s_find_edge directed s a b =
  Ok
    match find (other_is (sg s) 0 b) lo with
    | Some e => Some e
    | None => if directed then None else find (other_is (sg s) 1 b) li
    end.
Proof. exact (@s_find_edge_lists). Qed.

(* U1. find_edge_undirected: the same search; the second component tells where the edge was found: 0 = in the
outgoing list (the edge is a -> b), 1 = in the incoming list (the edge is b -> a, and no live a -> b exists). *)
Theorem C02b_find_edge_undirected :
  forall (cap : nat) (s : sgraph) (a b : nat) (lo li : list nat),
  SInv cap s ->
  nwo (sg s) a <> None ->
  adj cap (sg s) 0 a lo ->
  adj cap (sg s) 1 a li ->
  s_find_edge_undirected s a b =
  Ok
    match find (other_is (sg s) 0 b) lo with
    | Some e => Some (e, 0)
    | None => option_map (fun e : nat => (e, 1)) (find (other_is (sg s) 1 b) li)
    end.
Proof. exact (@s_find_edge_undirected_lists). Qed.

(* [other_is g k b x]: endpoint (1 - k) of edge slot x is b. *)
Theorem C02b_other_is :
  forall (g : IG) (k b x : nat), other_is g k b x = true <-> epo (gedges g) (1 - k) x = Some b.
Proof. exact (@other_is_meaning). Qed.

(* [joins g x a b]: x is a live edge from a to b. *)
Theorem C02b_joins :
  forall (g : IG) (x a b : nat),
  joins g x a b <-> ewo g x <> None /\ epo (gedges g) 0 x = Some a /\ epo (gedges g) 1 x = Some b.
Proof. exact (@joins_meaning). Qed.

(* U1. find_edge is total (never panics, never out of fuel) for ANY a (live, vacant, out of range); Some e is a live
edge joining a to b (or, undirected only, b to a when no live a -> b exists); None exactly when no live edge
a -> b (and, undirected, no live b -> a) exists. *)
Theorem C02b_find_edge_sound_complete :
  forall (cap : nat) (directed : bool) (s : sgraph) (a b : nat),
  SInv cap s ->
  exists o : option nat,
    s_find_edge directed s a b = Ok o /\
    match o with
    | Some e =>
        joins (sg s) e a b \/
        directed = false /\ joins (sg s) e b a /\ (forall x : nat, ~ joins (sg s) x a b)
    | None => forall x : nat, ~ joins (sg s) x a b /\ (directed = false -> ~ joins (sg s) x b a)
    end.
Proof. exact (@s_find_edge_sound_complete). Qed.

(* U1. The same for find_edge_undirected, with the direction flag. *)
Theorem C02b_find_edge_undirected_sound_complete :
  forall (cap : nat) (s : sgraph) (a b : nat),
  SInv cap s ->
  exists o : option (nat * nat),
    s_find_edge_undirected s a b = Ok o /\
    match o with
    | Some (e, k) =>
        k = 0 /\ joins (sg s) e a b \/
        k = 1 /\ joins (sg s) e b a /\ (forall x : nat, ~ joins (sg s) x a b)
    | None => forall x : nat, ~ joins (sg s) x a b /\ ~ joins (sg s) x b a
    end.
Proof. exact (@s_find_edge_undirected_sound_complete). Qed.

(* U1. A vacant or out-of-range a gives None (no invariant needed). *)
Theorem C02b_find_edge_vacant :
  forall (directed : bool) (s : sgraph) (a b : nat),
  nwo (sg s) a = None -> s_find_edge directed s a b = Ok None /\ s_find_edge_undirected s a b = Ok None.
Proof. exact (@s_find_edge_vacant). Qed.

(* U2. try_update_edge: when find_edge returns Some ix, that live edge gets the weight w, ix is returned, the
invariant is kept and NOTHING else changes (same node vector, same links: C02b_same_links); when it returns None
the call IS try_add_edge (C02_add_edge / C02_add_edge_errors describe all its outcomes, the errors NodeMissed and
EdgeIxLimit leaving the state unchanged). *)
Theorem C02b_update_edge :
  forall (cap : nat) (capcheck debug directed : bool) (s : sgraph) (a b w : nat),
  SInv cap s ->
  exists o : option nat,
    s_find_edge directed s a b = Ok o /\
    match o with
    | Some ix =>
        ewo (sg s) ix <> None /\
        (exists s' : sgraph,
           s_try_update_edge cap capcheck debug directed s a b w = Ok (inr ix, s') /\
           SInv cap s' /\
           (forall x : nat, ewo (sg s') x = (if x =? ix then Some w else ewo (sg s) x)) /\
           (forall j : nat, nwo (sg s') j = nwo (sg s) j) /\
           gnodes (sg s') = gnodes (sg s) /\ same_links cap s s')
    | None =>
        s_try_update_edge cap capcheck debug directed s a b w =
        s_try_add_edge cap capcheck debug s a b w
    end.
Proof. exact (@F_update_edge). Qed.

(* [same_links cap s s']: same slot counts, same live / vacant slots, same endpoints, same adjacency lists, same
free-list links (forward and backward), same counters and free-list heads. *)
Theorem C02b_same_links :
  forall (cap : nat) (s s' : sgraph),
  same_links cap s s' <->
  length (gnodes (sg s')) = length (gnodes (sg s)) /\
  length (gedges (sg s')) = length (gedges (sg s)) /\
  (forall j : nat, nwo (sg s') j = None <-> nwo (sg s) j = None) /\
  (forall x : nat, ewo (sg s') x = None <-> ewo (sg s) x = None) /\
  (forall k x : nat, epo (gedges (sg s')) k x = epo (gedges (sg s)) k x) /\
  (forall (k i : nat) (l : list nat), adj cap (sg s) k i l <-> adj cap (sg s') k i l) /\
  (forall i : nat, fnx (sg s') i = fnx (sg s) i) /\
  (forall x : nat, fex (sg s') x = fex (sg s) x) /\
  (forall i : nat, hdn (gnodes (sg s')) 1 i = hdn (gnodes (sg s)) 1 i) /\
  ncount s' = ncount s /\
  ecount s' = ecount s /\ free_node s' = free_node s /\ free_edge s' = free_edge s.
Proof. exact (@same_links_meaning). Qed.

(* Step codes 16 / 17 (node_weight_mut / edge_weight_mut on a live slot): only that weight changes. *)
Theorem C02b_set_weights :
  forall (cap : nat) (s : sgraph),
  SInv cap s ->
  (forall a w : nat,
   nwo (sg s) a <> None ->
   exists s' : sgraph,
     rmap (with_g s) (upd_node (sg s) a (fun n : inode => {| nwt := Some w; nnext := nnext n |})) =
     Ok s' /\
     SInv cap s' /\
     (forall j : nat, nwo (sg s') j = (if j =? a then Some w else nwo (sg s) j)) /\
     (forall x : nat, ewo (sg s') x = ewo (sg s) x) /\
     gedges (sg s') = gedges (sg s) /\ same_links cap s s') /\
  (forall e w : nat,
   ewo (sg s) e <> None ->
   exists s' : sgraph,
     rmap (with_g s)
       (upd_edge (sg s) e (fun e0 : iedge => {| ewt := Some w; enext := enext e0; enode := enode e0 |})) =
     Ok s' /\
     SInv cap s' /\
     (forall x : nat, ewo (sg s') x = (if x =? e then Some w else ewo (sg s) x)) /\
     (forall j : nat, nwo (sg s') j = nwo (sg s) j) /\
     gnodes (sg s') = gnodes (sg s) /\ same_links cap s s').
Proof. exact (@F_set_weights). Qed.

(* X1. occupy_vacant_node on ANY vacant slot (head, middle or tail of the free list) never panics and keeps the
invariant; [occ_post] is spelled out by C02b_occ_post. *)
Theorem C02b_occupy_vacant_node :
  forall (cap : nat) (debug : bool) (s : sgraph) (idx w : nat),
  SInv cap s ->
  idx < length (gnodes (sg s)) ->
  nwo (sg s) idx = None ->
  exists s' : sgraph,
    occupy_vacant_node cap debug s idx w = Ok s' /\ SInv cap s' /\ occ_post cap s idx w s'.
Proof. exact (@occupy_vacant_node_spec). Qed.

(* X1. The effect: slot idx becomes Some w with two empty adjacency lists; every other node, every edge and every
adjacency list is untouched; node_count + 1; the free node list l1 ++ idx :: l2 becomes l1 ++ l2, correctly linked
forwards ([lseg fnx]) and backwards ([bkp]); the free edge list is untouched. *)
Theorem C02b_occ_post :
  forall (cap : nat) (s : sgraph) (idx w : nat) (s' : sgraph),
  occ_post cap s idx w s' <->
  nwo (sg s') idx = Some w /\
  (forall j : nat, j <> idx -> nwo (sg s') j = nwo (sg s) j) /\
  gedges (sg s') = gedges (sg s) /\
  length (gnodes (sg s')) = length (gnodes (sg s)) /\
  (forall (k j : nat) (l : list nat),
   nwo (sg s) j <> None -> adj cap (sg s) k j l -> adj cap (sg s') k j l) /\
  (forall k : nat, adj cap (sg s') k idx []) /\
  ncount s' = S (ncount s) /\
  ecount s' = ecount s /\
  free_edge s' = free_edge s /\
  (exists l1 l2 : list nat,
     lseg (fnx (sg s)) (free_node s) (l1 ++ idx :: l2) cap /\
     lseg (fnx (sg s')) (free_node s') (l1 ++ l2) cap /\ bkp (sg s') cap (l1 ++ l2)).
Proof. exact (@occ_post_meaning). Qed.

(* X1. An index beyond the node vector panics (the Rust code indexes the vector). *)
Theorem C02b_occupy_out_of_range :
  forall (cap : nat) (debug : bool) (s : sgraph) (idx w : nat),
  length (gnodes (sg s)) <= idx -> occupy_vacant_node cap debug s idx w = Panic.
Proof. exact (@occupy_oob). Qed.

(* X1. ensure_node_exists returns its result together with the state reached: a live ix is a no-op; for a vacant
or absent ix below the index limit it never panics and keeps the invariant ([ens_post], C02b_ens_post); with checked
indices an ix at or beyond the limit panics (add_node(None) at the limit) -- but only after the padding loop has
filled the vector up to cap slots: the state left behind has cap - len more vacant slots, all pushed on the free
list, and satisfies the invariant ([avu_post], C02b_avu_post). *)
Theorem C02b_ensure_node_exists :
  forall (cap : nat) (capcheck debug : bool) (s : sgraph) (ix : nat),
  SInv cap s ->
  (nwo (sg s) ix <> None -> ensure_node_exists cap capcheck debug s ix = (Ok tt, s)) /\
  (nwo (sg s) ix = None ->
   ix < cap ->
   exists s' : sgraph,
     ensure_node_exists cap capcheck debug s ix = (Ok tt, s') /\ SInv cap s' /\ ens_post cap s ix s') /\
  (capcheck = true ->
   cap <= ix ->
   exists s' : sgraph,
     ensure_node_exists cap capcheck debug s ix = (Panic, s') /\
     SInv cap s' /\ avu_post cap s (cap - length (gnodes (sg s))) s').
Proof. exact (@ensure_node_exists_spec). Qed.

(* X1. What ensure_node_exists does to a non-live ix: the vector is extended to max(len, ix + 1) slots; ix becomes
Some 0 (the model's N::default()) with empty lists; all other slots keep their weight (the new ones are vacant);
edges and adjacency lists untouched; node_count + 1; the appended slots len .. ix are pushed on the free list one
by one, so that it reads ix, ix-1, .., len, <old free list>, and then ix is unlinked from it. *)
Theorem C02b_ens_post :
  forall (cap : nat) (s : sgraph) (ix : nat) (s' : sgraph),
  ens_post cap s ix s' <->
  nwo (sg s') ix = Some 0 /\
  (forall j : nat, j <> ix -> nwo (sg s') j = nwo (sg s) j) /\
  gedges (sg s') = gedges (sg s) /\
  length (gnodes (sg s')) = Nat.max (length (gnodes (sg s))) (S ix) /\
  (forall (k j : nat) (l : list nat),
   nwo (sg s) j <> None -> adj cap (sg s) k j l -> adj cap (sg s') k j l) /\
  (forall k : nat, adj cap (sg s') k ix []) /\
  ncount s' = S (ncount s) /\
  ecount s' = ecount s /\
  free_edge s' = free_edge s /\
  (forall l : list nat,
   lseg (fnx (sg s)) (free_node s) l cap ->
   exists l1 l2 : list nat,
     rev (seq (length (gnodes (sg s))) (S ix - length (gnodes (sg s)))) ++ l = l1 ++ ix :: l2 /\
     lseg (fnx (sg s')) (free_node s') (l1 ++ l2) cap /\ bkp (sg s') cap (l1 ++ l2)).
Proof. exact (@ens_post_meaning). Qed.

(* X1. [avu_post cap s n s']: s' is s with n vacant slots appended (indices len .. len + n - 1) and pushed on the
free list one by one, which then reads len + n - 1, .., len, <old free list>; weights, edges, adjacency lists and
counters untouched.  This is what the padding loop of ensure_node_exists leaves behind when it panics at the
limit (n = cap - len). *)
Theorem C02b_avu_post :
  forall (cap : nat) (s : sgraph) (n : nat) (s' : sgraph),
  avu_post cap s n s' <->
  (forall j : nat, nwo (sg s') j = nwo (sg s) j) /\
  gedges (sg s') = gedges (sg s) /\
  length (gnodes (sg s')) = length (gnodes (sg s)) + n /\
  (forall (k j : nat) (l : list nat),
   nwo (sg s) j <> None -> adj cap (sg s) k j l -> adj cap (sg s') k j l) /\
  ncount s' = ncount s /\
  ecount s' = ecount s /\
  free_edge s' = free_edge s /\
  (forall l : list nat,
   lseg (fnx (sg s)) (free_node s) l cap ->
   lseg (fnx (sg s')) (free_node s') (rev (seq (length (gnodes (sg s))) n) ++ l) cap).
Proof. exact (@avu_post_meaning). Qed.

(* X2. extend_with_edges always returns (the model's boolean is false when the Rust code panics part-way) and the
state it leaves satisfies the invariant in both cases; [ext_room] (needed for unchecked indices only) and
[ext_result] are spelled out below. *)
Theorem C02b_extend_with_edges :
  forall (cap : nat) (capcheck debug : bool) (es : list (nat * nat * nat)) (s : sgraph),
  SInv cap s ->
  ext_room cap capcheck s es ->
  exists (ok : bool) (s' : sgraph),
    s_extend_with_edges cap capcheck debug s es = (ok, s') /\ ext_result cap capcheck s es ok s'.
Proof. exact (@s_extend_with_edges_spec). Qed.

(* X2. The size hypothesis: none for checked indices. *)
Theorem C02b_ext_room :
  forall (cap : nat) (capcheck : bool) (s : sgraph) (es : list (nat * nat * nat)),
  ext_room cap capcheck s es <->
  (capcheck = false ->
   (forall a b w : nat, In (a, b, w) es -> a < cap /\ b < cap) /\
   length (gedges (sg s)) + length es <= cap).
Proof. exact (@ext_room_meaning). Qed.

(* X2. The result: invariant; old live nodes and edges untouched ([keeps]); slot counts bounded; a node that becomes
live is an endpoint named in the list and has weight 0; the list splits into the processed prefix [pre], each of
whose edges got its own fresh index (a slot that was not live before, [added]), and the rest [post]: empty when
the boolean is true; when false the indices are checked and the first unprocessed edge (a, b, w) names a node at or
beyond the index limit (a itself, or b after a has been made live) -- and then the node vector has been padded with
vacant slots up to exactly cap entries before the panic (they stay behind, on the free list: the invariant holds)
-- or both endpoints are below the limit and the edge index limit is reached (no vacancy, cap slots). *)
Theorem C02b_ext_result :
  forall (cap : nat) (capcheck : bool) (s : sgraph) (es : list (nat * nat * nat)) 
    (ok : bool) (s' : sgraph),
  ext_result cap capcheck s es ok s' <->
  SInv cap s' /\
  keeps s s' /\
  (length (gnodes (sg s')) <= Nat.max (length (gnodes (sg s))) (S (maxep es)) /\
   length (gedges (sg s')) <= length (gedges (sg s)) + length es) /\
  (forall j : nat, nwo (sg s) j = None -> nwo (sg s') j <> None -> nwo (sg s') j = Some 0 /\ endp es j) /\
  (exists (pre post : list (nat * nat * nat)) (xs : list nat),
     es = pre ++ post /\
     Forall2 (added s s') pre xs /\
     NoDup xs /\
     (forall x : nat, ewo (sg s') x <> None <-> ewo (sg s) x <> None \/ In x xs) /\
     (forall j : nat, endp pre j -> nwo (sg s') j <> None) /\
     ecount s' = ecount s + length pre /\
     (if ok
      then post = []
      else
       capcheck = true /\
       (exists (a b w : nat) (post' : list (nat * nat * nat)),
          post = (a, b, w) :: post' /\
          ((cap <= a \/ nwo (sg s') a <> None /\ cap <= b) /\ length (gnodes (sg s')) = cap \/
           a < cap /\ b < cap /\ free_edge s' = cap /\ length (gedges (sg s')) = cap)))).
Proof. exact (@ext_result_meaning). Qed.

(* [keeps s s']: every live node / edge of s is live in s' with the same weight and endpoints. *)
Theorem C02b_keeps :
  forall s s' : sgraph,
  keeps s s' <->
  (forall j w : nat, nwo (sg s) j = Some w -> nwo (sg s') j = Some w) /\
  (forall x w : nat, ewo (sg s) x = Some w -> ewo (sg s') x = Some w) /\
  (forall k x : nat, ewo (sg s) x <> None -> epo (gedges (sg s')) k x = epo (gedges (sg s)) k x) /\
  length (gnodes (sg s)) <= length (gnodes (sg s')) /\ length (gedges (sg s)) <= length (gedges (sg s')).
Proof. exact (@keeps_meaning). Qed.

(* [added s s' (a, b, w) x]: slot x, not live in s, holds the edge a -> b with weight w in s'. *)
Theorem C02b_added :
  forall (s s' : sgraph) (a b w x : nat),
  added s s' (a, b, w) x <->
  ewo (sg s) x = None /\
  ewo (sg s') x = Some w /\ epo (gedges (sg s')) 0 x = Some a /\ epo (gedges (sg s')) 1 x = Some b.
Proof. exact (@added_meaning). Qed.

(* [endp es j]: j is an endpoint of a listed edge. *)
Theorem C02b_endp :
  forall (es : list (nat * nat * nat)) (j : nat),
  endp es j <-> (exists a b w : nat, In (a, b, w) es /\ (j = a \/ j = b)).
Proof. exact (@endp_meaning). Qed.

(* [maxep es] bounds every listed endpoint. *)
Theorem C02b_maxep :
  forall (es : list (nat * nat * nat)) (a b w : nat), In (a, b, w) es -> a <= maxep es /\ b <= maxep es.
Proof. exact (@maxep_meaning). Qed.

(* F1. filter_map never panics (no size hypothesis is needed beyond the invariant), the result satisfies the
invariant and is INDEX-PRESERVING: node i is nmap of the old weight; edge e is emap of the old weight when both
endpoints are kept, else vacant; kept edges keep their endpoints; the vectors are cut at node_bound / edge_bound
(trailing vacancies dropped); the counters count the live slots; the vacancies are the old vacancies plus the
dropped elements; both free lists and every adjacency list are in strictly descending index order ([desc]). *)
Theorem C02b_filter_map :
  forall (cap : nat) (capcheck debug : bool) (nmap emap : nat -> option nat) (s : sgraph),
  SInv cap s ->
  exists s' : sgraph,
    s_filter_map cap capcheck debug nmap emap s = Ok s' /\
    SInv cap s' /\
    (forall i : nat, nwo (sg s') i = match nwo (sg s) i with
                                     | Some w => nmap w
                                     | None => None
                                     end) /\
    (forall e : nat,
     ewo (sg s') e =
     match ewo (sg s) e with
     | Some w =>
         match epo (gedges (sg s)) 0 e with
         | Some a =>
             match epo (gedges (sg s)) 1 e with
             | Some b => if isS (nwo (sg s') a) && isS (nwo (sg s') b) then emap w else None
             | None => None
             end
         | None => None
         end
     | None => None
     end) /\
    (forall k e : nat, ewo (sg s') e <> None -> epo (gedges (sg s')) k e = epo (gedges (sg s)) k e) /\
    length (gnodes (sg s')) = node_bound s /\
    length (gedges (sg s')) = edge_bound s /\
    ncount s' = nsome (map nwt (gnodes (sg s'))) /\
    ecount s' = nsome (map ewt (gedges (sg s'))) /\
    (forall i : nat,
     nwo (sg s') i = None <->
     nwo (sg s) i = None \/ (exists w : nat, nwo (sg s) i = Some w /\ nmap w = None)) /\
    (forall e : nat,
     ewo (sg s') e = None <->
     ewo (sg s) e = None \/
     (exists w a b : nat,
        ewo (sg s) e = Some w /\
        epo (gedges (sg s)) 0 e = Some a /\
        epo (gedges (sg s)) 1 e = Some b /\
        (nwo (sg s') a = None \/ nwo (sg s') b = None \/ emap w = None))) /\
    (forall l : list nat, lseg (fnx (sg s')) (free_node s') l cap -> desc l) /\
    (forall l : list nat, lseg (fex (sg s')) (free_edge s') l cap -> desc l) /\
    (forall (k j : nat) (l : list nat), nwo (sg s') j <> None -> adj cap (sg s') k j l -> desc l).
Proof. exact (@F_filter_map). Qed.

(* [desc l]: strictly descending. *)
Theorem C02b_desc :
  forall l : list nat,
  desc l <-> (forall i j x y : nat, i < j -> nth_error l i = Some x -> nth_error l j = Some y -> y < x).
Proof. exact (@desc_meaning). Qed.

(* F2. map: the weights are mapped, everything else is identical; the invariant is kept. *)
Theorem C02b_map :
  forall (cap : nat) (f : nat -> nat) (s : sgraph),
  SInv cap s ->
  SInv cap (s_map f s) /\
  (forall j : nat, nwo (sg (s_map f s)) j = option_map f (nwo (sg s) j)) /\
  (forall x : nat, ewo (sg (s_map f s)) x = option_map f (ewo (sg s) x)) /\ same_links cap s (s_map f s).
Proof. exact (@s_map_spec). Qed.

(* Step code 26: From<StableGraph> for Graph never fails on a state satisfying the invariant and gives a valid Graph. *)
Theorem C02b_to_graph :
  forall (cap : nat) (capcheck debug : bool) (s : sgraph),
  SInv cap s ->
  exists g : graph nat nat,
    to_graph cap capcheck debug s = Some g /\
    GInv cap g /\
    length (gnodes g) <= length (gnodes (sg s)) /\ length (gedges g) <= length (gedges (sg s)).
Proof. exact (@to_graph_total). Qed.

(* Step code 27: ... and converting back gives a valid StableGraph. *)
Theorem C02b_to_from_graph :
  forall (cap : nat) (capcheck debug : bool) (s : sgraph),
  SInv cap s ->
  exists g : graph nat nat,
    to_graph cap capcheck debug s = Some g /\
    SInv cap (from_graph cap g) /\
    length (gnodes (sg (from_graph cap g))) <= length (gnodes (sg s)) /\
    length (gedges (sg (from_graph cap g))) <= length (gedges (sg s)).
Proof. exact (@to_from_total). Qed.

(* H1. One step of ANY operation ([sop2]: every state-changing code of StableIO.step, plus the two find_edge
queries) from a state satisfying the invariant returns Ok (no panic, no fuel exhaustion) and keeps the invariant.
The hypothesis only concerns unchecked (usize) indices: the slot counts stay within the limit. *)
Theorem C02b_step :
  forall (cap : nat) (capcheck debug directed : bool) (s : sgraph) (o : sop2),
  SInv cap s ->
  (capcheck = false ->
   nbound o (length (gnodes (sg s))) <= cap /\ ebound o (length (gedges (sg s))) <= cap) ->
  exists (r : sout2) (s' : sgraph),
    step2 cap capcheck debug directed s o = Ok (r, s') /\
    SInv cap s' /\
    length (gnodes (sg s')) <= nbound o (length (gnodes (sg s))) /\
    length (gedges (sg s')) <= ebound o (length (gedges (sg s))).
Proof. exact (@step2_ok). Qed.

(* H1. Any list of operations from StableGraph::new(). *)
Theorem C02b_history :
  forall (cap : nat) (capcheck debug directed : bool) (ops : list sop2),
  (capcheck = false -> fits cap 0 0 ops) ->
  exists s' : sgraph, run2 cap capcheck debug directed (sg_empty cap) ops = Ok s' /\ SInv cap s'.
Proof. exact (@history2_ok). Qed.

(* H1. ... and from any state satisfying the invariant. *)
Theorem C02b_history_from :
  forall (cap : nat) (capcheck debug directed : bool) (ops : list sop2) (s : sgraph),
  SInv cap s ->
  (capcheck = false -> fits cap (length (gnodes (sg s))) (length (gedges (sg s))) ops) ->
  exists s' : sgraph, run2 cap capcheck debug directed s ops = Ok s' /\ SInv cap s'.
Proof. exact (@run2_ok). Qed.

(* H1. The slot-count bounds [nbound], [ebound], [fits] used for unchecked indices. *)
Theorem C02b_bounds :
  forall cap : nat,
  (forall (o : sop2) (n : nat),
   nbound o n =
   match o with
   | PAddNode _ => S n
   | PClear => 0
   | PExtend es => Nat.max n (S (maxep es))
   | _ => n
   end) /\
  (forall (o : sop2) (e : nat),
   ebound o e =
   match o with
   | PAddEdge _ _ _ | PUpdateEdge _ _ _ => S e
   | PClear | PClearEdges => 0
   | PExtend es => e + length es
   | _ => e
   end) /\
  (forall n e : nat, fits cap n e [] <-> True) /\
  (forall (n e : nat) (o : sop2) (ops : list sop2),
   fits cap n e (o :: ops) <->
   nbound o n <= cap /\ ebound o e <= cap /\ fits cap (nbound o n) (ebound o e) ops).
Proof. exact (@bounds_meaning). Qed.

(* H1. extend_with_edges stops early only with checked indices. *)
Theorem C02b_extend_false_only_checked :
  forall (cap : nat) (capcheck debug directed : bool) (s : sgraph) (es : list (nat * nat * nat))
    (s' : sgraph),
  SInv cap s ->
  (capcheck = false ->
   nbound (PExtend es) (length (gnodes (sg s))) <= cap /\
   ebound (PExtend es) (length (gedges (sg s))) <= cap) ->
  step2 cap capcheck debug directed s (PExtend es) = Ok (QBool false, s') -> capcheck = true.
Proof. exact (@extend_false_checked). Qed.

(* H1. The operation type is the decoder of Model/StableIO.v: the state after StableIO.step on a line is the state
after [step2] on the decoded operation (the remaining codes are queries that leave the state unchanged). *)
Theorem C02b_step_is_model_step :
  forall (cap : nat) (capcheck debug d : bool) (s : sgraph) (o : line),
  fst (step cap capcheck debug d s o) = next2 cap capcheck debug d s (decode2 o).
Proof. exact (@step_state). Qed.

(* H1. Hence every state the harness model goes through satisfies the invariant (checked indices). *)
Theorem C02b_harness_states :
  forall (cap : nat) (capcheck debug d : bool) (ops : list line) (s : sgraph),
  capcheck = true -> SInv cap s -> SInv cap (states cap capcheck debug d s ops).
Proof. exact (@states_inv). Qed.

(* Non-vacuity: [demo2] (five slots, node vacancies 3 -> 1, edge vacancy 1) and [demo3] (six slots, node
vacancies 5 -> 3 -> 1) are reachable states satisfying the invariant. *)
Example C02b_demo_inv :
  SInv 8 demo2 /\ SInv 8 demo3.
Proof. exact (@demo2_inv). Qed.

(* Their slots: (weight, (next, prev)) per node, (weight, next, endpoints) per edge, then
(node_count, edge_count, free_node, free_edge) and the debug check of the free lists. *)
Example C02b_demo_view :
  sview 8 demo2 =
  ([(Some 10, (0, 2)); (None, (8, 3)); (Some 12, (3, 3)); (None, (1, 8)); (Some 14, (2, 8))],
   [(Some 100, (8, 8), (0, 2)); (None, (8, 8), (8, 8)); (Some 102, (8, 8), (4, 0));
    (Some 103, (8, 0), (2, 2))], (3, 3, 3, 1), true) /\
  sview 8 demo3 =
  ([(Some 10, (0, 2)); (None, (8, 3)); (Some 12, (3, 3)); (None, (1, 5)); (Some 14, (2, 8));
    (None, (3, 8))],
   [(Some 100, (8, 8), (0, 2)); (None, (8, 8), (8, 8)); (Some 102, (8, 8), (4, 0));
    (Some 103, (8, 0), (2, 2))], (3, 3, 5, 1), true).
Proof. exact (@demo2_view). Qed.

(* occupy_vacant_node on the tail of the free list (demo2, slot 1: slot 3 becomes the only vacancy) and in the
middle (demo3, slot 3: 5 and 1 are re-linked to each other); out of range panics. *)
Example C02b_demo_occupy :
  rmap (sview 8) (occupy_vacant_node 8 true demo2 1 77) =
  Ok
    ([(Some 10, (0, 2)); (Some 77, (8, 8)); (Some 12, (3, 3)); (None, (8, 8)); (Some 14, (2, 8))],
     [(Some 100, (8, 8), (0, 2)); (None, (8, 8), (8, 8)); (Some 102, (8, 8), (4, 0));
      (Some 103, (8, 0), (2, 2))], (4, 3, 3, 1), true) /\
  rmap (sview 8) (occupy_vacant_node 8 true demo3 3 77) =
  Ok
    ([(Some 10, (0, 2)); (None, (8, 5)); (Some 12, (3, 3)); (Some 77, (8, 8)); (
      Some 14, (2, 8)); (None, (1, 8))],
     [(Some 100, (8, 8), (0, 2)); (None, (8, 8), (8, 8)); (Some 102, (8, 8), (4, 0));
      (Some 103, (8, 0), (2, 2))], (4, 3, 5, 1), true) /\ occupy_vacant_node 8 true demo2 5 77 = Panic.
Proof. exact (@demo_occupy). Qed.

(* filter_map dropping node 0 together with its edges 0 and 2; indices preserved, free lists descending. *)
Example C02b_demo_filter_map :
  rmap (sview 8)
    (s_filter_map 8 true true (fun w : nat => if w =? 10 then None else Some (w + 100))
       (fun w : nat => Some (w + 1000)) demo2) =
  Ok
    ([(None, (8, 1)); (None, (0, 3)); (Some 112, (3, 3)); (None, (1, 8)); (Some 114, (8, 8))],
     [(None, (8, 8), (8, 8)); (None, (0, 8), (8, 8)); (None, (1, 8), (8, 8));
      (Some 1103, (8, 8), (2, 2))], (2, 1, 3, 2), true).
Proof. exact (@demo_filter_map). Qed.

(* find_edge / find_edge_undirected on demo2. *)
Example C02b_demo_find_edge :
  (s_find_edge true demo2 0 2, s_find_edge true demo2 2 0, s_find_edge false demo2 2 0,
   s_find_edge_undirected demo2 0 4, s_find_edge_undirected demo2 2 2, s_find_edge true demo2 1 2,
   s_find_edge true demo2 9 2) =
  (Ok (Some 0), Ok None, Ok (Some 0), Ok (Some (2, 1)), Ok (Some (3, 0)), Ok None, Ok None).
Proof. exact (@demo_find_edge). Qed.

(* try_update_edge on an existing edge, on a missing edge (added in the vacant slot 1), towards a vacant node. *)
Example C02b_demo_update_edge :
  rmap (fun '(r, s) => (r, sview 8 s)) (s_try_update_edge 8 true true true demo2 0 2 555) =
  Ok
    (inr 0,
     ([(Some 10, (0, 2)); (None, (8, 3)); (Some 12, (3, 3)); (None, (1, 8)); (Some 14, (2, 8))],
      [(Some 555, (8, 8), (0, 2)); (None, (8, 8), (8, 8)); (Some 102, (8, 8), (4, 0));
       (Some 103, (8, 0), (2, 2))], (3, 3, 3, 1), true)) /\
  rmap (fun '(r, s) => (r, sview 8 s)) (s_try_update_edge 8 true true true demo2 2 0 556) =
  Ok
    (inr 1,
     ([(Some 10, (0, 1)); (None, (8, 3)); (Some 12, (1, 3)); (None, (1, 8)); (Some 14, (2, 8))],
      [(Some 100, (8, 8), (0, 2)); (Some 556, (3, 2), (2, 0)); (Some 102, (8, 8), (4, 0));
       (Some 103, (8, 0), (2, 2))], (3, 4, 3, 8), true)) /\
  s_try_update_edge 8 true true true demo2 1 0 557 = Ok (inl (NodeMissed 1), demo2).
Proof. exact (@demo_update_edge). Qed.

(* extend_with_edges naming the vacant slot 1 and the slot 6 beyond the vector; and stopping at a node index
beyond the limit (the first edge stays added; the padding for node 9 has filled the vector up to 8 slots before the
panic: the vacant slots 5, 6, 7 stay behind and the free list reads 7 -> 6 -> 5 -> 3). *)
Example C02b_demo_extend :
  (let '(ok, s) := s_extend_with_edges 8 true true demo2 [(1, 6, 500)] in (ok, sview 8 s)) =
  (true,
   ([(Some 10, (0, 2)); (Some 0, (1, 8)); (Some 12, (3, 3)); (None, (8, 5)); (
     Some 14, (2, 8)); (None, (3, 8)); (Some 0, (8, 1))],
    [(Some 100, (8, 8), (0, 2)); (Some 500, (8, 8), (1, 6)); (Some 102, (8, 8), (4, 0));
     (Some 103, (8, 0), (2, 2))], (5, 4, 5, 8), true)) /\
  (let
   '(ok, s) := s_extend_with_edges 8 true true demo2 [(1, 2, 500); (0, 9, 501); (4, 4, 502)] in
    (ok, sview 8 s)) =
  (false,
   ([(Some 10, (0, 2)); (Some 0, (1, 8)); (Some 12, (3, 1)); (None, (8, 5)); (Some 14, (2, 8));
     (None, (3, 6)); (None, (5, 7)); (None, (6, 8))],
    [(Some 100, (8, 8), (0, 2)); (Some 500, (8, 3), (1, 2)); (Some 102, (8, 8), (4, 0));
     (Some 103, (8, 0), (2, 2))], (4, 4, 7, 8), true)).
Proof. exact (@demo_extend). Qed.

(* The index limit of a u8 graph (cap = 255, checked indices; [two255] = add_node 1; add_node 2).  [limit_obs s] =
(number of node slots, node_count, edge_count, node_bound = last live index + 1, free_node, check_free_lists, the
index a following add_node returns).  extend_with_edges [(255, 0, 7)] panics after ensure_node_exists(255) has
pushed the vacant slots 2 .. 254: 255 slots, node_count 2, and the next add_node returns 254 (not 2).  With
[(4, 255, 7)] node 4 is created first (slots 2, 3, 4 pushed, 4 occupied: node_count 3, node_bound 5, free list
3 -> 2), then the padding for 255 pushes 5 .. 254 and panics; the next add_node returns 254. *)
Example C02b_demo_extend_limit :
  limit_obs two255 = (2, 2, 0, 2, 255, true, Ok (inr 2)) /\
  (let '(ok, s) := s_extend_with_edges 255 true true two255 [(255, 0, 7)] in (ok, limit_obs s)) =
  (false, (255, 2, 0, 2, 254, true, Ok (inr 254))) /\
  (let '(ok, s) := s_extend_with_edges 255 true true two255 [(4, 255, 7)] in
    (ok, limit_obs s, firstn 6 (map (fun n => (nwt n, nnext n)) (gnodes (sg s))))) =
  (false, (255, 3, 0, 5, 254, true, Ok (inr 254)),
   [(Some 1, (255, 255)); (Some 2, (255, 255)); (None, (255, 3)); (None, (2, 5));
    (Some 0, (255, 255)); (None, (3, 6))]).
Proof. exact (@demo_extend_limit). Qed.

(* The same two sequences through the stream interpreter of Model/StableIO.v (header: directed, debug, cap 255,
checked): result line and counts line (node_count, edge_count, node_bound, edge_bound) of every step. *)
Example C02b_demo_extend_limit_stream :
  map (firstn 2)
    (run_case [1; 1; 255; 1]%Z [(0, [1%Z]); (0, [2%Z]); (13, [255; 0; 7]%Z); (0, [9%Z])]) =
  [[(TAG_IDX, [0%Z]); (TAG_COUNTS, [1; 0; 1; 0]%Z)];
   [(TAG_IDX, [1%Z]); (TAG_COUNTS, [2; 0; 2; 0]%Z)];
   [(TAG_PANIC, []); (TAG_COUNTS, [2; 0; 2; 0]%Z)];
   [(TAG_IDX, [254%Z]); (TAG_COUNTS, [3; 0; 255; 0]%Z)]] /\
  map (firstn 2)
    (run_case [1; 1; 255; 1]%Z [(0, [1%Z]); (0, [2%Z]); (13, [4; 255; 7]%Z); (0, [9%Z])]) =
  [[(TAG_IDX, [0%Z]); (TAG_COUNTS, [1; 0; 1; 0]%Z)];
   [(TAG_IDX, [1%Z]); (TAG_COUNTS, [2; 0; 2; 0]%Z)];
   [(TAG_PANIC, []); (TAG_COUNTS, [3; 0; 5; 0]%Z)];
   [(TAG_IDX, [254%Z]); (TAG_COUNTS, [4; 0; 255; 0]%Z)]].
Proof. exact (@demo_extend_limit_stream). Qed.

(* A history using every operation, and the values returned after the first twelve steps. *)
Example C02b_demo_all :
  (exists s : sgraph, run2 8 true true true (sg_empty 8) demo_all_ops = Ok s /\ SInv 8 s) /\
  souts2 8 true true true demo2 (skipn 12 demo_all_ops) =
  map Some
    [QIdx (inr 0); QIdx (inr 1); QEdge (Some 1); QEdgeDir (Some (2, 1)); QBool true; 
     QBool true; QBool false; QBool true; QUnit; QUnit; QUnit; QUnit; QUnit; 
     QBool false; QUnit; QUnit; QUnit].
Proof. exact (@demo_all). Qed.

(* The same history with unchecked indices (capcheck = false, limit 50): the size hypothesis of C02b_history holds. *)
Example C02b_demo_unchecked :
  fits 50 0 0 demo_all_ops /\
  (exists s : sgraph, run2 50 false true true (sg_empty 50) demo_all_ops = Ok s /\ SInv 50 s).
Proof. exact (@demo_unchecked). Qed.

Check C02b_find_edge :
  forall (cap : nat) (directed : bool) (s : sgraph) (a b : nat) (lo li : list nat),
  SInv cap s ->
  nwo (sg s) a <> None ->
  adj cap (sg s) 0 a lo ->
  adj cap (sg s) 1 a li ->
  s_find_edge directed s a b =
  Ok
    match find (other_is (sg s) 0 b) lo with
    | Some e => Some e
    | None => if directed then None else find (other_is (sg s) 1 b) li
    end.
Check C02b_find_edge_undirected :
  forall (cap : nat) (s : sgraph) (a b : nat) (lo li : list nat),
  SInv cap s ->
  nwo (sg s) a <> None ->
  adj cap (sg s) 0 a lo ->
  adj cap (sg s) 1 a li ->
  s_find_edge_undirected s a b =
  Ok
    match find (other_is (sg s) 0 b) lo with
    | Some e => Some (e, 0)
    | None => option_map (fun e : nat => (e, 1)) (find (other_is (sg s) 1 b) li)
    end.
Check C02b_other_is :
  forall (g : IG) (k b x : nat), other_is g k b x = true <-> epo (gedges g) (1 - k) x = Some b.
Check C02b_joins :
  forall (g : IG) (x a b : nat),
  joins g x a b <-> ewo g x <> None /\ epo (gedges g) 0 x = Some a /\ epo (gedges g) 1 x = Some b.
Check C02b_find_edge_sound_complete :
  forall (cap : nat) (directed : bool) (s : sgraph) (a b : nat),
  SInv cap s ->
  exists o : option nat,
    s_find_edge directed s a b = Ok o /\
    match o with
    | Some e =>
        joins (sg s) e a b \/
        directed = false /\ joins (sg s) e b a /\ (forall x : nat, ~ joins (sg s) x a b)
    | None => forall x : nat, ~ joins (sg s) x a b /\ (directed = false -> ~ joins (sg s) x b a)
    end.
Check C02b_find_edge_undirected_sound_complete :
  forall (cap : nat) (s : sgraph) (a b : nat),
  SInv cap s ->
  exists o : option (nat * nat),
    s_find_edge_undirected s a b = Ok o /\
    match o with
    | Some (e, k) =>
        k = 0 /\ joins (sg s) e a b \/
        k = 1 /\ joins (sg s) e b a /\ (forall x : nat, ~ joins (sg s) x a b)
    | None => forall x : nat, ~ joins (sg s) x a b /\ ~ joins (sg s) x b a
    end.
Check C02b_find_edge_vacant :
  forall (directed : bool) (s : sgraph) (a b : nat),
  nwo (sg s) a = None -> s_find_edge directed s a b = Ok None /\ s_find_edge_undirected s a b = Ok None.
Check C02b_update_edge :
  forall (cap : nat) (capcheck debug directed : bool) (s : sgraph) (a b w : nat),
  SInv cap s ->
  exists o : option nat,
    s_find_edge directed s a b = Ok o /\
    match o with
    | Some ix =>
        ewo (sg s) ix <> None /\
        (exists s' : sgraph,
           s_try_update_edge cap capcheck debug directed s a b w = Ok (inr ix, s') /\
           SInv cap s' /\
           (forall x : nat, ewo (sg s') x = (if x =? ix then Some w else ewo (sg s) x)) /\
           (forall j : nat, nwo (sg s') j = nwo (sg s) j) /\
           gnodes (sg s') = gnodes (sg s) /\ same_links cap s s')
    | None =>
        s_try_update_edge cap capcheck debug directed s a b w =
        s_try_add_edge cap capcheck debug s a b w
    end.
Check C02b_same_links :
  forall (cap : nat) (s s' : sgraph),
  same_links cap s s' <->
  length (gnodes (sg s')) = length (gnodes (sg s)) /\
  length (gedges (sg s')) = length (gedges (sg s)) /\
  (forall j : nat, nwo (sg s') j = None <-> nwo (sg s) j = None) /\
  (forall x : nat, ewo (sg s') x = None <-> ewo (sg s) x = None) /\
  (forall k x : nat, epo (gedges (sg s')) k x = epo (gedges (sg s)) k x) /\
  (forall (k i : nat) (l : list nat), adj cap (sg s) k i l <-> adj cap (sg s') k i l) /\
  (forall i : nat, fnx (sg s') i = fnx (sg s) i) /\
  (forall x : nat, fex (sg s') x = fex (sg s) x) /\
  (forall i : nat, hdn (gnodes (sg s')) 1 i = hdn (gnodes (sg s)) 1 i) /\
  ncount s' = ncount s /\
  ecount s' = ecount s /\ free_node s' = free_node s /\ free_edge s' = free_edge s.
Check C02b_set_weights :
  forall (cap : nat) (s : sgraph),
  SInv cap s ->
  (forall a w : nat,
   nwo (sg s) a <> None ->
   exists s' : sgraph,
     rmap (with_g s) (upd_node (sg s) a (fun n : inode => {| nwt := Some w; nnext := nnext n |})) =
     Ok s' /\
     SInv cap s' /\
     (forall j : nat, nwo (sg s') j = (if j =? a then Some w else nwo (sg s) j)) /\
     (forall x : nat, ewo (sg s') x = ewo (sg s) x) /\
     gedges (sg s') = gedges (sg s) /\ same_links cap s s') /\
  (forall e w : nat,
   ewo (sg s) e <> None ->
   exists s' : sgraph,
     rmap (with_g s)
       (upd_edge (sg s) e (fun e0 : iedge => {| ewt := Some w; enext := enext e0; enode := enode e0 |})) =
     Ok s' /\
     SInv cap s' /\
     (forall x : nat, ewo (sg s') x = (if x =? e then Some w else ewo (sg s) x)) /\
     (forall j : nat, nwo (sg s') j = nwo (sg s) j) /\
     gnodes (sg s') = gnodes (sg s) /\ same_links cap s s').
Check C02b_occupy_vacant_node :
  forall (cap : nat) (debug : bool) (s : sgraph) (idx w : nat),
  SInv cap s ->
  idx < length (gnodes (sg s)) ->
  nwo (sg s) idx = None ->
  exists s' : sgraph,
    occupy_vacant_node cap debug s idx w = Ok s' /\ SInv cap s' /\ occ_post cap s idx w s'.
Check C02b_occ_post :
  forall (cap : nat) (s : sgraph) (idx w : nat) (s' : sgraph),
  occ_post cap s idx w s' <->
  nwo (sg s') idx = Some w /\
  (forall j : nat, j <> idx -> nwo (sg s') j = nwo (sg s) j) /\
  gedges (sg s') = gedges (sg s) /\
  length (gnodes (sg s')) = length (gnodes (sg s)) /\
  (forall (k j : nat) (l : list nat),
   nwo (sg s) j <> None -> adj cap (sg s) k j l -> adj cap (sg s') k j l) /\
  (forall k : nat, adj cap (sg s') k idx []) /\
  ncount s' = S (ncount s) /\
  ecount s' = ecount s /\
  free_edge s' = free_edge s /\
  (exists l1 l2 : list nat,
     lseg (fnx (sg s)) (free_node s) (l1 ++ idx :: l2) cap /\
     lseg (fnx (sg s')) (free_node s') (l1 ++ l2) cap /\ bkp (sg s') cap (l1 ++ l2)).
Check C02b_occupy_out_of_range :
  forall (cap : nat) (debug : bool) (s : sgraph) (idx w : nat),
  length (gnodes (sg s)) <= idx -> occupy_vacant_node cap debug s idx w = Panic.
Check C02b_ensure_node_exists :
  forall (cap : nat) (capcheck debug : bool) (s : sgraph) (ix : nat),
  SInv cap s ->
  (nwo (sg s) ix <> None -> ensure_node_exists cap capcheck debug s ix = (Ok tt, s)) /\
  (nwo (sg s) ix = None ->
   ix < cap ->
   exists s' : sgraph,
     ensure_node_exists cap capcheck debug s ix = (Ok tt, s') /\ SInv cap s' /\ ens_post cap s ix s') /\
  (capcheck = true ->
   cap <= ix ->
   exists s' : sgraph,
     ensure_node_exists cap capcheck debug s ix = (Panic, s') /\
     SInv cap s' /\ avu_post cap s (cap - length (gnodes (sg s))) s').
Check C02b_ens_post :
  forall (cap : nat) (s : sgraph) (ix : nat) (s' : sgraph),
  ens_post cap s ix s' <->
  nwo (sg s') ix = Some 0 /\
  (forall j : nat, j <> ix -> nwo (sg s') j = nwo (sg s) j) /\
  gedges (sg s') = gedges (sg s) /\
  length (gnodes (sg s')) = Nat.max (length (gnodes (sg s))) (S ix) /\
  (forall (k j : nat) (l : list nat),
   nwo (sg s) j <> None -> adj cap (sg s) k j l -> adj cap (sg s') k j l) /\
  (forall k : nat, adj cap (sg s') k ix []) /\
  ncount s' = S (ncount s) /\
  ecount s' = ecount s /\
  free_edge s' = free_edge s /\
  (forall l : list nat,
   lseg (fnx (sg s)) (free_node s) l cap ->
   exists l1 l2 : list nat,
     rev (seq (length (gnodes (sg s))) (S ix - length (gnodes (sg s)))) ++ l = l1 ++ ix :: l2 /\
     lseg (fnx (sg s')) (free_node s') (l1 ++ l2) cap /\ bkp (sg s') cap (l1 ++ l2)).
Check C02b_avu_post :
  forall (cap : nat) (s : sgraph) (n : nat) (s' : sgraph),
  avu_post cap s n s' <->
  (forall j : nat, nwo (sg s') j = nwo (sg s) j) /\
  gedges (sg s') = gedges (sg s) /\
  length (gnodes (sg s')) = length (gnodes (sg s)) + n /\
  (forall (k j : nat) (l : list nat),
   nwo (sg s) j <> None -> adj cap (sg s) k j l -> adj cap (sg s') k j l) /\
  ncount s' = ncount s /\
  ecount s' = ecount s /\
  free_edge s' = free_edge s /\
  (forall l : list nat,
   lseg (fnx (sg s)) (free_node s) l cap ->
   lseg (fnx (sg s')) (free_node s') (rev (seq (length (gnodes (sg s))) n) ++ l) cap).
Check C02b_extend_with_edges :
  forall (cap : nat) (capcheck debug : bool) (es : list (nat * nat * nat)) (s : sgraph),
  SInv cap s ->
  ext_room cap capcheck s es ->
  exists (ok : bool) (s' : sgraph),
    s_extend_with_edges cap capcheck debug s es = (ok, s') /\ ext_result cap capcheck s es ok s'.
Check C02b_ext_room :
  forall (cap : nat) (capcheck : bool) (s : sgraph) (es : list (nat * nat * nat)),
  ext_room cap capcheck s es <->
  (capcheck = false ->
   (forall a b w : nat, In (a, b, w) es -> a < cap /\ b < cap) /\
   length (gedges (sg s)) + length es <= cap).
Check C02b_ext_result :
  forall (cap : nat) (capcheck : bool) (s : sgraph) (es : list (nat * nat * nat)) 
    (ok : bool) (s' : sgraph),
  ext_result cap capcheck s es ok s' <->
  SInv cap s' /\
  keeps s s' /\
  (length (gnodes (sg s')) <= Nat.max (length (gnodes (sg s))) (S (maxep es)) /\
   length (gedges (sg s')) <= length (gedges (sg s)) + length es) /\
  (forall j : nat, nwo (sg s) j = None -> nwo (sg s') j <> None -> nwo (sg s') j = Some 0 /\ endp es j) /\
  (exists (pre post : list (nat * nat * nat)) (xs : list nat),
     es = pre ++ post /\
     Forall2 (added s s') pre xs /\
     NoDup xs /\
     (forall x : nat, ewo (sg s') x <> None <-> ewo (sg s) x <> None \/ In x xs) /\
     (forall j : nat, endp pre j -> nwo (sg s') j <> None) /\
     ecount s' = ecount s + length pre /\
     (if ok
      then post = []
      else
       capcheck = true /\
       (exists (a b w : nat) (post' : list (nat * nat * nat)),
          post = (a, b, w) :: post' /\
          ((cap <= a \/ nwo (sg s') a <> None /\ cap <= b) /\ length (gnodes (sg s')) = cap \/
           a < cap /\ b < cap /\ free_edge s' = cap /\ length (gedges (sg s')) = cap)))).
Check C02b_keeps :
  forall s s' : sgraph,
  keeps s s' <->
  (forall j w : nat, nwo (sg s) j = Some w -> nwo (sg s') j = Some w) /\
  (forall x w : nat, ewo (sg s) x = Some w -> ewo (sg s') x = Some w) /\
  (forall k x : nat, ewo (sg s) x <> None -> epo (gedges (sg s')) k x = epo (gedges (sg s)) k x) /\
  length (gnodes (sg s)) <= length (gnodes (sg s')) /\ length (gedges (sg s)) <= length (gedges (sg s')).
Check C02b_added :
  forall (s s' : sgraph) (a b w x : nat),
  added s s' (a, b, w) x <->
  ewo (sg s) x = None /\
  ewo (sg s') x = Some w /\ epo (gedges (sg s')) 0 x = Some a /\ epo (gedges (sg s')) 1 x = Some b.
Check C02b_endp :
  forall (es : list (nat * nat * nat)) (j : nat),
  endp es j <-> (exists a b w : nat, In (a, b, w) es /\ (j = a \/ j = b)).
Check C02b_maxep :
  forall (es : list (nat * nat * nat)) (a b w : nat), In (a, b, w) es -> a <= maxep es /\ b <= maxep es.
Check C02b_filter_map :
  forall (cap : nat) (capcheck debug : bool) (nmap emap : nat -> option nat) (s : sgraph),
  SInv cap s ->
  exists s' : sgraph,
    s_filter_map cap capcheck debug nmap emap s = Ok s' /\
    SInv cap s' /\
    (forall i : nat, nwo (sg s') i = match nwo (sg s) i with
                                     | Some w => nmap w
                                     | None => None
                                     end) /\
    (forall e : nat,
     ewo (sg s') e =
     match ewo (sg s) e with
     | Some w =>
         match epo (gedges (sg s)) 0 e with
         | Some a =>
             match epo (gedges (sg s)) 1 e with
             | Some b => if isS (nwo (sg s') a) && isS (nwo (sg s') b) then emap w else None
             | None => None
             end
         | None => None
         end
     | None => None
     end) /\
    (forall k e : nat, ewo (sg s') e <> None -> epo (gedges (sg s')) k e = epo (gedges (sg s)) k e) /\
    length (gnodes (sg s')) = node_bound s /\
    length (gedges (sg s')) = edge_bound s /\
    ncount s' = nsome (map nwt (gnodes (sg s'))) /\
    ecount s' = nsome (map ewt (gedges (sg s'))) /\
    (forall i : nat,
     nwo (sg s') i = None <->
     nwo (sg s) i = None \/ (exists w : nat, nwo (sg s) i = Some w /\ nmap w = None)) /\
    (forall e : nat,
     ewo (sg s') e = None <->
     ewo (sg s) e = None \/
     (exists w a b : nat,
        ewo (sg s) e = Some w /\
        epo (gedges (sg s)) 0 e = Some a /\
        epo (gedges (sg s)) 1 e = Some b /\
        (nwo (sg s') a = None \/ nwo (sg s') b = None \/ emap w = None))) /\
    (forall l : list nat, lseg (fnx (sg s')) (free_node s') l cap -> desc l) /\
    (forall l : list nat, lseg (fex (sg s')) (free_edge s') l cap -> desc l) /\
    (forall (k j : nat) (l : list nat), nwo (sg s') j <> None -> adj cap (sg s') k j l -> desc l).
Check C02b_desc :
  forall l : list nat,
  desc l <-> (forall i j x y : nat, i < j -> nth_error l i = Some x -> nth_error l j = Some y -> y < x).
Check C02b_map :
  forall (cap : nat) (f : nat -> nat) (s : sgraph),
  SInv cap s ->
  SInv cap (s_map f s) /\
  (forall j : nat, nwo (sg (s_map f s)) j = option_map f (nwo (sg s) j)) /\
  (forall x : nat, ewo (sg (s_map f s)) x = option_map f (ewo (sg s) x)) /\ same_links cap s (s_map f s).
Check C02b_to_graph :
  forall (cap : nat) (capcheck debug : bool) (s : sgraph),
  SInv cap s ->
  exists g : graph nat nat,
    to_graph cap capcheck debug s = Some g /\
    GInv cap g /\
    length (gnodes g) <= length (gnodes (sg s)) /\ length (gedges g) <= length (gedges (sg s)).
Check C02b_to_from_graph :
  forall (cap : nat) (capcheck debug : bool) (s : sgraph),
  SInv cap s ->
  exists g : graph nat nat,
    to_graph cap capcheck debug s = Some g /\
    SInv cap (from_graph cap g) /\
    length (gnodes (sg (from_graph cap g))) <= length (gnodes (sg s)) /\
    length (gedges (sg (from_graph cap g))) <= length (gedges (sg s)).
Check C02b_step :
  forall (cap : nat) (capcheck debug directed : bool) (s : sgraph) (o : sop2),
  SInv cap s ->
  (capcheck = false ->
   nbound o (length (gnodes (sg s))) <= cap /\ ebound o (length (gedges (sg s))) <= cap) ->
  exists (r : sout2) (s' : sgraph),
    step2 cap capcheck debug directed s o = Ok (r, s') /\
    SInv cap s' /\
    length (gnodes (sg s')) <= nbound o (length (gnodes (sg s))) /\
    length (gedges (sg s')) <= ebound o (length (gedges (sg s))).
Check C02b_history :
  forall (cap : nat) (capcheck debug directed : bool) (ops : list sop2),
  (capcheck = false -> fits cap 0 0 ops) ->
  exists s' : sgraph, run2 cap capcheck debug directed (sg_empty cap) ops = Ok s' /\ SInv cap s'.
Check C02b_history_from :
  forall (cap : nat) (capcheck debug directed : bool) (ops : list sop2) (s : sgraph),
  SInv cap s ->
  (capcheck = false -> fits cap (length (gnodes (sg s))) (length (gedges (sg s))) ops) ->
  exists s' : sgraph, run2 cap capcheck debug directed s ops = Ok s' /\ SInv cap s'.
Check C02b_bounds :
  forall cap : nat,
  (forall (o : sop2) (n : nat),
   nbound o n =
   match o with
   | PAddNode _ => S n
   | PClear => 0
   | PExtend es => Nat.max n (S (maxep es))
   | _ => n
   end) /\
  (forall (o : sop2) (e : nat),
   ebound o e =
   match o with
   | PAddEdge _ _ _ | PUpdateEdge _ _ _ => S e
   | PClear | PClearEdges => 0
   | PExtend es => e + length es
   | _ => e
   end) /\
  (forall n e : nat, fits cap n e [] <-> True) /\
  (forall (n e : nat) (o : sop2) (ops : list sop2),
   fits cap n e (o :: ops) <->
   nbound o n <= cap /\ ebound o e <= cap /\ fits cap (nbound o n) (ebound o e) ops).
Check C02b_extend_false_only_checked :
  forall (cap : nat) (capcheck debug directed : bool) (s : sgraph) (es : list (nat * nat * nat))
    (s' : sgraph),
  SInv cap s ->
  (capcheck = false ->
   nbound (PExtend es) (length (gnodes (sg s))) <= cap /\
   ebound (PExtend es) (length (gedges (sg s))) <= cap) ->
  step2 cap capcheck debug directed s (PExtend es) = Ok (QBool false, s') -> capcheck = true.
Check C02b_step_is_model_step :
  forall (cap : nat) (capcheck debug d : bool) (s : sgraph) (o : line),
  fst (step cap capcheck debug d s o) = next2 cap capcheck debug d s (decode2 o).
Check C02b_harness_states :
  forall (cap : nat) (capcheck debug d : bool) (ops : list line) (s : sgraph),
  capcheck = true -> SInv cap s -> SInv cap (states cap capcheck debug d s ops).
Check C02b_demo_inv :
  SInv 8 demo2 /\ SInv 8 demo3.
Check C02b_demo_view :
  sview 8 demo2 =
  ([(Some 10, (0, 2)); (None, (8, 3)); (Some 12, (3, 3)); (None, (1, 8)); (Some 14, (2, 8))],
   [(Some 100, (8, 8), (0, 2)); (None, (8, 8), (8, 8)); (Some 102, (8, 8), (4, 0));
    (Some 103, (8, 0), (2, 2))], (3, 3, 3, 1), true) /\
  sview 8 demo3 =
  ([(Some 10, (0, 2)); (None, (8, 3)); (Some 12, (3, 3)); (None, (1, 5)); (Some 14, (2, 8));
    (None, (3, 8))],
   [(Some 100, (8, 8), (0, 2)); (None, (8, 8), (8, 8)); (Some 102, (8, 8), (4, 0));
    (Some 103, (8, 0), (2, 2))], (3, 3, 5, 1), true).
Check C02b_demo_occupy :
  rmap (sview 8) (occupy_vacant_node 8 true demo2 1 77) =
  Ok
    ([(Some 10, (0, 2)); (Some 77, (8, 8)); (Some 12, (3, 3)); (None, (8, 8)); (Some 14, (2, 8))],
     [(Some 100, (8, 8), (0, 2)); (None, (8, 8), (8, 8)); (Some 102, (8, 8), (4, 0));
      (Some 103, (8, 0), (2, 2))], (4, 3, 3, 1), true) /\
  rmap (sview 8) (occupy_vacant_node 8 true demo3 3 77) =
  Ok
    ([(Some 10, (0, 2)); (None, (8, 5)); (Some 12, (3, 3)); (Some 77, (8, 8)); (
      Some 14, (2, 8)); (None, (1, 8))],
     [(Some 100, (8, 8), (0, 2)); (None, (8, 8), (8, 8)); (Some 102, (8, 8), (4, 0));
      (Some 103, (8, 0), (2, 2))], (4, 3, 5, 1), true) /\ occupy_vacant_node 8 true demo2 5 77 = Panic.
Check C02b_demo_filter_map :
  rmap (sview 8)
    (s_filter_map 8 true true (fun w : nat => if w =? 10 then None else Some (w + 100))
       (fun w : nat => Some (w + 1000)) demo2) =
  Ok
    ([(None, (8, 1)); (None, (0, 3)); (Some 112, (3, 3)); (None, (1, 8)); (Some 114, (8, 8))],
     [(None, (8, 8), (8, 8)); (None, (0, 8), (8, 8)); (None, (1, 8), (8, 8));
      (Some 1103, (8, 8), (2, 2))], (2, 1, 3, 2), true).
Check C02b_demo_find_edge :
  (s_find_edge true demo2 0 2, s_find_edge true demo2 2 0, s_find_edge false demo2 2 0,
   s_find_edge_undirected demo2 0 4, s_find_edge_undirected demo2 2 2, s_find_edge true demo2 1 2,
   s_find_edge true demo2 9 2) =
  (Ok (Some 0), Ok None, Ok (Some 0), Ok (Some (2, 1)), Ok (Some (3, 0)), Ok None, Ok None).
Check C02b_demo_update_edge :
  rmap (fun '(r, s) => (r, sview 8 s)) (s_try_update_edge 8 true true true demo2 0 2 555) =
  Ok
    (inr 0,
     ([(Some 10, (0, 2)); (None, (8, 3)); (Some 12, (3, 3)); (None, (1, 8)); (Some 14, (2, 8))],
      [(Some 555, (8, 8), (0, 2)); (None, (8, 8), (8, 8)); (Some 102, (8, 8), (4, 0));
       (Some 103, (8, 0), (2, 2))], (3, 3, 3, 1), true)) /\
  rmap (fun '(r, s) => (r, sview 8 s)) (s_try_update_edge 8 true true true demo2 2 0 556) =
  Ok
    (inr 1,
     ([(Some 10, (0, 1)); (None, (8, 3)); (Some 12, (1, 3)); (None, (1, 8)); (Some 14, (2, 8))],
      [(Some 100, (8, 8), (0, 2)); (Some 556, (3, 2), (2, 0)); (Some 102, (8, 8), (4, 0));
       (Some 103, (8, 0), (2, 2))], (3, 4, 3, 8), true)) /\
  s_try_update_edge 8 true true true demo2 1 0 557 = Ok (inl (NodeMissed 1), demo2).
Check C02b_demo_extend :
  (let '(ok, s) := s_extend_with_edges 8 true true demo2 [(1, 6, 500)] in (ok, sview 8 s)) =
  (true,
   ([(Some 10, (0, 2)); (Some 0, (1, 8)); (Some 12, (3, 3)); (None, (8, 5)); (
     Some 14, (2, 8)); (None, (3, 8)); (Some 0, (8, 1))],
    [(Some 100, (8, 8), (0, 2)); (Some 500, (8, 8), (1, 6)); (Some 102, (8, 8), (4, 0));
     (Some 103, (8, 0), (2, 2))], (5, 4, 5, 8), true)) /\
  (let
   '(ok, s) := s_extend_with_edges 8 true true demo2 [(1, 2, 500); (0, 9, 501); (4, 4, 502)] in
    (ok, sview 8 s)) =
  (false,
   ([(Some 10, (0, 2)); (Some 0, (1, 8)); (Some 12, (3, 1)); (None, (8, 5)); (Some 14, (2, 8));
     (None, (3, 6)); (None, (5, 7)); (None, (6, 8))],
    [(Some 100, (8, 8), (0, 2)); (Some 500, (8, 3), (1, 2)); (Some 102, (8, 8), (4, 0));
     (Some 103, (8, 0), (2, 2))], (4, 4, 7, 8), true)).
Check C02b_demo_extend_limit :
  limit_obs two255 = (2, 2, 0, 2, 255, true, Ok (inr 2)) /\
  (let '(ok, s) := s_extend_with_edges 255 true true two255 [(255, 0, 7)] in (ok, limit_obs s)) =
  (false, (255, 2, 0, 2, 254, true, Ok (inr 254))) /\
  (let '(ok, s) := s_extend_with_edges 255 true true two255 [(4, 255, 7)] in
    (ok, limit_obs s, firstn 6 (map (fun n => (nwt n, nnext n)) (gnodes (sg s))))) =
  (false, (255, 3, 0, 5, 254, true, Ok (inr 254)),
   [(Some 1, (255, 255)); (Some 2, (255, 255)); (None, (255, 3)); (None, (2, 5));
    (Some 0, (255, 255)); (None, (3, 6))]).
Check C02b_demo_extend_limit_stream :
  map (firstn 2)
    (run_case [1; 1; 255; 1]%Z [(0, [1%Z]); (0, [2%Z]); (13, [255; 0; 7]%Z); (0, [9%Z])]) =
  [[(TAG_IDX, [0%Z]); (TAG_COUNTS, [1; 0; 1; 0]%Z)];
   [(TAG_IDX, [1%Z]); (TAG_COUNTS, [2; 0; 2; 0]%Z)];
   [(TAG_PANIC, []); (TAG_COUNTS, [2; 0; 2; 0]%Z)];
   [(TAG_IDX, [254%Z]); (TAG_COUNTS, [3; 0; 255; 0]%Z)]] /\
  map (firstn 2)
    (run_case [1; 1; 255; 1]%Z [(0, [1%Z]); (0, [2%Z]); (13, [4; 255; 7]%Z); (0, [9%Z])]) =
  [[(TAG_IDX, [0%Z]); (TAG_COUNTS, [1; 0; 1; 0]%Z)];
   [(TAG_IDX, [1%Z]); (TAG_COUNTS, [2; 0; 2; 0]%Z)];
   [(TAG_PANIC, []); (TAG_COUNTS, [3; 0; 5; 0]%Z)];
   [(TAG_IDX, [254%Z]); (TAG_COUNTS, [4; 0; 255; 0]%Z)]].
Check C02b_demo_all :
  (exists s : sgraph, run2 8 true true true (sg_empty 8) demo_all_ops = Ok s /\ SInv 8 s) /\
  souts2 8 true true true demo2 (skipn 12 demo_all_ops) =
  map Some
    [QIdx (inr 0); QIdx (inr 1); QEdge (Some 1); QEdgeDir (Some (2, 1)); QBool true; 
     QBool true; QBool false; QBool true; QUnit; QUnit; QUnit; QUnit; QUnit; 
     QBool false; QUnit; QUnit; QUnit].

Check C02b_demo_unchecked :
  fits 50 0 0 demo_all_ops /\
  (exists s : sgraph, run2 50 false true true (sg_empty 50) demo_all_ops = Ok s /\ SInv 50 s).

Print Assumptions C02b_find_edge.
Print Assumptions C02b_find_edge_undirected.
Print Assumptions C02b_other_is.
Print Assumptions C02b_joins.
Print Assumptions C02b_find_edge_sound_complete.
Print Assumptions C02b_find_edge_undirected_sound_complete.
Print Assumptions C02b_find_edge_vacant.
Print Assumptions C02b_update_edge.
Print Assumptions C02b_same_links.
Print Assumptions C02b_set_weights.
Print Assumptions C02b_occupy_vacant_node.
Print Assumptions C02b_occ_post.
Print Assumptions C02b_occupy_out_of_range.
Print Assumptions C02b_ensure_node_exists.
Print Assumptions C02b_ens_post.
Print Assumptions C02b_avu_post.
Print Assumptions C02b_extend_with_edges.
Print Assumptions C02b_ext_room.
Print Assumptions C02b_ext_result.
Print Assumptions C02b_keeps.
Print Assumptions C02b_added.
Print Assumptions C02b_endp.
Print Assumptions C02b_maxep.
Print Assumptions C02b_filter_map.
Print Assumptions C02b_desc.
Print Assumptions C02b_map.
Print Assumptions C02b_to_graph.
Print Assumptions C02b_to_from_graph.
Print Assumptions C02b_step.
Print Assumptions C02b_history.
Print Assumptions C02b_history_from.
Print Assumptions C02b_bounds.
Print Assumptions C02b_extend_false_only_checked.
Print Assumptions C02b_step_is_model_step.
Print Assumptions C02b_harness_states.
Print Assumptions C02b_demo_inv.
Print Assumptions C02b_demo_view.
Print Assumptions C02b_demo_occupy.
Print Assumptions C02b_demo_filter_map.
Print Assumptions C02b_demo_find_edge.
Print Assumptions C02b_demo_update_edge.
Print Assumptions C02b_demo_extend.
Print Assumptions C02b_demo_extend_limit.
Print Assumptions C02b_demo_extend_limit_stream.
Print Assumptions C02b_demo_all.
Print Assumptions C02b_demo_unchecked.
