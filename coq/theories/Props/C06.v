(* C06 -- the generic visit traits describe one and the same graph, and the adaptors Reversed,
   NodeFiltered, EdgeFiltered, Frozen present exactly the reversed, node-induced, edge-restricted
   or identical graph; UndirectedAdaptor does not (a defect of the real code, mirrored by the
   model).  This file holds only the property theorems (closed by [exact]), their pinned
   statements ([Check]) and their assumptions.  Vocabulary (Spec/ViewSpec.v):
     FConsistent f     the seven clauses NodesOK .. AdjOK over the abstract graph
                       (f_nodes f, f_erefs f, f_directed f)
     same_edges ids    Permutation modulo [qproj ids] (the id is dropped when ids = false)
     spec_out/spec_in  what edges(a) / edges_directed(a, Incoming) must list
     AdjRows f         every node that is the target of an adjacency has a row in the adjacency
                       table (the exact condition for Reversed);  AdjKeyed f: a row for every node
     keep_ok           the side condition on an EdgeFiltered predicate. *)
From Coq Require Import Permutation.
From PG Require Import Lib.Io Model.GraphM Model.StableM Model.StableIO
  Model.FullView Model.FullViewOf Spec.ViewSpec
  Proofs.GraphP Proofs.StableP Proofs.FullViewP Proofs.AdaptorP Proofs.FullViewEx
  Proofs.FullViewOfP Proofs.FullViewOfSP.

(* ---------------- T1: the checker decides the specification ---------------- *)

(* same_multiset is multiset equality modulo the id projection *)
Theorem C06_same_multiset : forall ids l1 l2,
  same_multiset ids l1 l2 = true <->
  Permutation (map (qproj ids) l1) (map (qproj ids) l2).
Proof. exact same_multiset_perm. Qed.

(* the model's expected lists are the readable ones of the specification *)
Theorem C06_expected_lists : forall d erefs a,
  Permutation (expect_out d erefs a) (spec_out d erefs a) /\
  Permutation (expect_in d erefs a) (spec_in d erefs a).
Proof. exact (fun d erefs a => conj (expect_out_spec d erefs a) (expect_in_spec d erefs a)). Qed.

(* each executable condition is its clause *)
Theorem C06_clauses : forall f,
  (c_nodes f = true <-> NodesOK f) /\ (c_nrefs f = true <-> NrefsOK f) /\
  (c_erefs f = true <-> ErefsOK f) /\ (c_keys f = true <-> KeysOK f) /\
  (c_out f = true <-> OutOK f) /\ (c_in f = true <-> InOK f) /\ (c_adj f = true <-> AdjOK f).
Proof.
  exact (fun f => conj (c_nodes_ok f) (conj (c_nrefs_ok f) (conj (c_erefs_ok f) (conj (c_keys_ok f)
          (conj (c_out_ok f) (conj (c_in_ok f) (c_adj_ok f))))))).
Qed.

Theorem C06_checker_iff_spec : forall f, fv_ok f = true <-> FConsistent f.
Proof. exact fv_ok_iff. Qed.

(* fv_check is 0 on a consistent view and otherwise the number of the first failing clause *)
Theorem C06_check_first_failing : forall f,
  (fv_check f = 0 /\ FConsistent f) \/
  (1 <= fv_check f <= 7 /\ ~ clause (fv_check f) f /\
   forall j, 1 <= j < fv_check f -> clause j f).
Proof. exact fv_check_first_failing. Qed.

(* ---------------- T2: Reversed ---------------- *)

(* The statement "FConsistent f -> f_has_in f -> FConsistent (fv_reversed f)" is false for the model
   (C06_reversed_needs_adj_rows).  The exact condition is AdjRows: every node that is the target of
   an adjacency has a row in the adjacency table; Reversed re-establishes it whatever the base. *)
Theorem C06_reversed_partial : forall f,
  FConsistent f -> f_has_in f = true ->
  (FConsistent (fv_reversed f) <-> AdjRows f) /\ AdjRows (fv_reversed f).
Proof. exact (fun f H Hin => conj (reversed_exact f H Hin) (reversed_rows f)). Qed.

(* in particular when the table has a row for every node (as for Graph and StableGraph) *)
Theorem C06_reversed_keyed : forall f,
  FConsistent f -> f_has_in f = true -> AdjKeyed f ->
  FConsistent (fv_reversed f) /\ AdjKeyed (fv_reversed f).
Proof.
  exact (fun f H Hin Hk =>
           conj (reversed_consistent f H Hin (keyed_rows f Hk)) (reversed_keyed f Hk)).
Qed.

Theorem C06_keyed_rows : forall f, AdjKeyed f -> AdjRows f.
Proof. exact keyed_rows. Qed.

(* in particular, unconditionally for types without GetAdjacencyMatrix *)
Theorem C06_reversed_no_adj : forall f,
  FConsistent f -> f_has_in f = true -> f_has_adj f = false -> FConsistent (fv_reversed f).
Proof.
  exact (fun f H Hin Hadj =>
    reversed_consistent f H Hin
      (fun E : f_has_adj f = true =>
         False_ind _ (Bool.diff_true_false (eq_trans (eq_sym E) Hadj)))).
Qed.

(* the graph it presents: same nodes, every edge flipped, the four per-node tables swapped and
   flipped, the adjacency relation transposed *)
Theorem C06_reversed_presents : forall f,
  f_nodes (fv_reversed f) = f_nodes f /\
  f_nrefs (fv_reversed f) = f_nrefs f /\
  f_directed (fv_reversed f) = f_directed f /\
  f_erefs (fv_reversed f) = map q_flip (f_erefs f) /\
  (forall a, assocl (f_out (fv_reversed f)) a = map q_flip (assocl (f_in f) a)) /\
  (forall a, assocl (f_in (fv_reversed f)) a = map q_flip (assocl (f_out f) a)) /\
  (forall a, assocl (f_nb (fv_reversed f)) a = assocl (f_nbin f) a) /\
  (forall a, assocl (f_nbin (fv_reversed f)) a = assocl (f_nb f) a) /\
  (forall a b, In a (f_nodes f) -> In b (f_nodes f) -> In a (map fst (f_adj f)) ->
     (In b (assocl (f_adj (fv_reversed f)) a) <-> In a (assocl (f_adj f) b))).
Proof. exact reversed_presents. Qed.

(* Reversed(Reversed(g)) presents g again: every component equal, the adjacency table with the
   same keys and the same rows as sets *)
Theorem C06_reversed_involutive : forall f, fv_same f (fv_reversed (fv_reversed f)).
Proof. exact reversed_involutive. Qed.

(* The statement without AdjRows is false for the model: a consistent view whose adjacency table
   has no row for node 1 (which reads as "1 is adjacent to nothing", correct for the single edge
   0 -> 1); Reversed builds its table from the key list [0] only, so the reversed edge 1 -> 0 is
   missing from it. *)
Theorem C06_reversed_needs_adj_rows :
  FConsistent rv_cex /\ f_has_in rv_cex = true /\ ~ AdjRows rv_cex /\
  f_adj (fv_reversed rv_cex) = [(0, [])] /\
  fv_check (fv_reversed rv_cex) = 7 /\ ~ FConsistent (fv_reversed rv_cex).
Proof. exact reversed_needs_adj_rows. Qed.

(* ---------------- T3: NodeFiltered, EdgeFiltered, Frozen ---------------- *)

Theorem C06_node_filtered : forall keep f,
  FConsistent f ->
  FConsistent (fv_node_filtered keep f) /\
  f_nodes (fv_node_filtered keep f) = filter keep (f_nodes f) /\
  f_directed (fv_node_filtered keep f) = f_directed f /\
  f_erefs (fv_node_filtered keep f) =
    filter (fun q => andb (keep (q_src q)) (keep (q_tgt q))) (f_erefs f) /\
  (forall q, In q (f_erefs (fv_node_filtered keep f)) <->
             In q (f_erefs f) /\ keep (q_src q) = true /\ keep (q_tgt q) = true).
Proof.
  exact (fun keep f H => conj (node_filtered_consistent keep f H) (node_filtered_presents keep f)).
Qed.

Theorem C06_edge_filtered : forall keep f,
  keep_ok (f_ids_ok f) (f_directed f) keep ->
  FConsistent f ->
  FConsistent (fv_edge_filtered keep f) /\
  f_nodes (fv_edge_filtered keep f) = f_nodes f /\
  f_nrefs (fv_edge_filtered keep f) = f_nrefs f /\
  f_directed (fv_edge_filtered keep f) = f_directed f /\
  f_erefs (fv_edge_filtered keep f) = filter keep (f_erefs f).
Proof.
  exact (fun keep f Hk H => conj (edge_filtered_consistent keep f Hk H) (edge_filtered_presents keep f)).
Qed.

(* the model's edge predicate (weight mod p1 <> p2) satisfies the side condition *)
Theorem C06_edge_pred_ok : forall ids d p1 p2, keep_ok ids d (edge_pred p1 p2).
Proof. exact edge_pred_ok. Qed.

(* Frozen / reference delegation is the identity *)
Theorem C06_frozen : forall p1 p2 f, apply_adaptor 5 p1 p2 f = Some f.
Proof. exact (fun p1 p2 f => eq_refl). Qed.

(* ---------------- T4: depth two ---------------- *)

Theorem C06_adaptor_step : forall k p1 p2 f g,
  In k [1; 3; 4; 5] -> FConsistent f -> AdjRows f ->
  apply_adaptor k p1 p2 f = Some g -> FConsistent g /\ AdjRows g.
Proof. exact adaptor_step. Qed.

Theorem C06_adaptor_depth2 : forall k1 p1 q1 k2 p2 q2 f g h,
  In k1 [1; 3; 4; 5] -> In k2 [1; 3; 4; 5] -> FConsistent f -> AdjRows f ->
  apply_adaptor k1 p1 q1 f = Some g -> apply_adaptor k2 p2 q2 g = Some h -> FConsistent h.
Proof. exact adaptor_depth2. Qed.

(* ---------------- T5: UndirectedAdaptor ---------------- *)

(* Three consistent bases (a directed edge 0 -> 1; a directed self-loop; an undirected edge) whose
   image under UndirectedAdaptor fails clause 5: edges(1) reports the edge 0 -> 1 with source 0,
   the self-loop is listed twice, the undirected edge is listed twice. *)
Theorem C06_undirected_adaptor_refuted :
  (FConsistent uw_edge /\ f_directed uw_edge = true /\ f_has_in uw_edge = true /\
   f_erefs uw_edge = [(0, 0, 1, 5%Z)] /\
   fv_ok (fv_undirected uw_edge) = false /\ fv_check (fv_undirected uw_edge) = 5 /\
   ~ FConsistent (fv_undirected uw_edge)) /\
  (FConsistent uw_loop /\ f_directed uw_loop = true /\ f_has_in uw_loop = true /\
   f_erefs uw_loop = [(0, 0, 0, 5%Z)] /\
   fv_ok (fv_undirected uw_loop) = false /\ fv_check (fv_undirected uw_loop) = 5 /\
   ~ FConsistent (fv_undirected uw_loop)) /\
  (FConsistent uw_undir /\ f_directed uw_undir = false /\ f_has_in uw_undir = true /\
   f_erefs uw_undir = [(0, 0, 1, 5%Z)] /\
   fv_ok (fv_undirected uw_undir) = false /\ fv_check (fv_undirected uw_undir) = 5 /\
   ~ FConsistent (fv_undirected uw_undir)).
Proof. exact undirected_refuted. Qed.

(* What does hold over a consistent directed base with in-lists: same nodes and references,
   undirected flag, every clause other than 5; edges(a) = in-edges ++ out-edges as stored, so the
   other endpoints are the neighbours in the symmetrised graph with a self-loop counted twice;
   neighbors(a) = in-neighbours ++ out-neighbours = those other endpoints, in order.
   Missing for consistency: the in-edges are not reported with a as source, and a self-loop is
   listed twice. *)
Theorem C06_undirected_adaptor_partial : forall f,
  FConsistent f -> f_directed f = true -> f_has_in f = true ->
  f_nodes (fv_undirected f) = f_nodes f /\
  f_nrefs (fv_undirected f) = f_nrefs f /\
  f_erefs (fv_undirected f) = f_erefs f /\
  f_directed (fv_undirected f) = false /\
  (forall k, k <> 5 -> clause k (fv_undirected f)) /\
  (forall a, In a (f_nodes f) ->
     assocl (f_out (fv_undirected f)) a = assocl (f_in f) a ++ assocl (f_out f) a /\
     Permutation (map (other_end a) (assocl (f_out (fv_undirected f)) a))
                 (sym_neighbors (f_erefs f) a) /\
     assocl (f_nb (fv_undirected f)) a = assocl (f_nbin f) a ++ assocl (f_nb f) a /\
     assocl (f_nb (fv_undirected f)) a = map (other_end a) (assocl (f_out (fv_undirected f)) a)).
Proof. exact undirected_partial. Qed.

(* ---------------- T6: the Graph model of C01 ---------------- *)

(* Under the C01 invariant the view of a Graph (Model/FullViewOf.v: built from the model's
   edges_directed / neighbors_directed, the node and edge vectors and the adjacency-matrix bits) is
   computed without panic or fuel exhaustion and is consistent, for both edge types; it is
   compact-indexable over 0 .. node_count-1, has comparable ids, in-lists and a full adjacency table. *)
Theorem C06_graph_view : forall cap directed (g : graph nat nat),
  GInv cap g ->
  exists f, fview_of_graph cap directed g = Ok f /\ FConsistent f /\ AdjKeyed f /\
            f_directed f = directed /\
            f_nodes f = seq 0 (length (gnodes g)) /\
            f_bound f = length (gnodes g) /\
            f_erefs f = erefs_of g /\
            (f_compact f = true /\ f_ids_ok f = true /\ f_has_in f = true /\ f_has_adj f = true).
Proof. exact fview_of_graph_consistent. Qed.

(* hence every stack of two adaptors (other than UndirectedAdaptor) over a Graph is consistent *)
Theorem C06_graph_adaptors : forall cap directed (g : graph nat nat) f k1 p1 q1 k2 p2 q2 f1 f2,
  GInv cap g -> fview_of_graph cap directed g = Ok f ->
  In k1 [1; 3; 4; 5] -> In k2 [1; 3; 4; 5] ->
  apply_adaptor k1 p1 q1 f = Some f1 -> apply_adaptor k2 p2 q2 f1 = Some f2 -> FConsistent f2.
Proof. exact graph_adaptors. Qed.

Example C06_graph_nonvacuous :
  let g : graph nat nat :=
    snd (extend_with_edges 1000 false 7 g_empty
           [(0, 1, 10); (0, 1, 11); (2, 2, 12); (1, 3, 13); (3, 0, 14)]) in
  rmap fv_check (fview_of_graph 1000 true g) = Ok 0 /\
  rmap fv_check (fview_of_graph 1000 false g) = Ok 0 /\
  rmap (fun f => assocl (f_out f) 1) (fview_of_graph 1000 false g)
    = Ok [(3, 1, 3, 13%Z); (1, 1, 0, 11%Z); (0, 1, 0, 10%Z)] /\
  rmap (fun f => assocl (f_in f) 1) (fview_of_graph 1000 false g)
    = Ok [(3, 3, 1, 13%Z); (1, 0, 1, 11%Z); (0, 0, 1, 10%Z)] /\
  rmap f_adj (fview_of_graph 1000 false g) = Ok [(0, [1; 3]); (1, [0; 3]); (2, [2]); (3, [0; 1])] /\
  rmap (fun f => option_map fv_check (apply_adaptor 1 0 0 f)) (fview_of_graph 1000 true g)
    = Ok (Some 0) /\
  rmap (fun f => option_map fv_check (apply_adaptor 2 0 0 f)) (fview_of_graph 1000 true g)
    = Ok (Some 5).
Proof. vm_compute. repeat split. Qed.

(* The same for StableGraph under the C02 invariant: live slots only, node_bound = one past the
   last live slot (also the visit-map length and the adjacency-matrix stride), not compact,
   edge ids below edge_bound, node_count / edge_count the counters. *)
Theorem C06_stable_view : forall cap directed (s : sgraph),
  SInv cap s ->
  exists f, fview_of_stable cap directed s = Ok f /\ FConsistent f /\ AdjKeyed f /\
            f_directed f = directed /\
            f_nodes f = map fst (live_nodes s) /\
            f_bound f = node_bound s /\
            f_erefs f = s_erefs_of s /\
            (f_compact f = false /\ f_ids_ok f = true /\ f_has_in f = true /\ f_has_adj f = true).
Proof. exact fview_of_stable_consistent. Qed.

Theorem C06_stable_adaptors : forall cap directed (s : sgraph) f k1 p1 q1 k2 p2 q2 f1 f2,
  SInv cap s -> fview_of_stable cap directed s = Ok f ->
  In k1 [1; 3; 4; 5] -> In k2 [1; 3; 4; 5] ->
  apply_adaptor k1 p1 q1 f = Some f1 -> apply_adaptor k2 p2 q2 f1 = Some f2 -> FConsistent f2.
Proof. exact stable_adaptors. Qed.

(* six nodes, node 3 removed (a vacancy below node_bound = 6), a parallel pair, a self-loop *)
Example C06_stable_nonvacuous :
  let s0 := snd (s_extend_with_edges 1000 false false (sg_empty 1000)
                   [(0, 1, 10); (0, 1, 11); (2, 2, 12); (1, 4, 13); (5, 0, 14); (3, 4, 15)]) in
  let s1 := rmap snd (s_remove_node 1000 false s0 3) in
  rbind s1 (fun s => rmap (fun f => (fv_check f, f_nodes f, f_bound f, f_erefs f))
                          (fview_of_stable 1000 true s))
    = Ok (0, [0; 1; 2; 4; 5], 6,
          [(0, 0, 1, 10%Z); (1, 0, 1, 11%Z); (2, 2, 2, 12%Z); (3, 1, 4, 13%Z); (4, 5, 0, 14%Z)]) /\
  rbind s1 (fun s => rmap (fun f => (fv_check f, assocl (f_out f) 1, f_adj f,
                                     option_map fv_check (apply_adaptor 1 0 0 f),
                                     option_map fv_check (apply_adaptor 2 0 0 f)))
                          (fview_of_stable 1000 false s))
    = Ok (0, [(3, 1, 4, 13%Z); (1, 1, 0, 11%Z); (0, 1, 0, 10%Z)],
          [(0, [1; 5]); (1, [0; 4]); (2, [2]); (4, [1]); (5, [0])], Some 0, Some 5).
Proof. vm_compute. split; reflexivity. Qed.

(* ---------------- T7: non-vacuity ---------------- *)

(* 5 live nodes (slot 3 vacant, bound 6), a parallel pair 0 -> 1, a self-loop at 2 *)
Example C06_nonvacuous :
  fv_ok ex = true /\ FConsistent ex /\ AdjKeyed ex /\
  f_nodes ex = [0; 1; 2; 4; 5] /\ f_bound ex = 6 /\
  f_erefs ex = [(0, 0, 1, 10%Z); (1, 0, 1, 11%Z); (2, 2, 2, 12%Z); (3, 1, 4, 13%Z); (4, 5, 0, 14%Z)].
Proof.
  split; [vm_compute; reflexivity|].
  split; [apply consistent_by_check; vm_compute; reflexivity|].
  split; [intros _ a Ha; exact Ha|].
  repeat split.
Qed.

Example C06_nonvacuous_adaptors :
  option_map fv_check (apply_adaptor 1 0 0 ex) = Some 0 /\
  option_map fv_check (apply_adaptor 2 0 0 ex) = Some 5 /\
  option_map fv_check (apply_adaptor 3 23 (-1) ex) = Some 0 /\
  option_map f_nodes (apply_adaptor 3 23 (-1) ex) = Some [0; 1; 2; 4] /\
  option_map f_erefs (apply_adaptor 3 23 (-1) ex) = Some [e0; e1; e2; e3] /\
  option_map fv_check (apply_adaptor 4 2 0 ex) = Some 0 /\
  option_map f_erefs (apply_adaptor 4 2 0 ex) = Some [e1; e3] /\
  option_map fv_check (apply_adaptor 5 0 0 ex) = Some 0 /\
  (* depth two: Reversed of NodeFiltered, EdgeFiltered of Reversed *)
  option_map fv_check (match apply_adaptor 3 23 (-1) ex with
                       | Some g => apply_adaptor 1 0 0 g | None => None end) = Some 0 /\
  option_map f_erefs (match apply_adaptor 1 0 0 ex with
                      | Some g => apply_adaptor 4 2 0 g | None => None end)
    = Some [q_flip e1; q_flip e3].
Proof. vm_compute. repeat split. Qed.

(* one inconsistent variant per clause *)
Example C06_nonvacuous_failures :
  map fv_check [ex; bad1; bad2; bad3; bad4; bad5; bad6; bad7] = [0; 1; 2; 3; 4; 5; 6; 7].
Proof. vm_compute. reflexivity. Qed.

(* ---------------- pinned statements ---------------- *)

Check C06_same_multiset : forall ids l1 l2,
  same_multiset ids l1 l2 = true <->
  Permutation (map (qproj ids) l1) (map (qproj ids) l2).
Check C06_expected_lists : forall d erefs a,
  Permutation (expect_out d erefs a) (spec_out d erefs a) /\
  Permutation (expect_in d erefs a) (spec_in d erefs a).
Check C06_clauses : forall f,
  (c_nodes f = true <-> NodesOK f) /\ (c_nrefs f = true <-> NrefsOK f) /\
  (c_erefs f = true <-> ErefsOK f) /\ (c_keys f = true <-> KeysOK f) /\
  (c_out f = true <-> OutOK f) /\ (c_in f = true <-> InOK f) /\ (c_adj f = true <-> AdjOK f).
Check C06_checker_iff_spec : forall f, fv_ok f = true <-> FConsistent f.
Check C06_check_first_failing : forall f,
  (fv_check f = 0 /\ FConsistent f) \/
  (1 <= fv_check f <= 7 /\ ~ clause (fv_check f) f /\
   forall j, 1 <= j < fv_check f -> clause j f).
Check C06_reversed_partial : forall f,
  FConsistent f -> f_has_in f = true ->
  (FConsistent (fv_reversed f) <-> AdjRows f) /\ AdjRows (fv_reversed f).
Check C06_reversed_keyed : forall f,
  FConsistent f -> f_has_in f = true -> AdjKeyed f ->
  FConsistent (fv_reversed f) /\ AdjKeyed (fv_reversed f).
Check C06_keyed_rows : forall f, AdjKeyed f -> AdjRows f.
Check C06_reversed_no_adj : forall f,
  FConsistent f -> f_has_in f = true -> f_has_adj f = false -> FConsistent (fv_reversed f).
Check C06_reversed_presents : forall f,
  f_nodes (fv_reversed f) = f_nodes f /\
  f_nrefs (fv_reversed f) = f_nrefs f /\
  f_directed (fv_reversed f) = f_directed f /\
  f_erefs (fv_reversed f) = map q_flip (f_erefs f) /\
  (forall a, assocl (f_out (fv_reversed f)) a = map q_flip (assocl (f_in f) a)) /\
  (forall a, assocl (f_in (fv_reversed f)) a = map q_flip (assocl (f_out f) a)) /\
  (forall a, assocl (f_nb (fv_reversed f)) a = assocl (f_nbin f) a) /\
  (forall a, assocl (f_nbin (fv_reversed f)) a = assocl (f_nb f) a) /\
  (forall a b, In a (f_nodes f) -> In b (f_nodes f) -> In a (map fst (f_adj f)) ->
     (In b (assocl (f_adj (fv_reversed f)) a) <-> In a (assocl (f_adj f) b))).
Check C06_reversed_involutive : forall f, fv_same f (fv_reversed (fv_reversed f)).
Check C06_reversed_needs_adj_rows :
  FConsistent rv_cex /\ f_has_in rv_cex = true /\ ~ AdjRows rv_cex /\
  f_adj (fv_reversed rv_cex) = [(0, [])] /\
  fv_check (fv_reversed rv_cex) = 7 /\ ~ FConsistent (fv_reversed rv_cex).
Check C06_node_filtered : forall keep f,
  FConsistent f ->
  FConsistent (fv_node_filtered keep f) /\
  f_nodes (fv_node_filtered keep f) = filter keep (f_nodes f) /\
  f_directed (fv_node_filtered keep f) = f_directed f /\
  f_erefs (fv_node_filtered keep f) =
    filter (fun q => andb (keep (q_src q)) (keep (q_tgt q))) (f_erefs f) /\
  (forall q, In q (f_erefs (fv_node_filtered keep f)) <->
             In q (f_erefs f) /\ keep (q_src q) = true /\ keep (q_tgt q) = true).
Check C06_edge_filtered : forall keep f,
  keep_ok (f_ids_ok f) (f_directed f) keep ->
  FConsistent f ->
  FConsistent (fv_edge_filtered keep f) /\
  f_nodes (fv_edge_filtered keep f) = f_nodes f /\
  f_nrefs (fv_edge_filtered keep f) = f_nrefs f /\
  f_directed (fv_edge_filtered keep f) = f_directed f /\
  f_erefs (fv_edge_filtered keep f) = filter keep (f_erefs f).
Check C06_edge_pred_ok : forall ids d p1 p2, keep_ok ids d (edge_pred p1 p2).
Check C06_frozen : forall p1 p2 f, apply_adaptor 5 p1 p2 f = Some f.
Check C06_adaptor_step : forall k p1 p2 f g,
  In k [1; 3; 4; 5] -> FConsistent f -> AdjRows f ->
  apply_adaptor k p1 p2 f = Some g -> FConsistent g /\ AdjRows g.
Check C06_adaptor_depth2 : forall k1 p1 q1 k2 p2 q2 f g h,
  In k1 [1; 3; 4; 5] -> In k2 [1; 3; 4; 5] -> FConsistent f -> AdjRows f ->
  apply_adaptor k1 p1 q1 f = Some g -> apply_adaptor k2 p2 q2 g = Some h -> FConsistent h.
Check C06_undirected_adaptor_refuted :
  (FConsistent uw_edge /\ f_directed uw_edge = true /\ f_has_in uw_edge = true /\
   f_erefs uw_edge = [(0, 0, 1, 5%Z)] /\
   fv_ok (fv_undirected uw_edge) = false /\ fv_check (fv_undirected uw_edge) = 5 /\
   ~ FConsistent (fv_undirected uw_edge)) /\
  (FConsistent uw_loop /\ f_directed uw_loop = true /\ f_has_in uw_loop = true /\
   f_erefs uw_loop = [(0, 0, 0, 5%Z)] /\
   fv_ok (fv_undirected uw_loop) = false /\ fv_check (fv_undirected uw_loop) = 5 /\
   ~ FConsistent (fv_undirected uw_loop)) /\
  (FConsistent uw_undir /\ f_directed uw_undir = false /\ f_has_in uw_undir = true /\
   f_erefs uw_undir = [(0, 0, 1, 5%Z)] /\
   fv_ok (fv_undirected uw_undir) = false /\ fv_check (fv_undirected uw_undir) = 5 /\
   ~ FConsistent (fv_undirected uw_undir)).
Check C06_undirected_adaptor_partial : forall f,
  FConsistent f -> f_directed f = true -> f_has_in f = true ->
  f_nodes (fv_undirected f) = f_nodes f /\
  f_nrefs (fv_undirected f) = f_nrefs f /\
  f_erefs (fv_undirected f) = f_erefs f /\
  f_directed (fv_undirected f) = false /\
  (forall k, k <> 5 -> clause k (fv_undirected f)) /\
  (forall a, In a (f_nodes f) ->
     assocl (f_out (fv_undirected f)) a = assocl (f_in f) a ++ assocl (f_out f) a /\
     Permutation (map (other_end a) (assocl (f_out (fv_undirected f)) a))
                 (sym_neighbors (f_erefs f) a) /\
     assocl (f_nb (fv_undirected f)) a = assocl (f_nbin f) a ++ assocl (f_nb f) a /\
     assocl (f_nb (fv_undirected f)) a = map (other_end a) (assocl (f_out (fv_undirected f)) a)).

Check C06_graph_view : forall cap directed (g : graph nat nat),
  GInv cap g ->
  exists f, fview_of_graph cap directed g = Ok f /\ FConsistent f /\ AdjKeyed f /\
            f_directed f = directed /\
            f_nodes f = seq 0 (length (gnodes g)) /\
            f_bound f = length (gnodes g) /\
            f_erefs f = erefs_of g /\
            (f_compact f = true /\ f_ids_ok f = true /\ f_has_in f = true /\ f_has_adj f = true).
Check C06_graph_adaptors : forall cap directed (g : graph nat nat) f k1 p1 q1 k2 p2 q2 f1 f2,
  GInv cap g -> fview_of_graph cap directed g = Ok f ->
  In k1 [1; 3; 4; 5] -> In k2 [1; 3; 4; 5] ->
  apply_adaptor k1 p1 q1 f = Some f1 -> apply_adaptor k2 p2 q2 f1 = Some f2 -> FConsistent f2.

Check C06_stable_view : forall cap directed (s : sgraph),
  SInv cap s ->
  exists f, fview_of_stable cap directed s = Ok f /\ FConsistent f /\ AdjKeyed f /\
            f_directed f = directed /\
            f_nodes f = map fst (live_nodes s) /\
            f_bound f = node_bound s /\
            f_erefs f = s_erefs_of s /\
            (f_compact f = false /\ f_ids_ok f = true /\ f_has_in f = true /\ f_has_adj f = true).
Check C06_stable_adaptors : forall cap directed (s : sgraph) f k1 p1 q1 k2 p2 q2 f1 f2,
  SInv cap s -> fview_of_stable cap directed s = Ok f ->
  In k1 [1; 3; 4; 5] -> In k2 [1; 3; 4; 5] ->
  apply_adaptor k1 p1 q1 f = Some f1 -> apply_adaptor k2 p2 q2 f1 = Some f2 -> FConsistent f2.

Print Assumptions C06_same_multiset.
Print Assumptions C06_expected_lists.
Print Assumptions C06_clauses.
Print Assumptions C06_checker_iff_spec.
Print Assumptions C06_check_first_failing.
Print Assumptions C06_reversed_partial.
Print Assumptions C06_reversed_keyed.
Print Assumptions C06_keyed_rows.
Print Assumptions C06_reversed_no_adj.
Print Assumptions C06_reversed_presents.
Print Assumptions C06_reversed_involutive.
Print Assumptions C06_reversed_needs_adj_rows.
Print Assumptions C06_node_filtered.
Print Assumptions C06_edge_filtered.
Print Assumptions C06_edge_pred_ok.
Print Assumptions C06_frozen.
Print Assumptions C06_adaptor_step.
Print Assumptions C06_adaptor_depth2.
Print Assumptions C06_undirected_adaptor_refuted.
Print Assumptions C06_undirected_adaptor_partial.
Print Assumptions C06_graph_view.
Print Assumptions C06_graph_adaptors.
Print Assumptions C06_graph_nonvacuous.
Print Assumptions C06_stable_view.
Print Assumptions C06_stable_adaptors.
Print Assumptions C06_stable_nonvacuous.
Print Assumptions C06_nonvacuous.
Print Assumptions C06_nonvacuous_adaptors.
Print Assumptions C06_nonvacuous_failures.
