(* C12b — min_spanning_tree_prim emits a MINIMUM spanning tree of the component of the
   first node (C12.v shows that it is a spanning tree of it).

   This file holds only the property theorems (closed by [exact]), their pinned statements
   ([Check]) and their assumptions.  Vocabulary: uconn, acyclic_edges, weight, ends, gedges,
   oedges, decode, MOk, POk are in Spec/Forest.v; comp_tree, WSym, UView are defined in
   Proofs/PrimMinP.v and spelled out below by the [_meaning] theorems.

   Finding: the hypothesis [POk v] of C12_prim_spanning_tree is NOT enough for minimality.
   POk only asks that an edges(a) entry (a, b, w) has SOME reverse entry (b, a, w'); the two
   weights may differ, Prim then sees an edge only with the weight listed at the end it is
   reached from ([C12b_asym_counterexample]).  This is a gap of the hypothesis, not a defect
   of petgraph: a real undirected graph lists an edge from both ends with the same weight.
   The missing hypothesis is [WSym v].  Under POk alone minimality holds against the
   competitor trees whose edges are listed with the same weight from both ends
   ([C12_prim_minimal_partial]).

   The proofs use of the heap only that a popped entry has minimal weight: they do not depend
   on how ties are broken. *)
From Coq Require Import ZArith Permutation.
From PG Require Import Lib.Io Model.View Model.MstM Spec.Forest
  Proofs.ForestP Proofs.MstP Proofs.PrimP Proofs.PrimMinP Props.C12.

(* ---- the vocabulary, spelled out ---- *)

(* F is a spanning tree of the component of n0 made of edges(a) entries: what
   C12_prim_spanning_tree states for the decoded stream *)
Theorem C12_comp_tree_meaning : forall v n0 F,
  comp_tree v n0 F <->
  (incl F (oedges v) /\ acyclic_edges (ends F) /\
   (forall x, uconn (ends F) n0 x <-> uconn (ends (oedges v)) n0 x) /\
   (forall a b, In (a, b) (ends F) -> uconn (ends F) n0 a)).
Proof. exact (fun v n0 F => iff_refl _). Qed.

(* every edge is listed from both of its ends with the same weight *)
Theorem C12_WSym_meaning : forall v,
  WSym v <-> (forall a b w, In (a, b, w) (oedges v) -> In (b, a, w) (oedges v)).
Proof. exact (fun v => iff_refl _). Qed.

(* an undirected view: well-formed for Kruskal and for Prim, and edge_references and
   edges(a) show the same weighted edges (edges(a) from both ends) *)
Theorem C12_UView_meaning : forall v,
  UView v <->
  (MOk v /\ POk v /\
   (forall a b w, In (a, b, w) (gedges v) -> In (a, b, w) (oedges v) /\ In (b, a, w) (oedges v)) /\
   (forall a b w, In (a, b, w) (oedges v) -> In (a, b, w) (gedges v) \/ In (b, a, w) (gedges v))).
Proof. exact (fun v => iff_refl _). Qed.

(* ---- the theorems ---- *)

(* M1. Under POk alone: the emitted weight is at most the weight of every spanning tree of the
   component of n0 whose edges are listed from both ends with the same weight.
   (partial: without WSym the competitor trees are restricted; see the counterexample) *)
Theorem C12_prim_minimal_partial : forall v n0 rest l,
  POk v -> vnodes v = n0 :: rest -> prim v = Ok l ->
  forall F, comp_tree v n0 F ->
    (forall a b w, In (a, b, w) F -> In (b, a, w) (oedges v)) ->
    (weight l <= weight F)%Z.
Proof. exact prim_minimal_partial. Qed.

(* M2. With every edge listed with the same weight from both ends: the emitted edges are a
   spanning tree of the component of the first node whose total weight (the sum of the
   emitted weights) is minimal among all such trees — whatever the tie order of the heap. *)
Theorem C12_prim_minimal : forall v n0 rest l,
  POk v -> WSym v -> vnodes v = n0 :: rest -> prim v = Ok l ->
  comp_tree v n0 (decode v l) /\ weight (decode v l) = weight l /\
  forall F, comp_tree v n0 F -> (weight l <= weight F)%Z.
Proof. exact prim_minimal. Qed.

(* M3. The cut property behind M1/M2: an edge x - y of the component of n0 that is listed
   with weight w from both ends has its ends connected by emitted edges of weight <= w. *)
Theorem C12_prim_cut_property : forall v n0 rest l,
  POk v -> vnodes v = n0 :: rest -> prim v = Ok l ->
  forall x y w, In (x, y, w) (oedges v) -> In (y, x, w) (oedges v) ->
    uconn (ends (oedges v)) n0 x ->
    uconn (ends (filter (fun e => Z.leb (snd e) w) (decode v l))) x y.
Proof. exact prim_cut_property. Qed.

(* M3'. The same for sets of edges: below every threshold c the emitted edges connect, inside
   the component of n0, whatever the edges of G (listed from both ends with the same weight)
   connect. *)
Theorem C12_prim_threshold : forall v n0 rest l G,
  POk v -> vnodes v = n0 :: rest -> prim v = Ok l ->
  (forall a b w, In (a, b, w) G -> In (a, b, w) (oedges v) /\ In (b, a, w) (oedges v)) ->
  forall c a b, uconn (ends (oedges v)) n0 a -> uconn (ends (oedges v)) n0 b ->
    uconn (ends (filter (fun e => Z.leb (snd e) c) G)) a b ->
    uconn (ends (filter (fun e => Z.leb (snd e) c) (decode v l))) a b.
Proof. exact prim_threshold. Qed.

(* M4. On a connected undirected view Prim and Kruskal emit the same total weight (the edge
   lists may differ: see C12b_tri). *)
Theorem C12_prim_kruskal_same_weight : forall v n0 rest lp lk,
  UView v -> vnodes v = n0 :: rest ->
  (forall x, In x (vnodes v) -> uconn (ends (gedges v)) n0 x) ->
  prim v = Ok lp -> kruskal v = Ok lk -> weight lp = weight lk.
Proof. exact prim_kruskal_same_weight. Qed.

(* the checkers used in the examples are sound *)
Theorem C12_checkers_sound : forall v,
  (wsym_b v = true -> WSym v) /\ (uview_b v = true -> UView v) /\
  (forall n0 F, comp_tree_b v n0 F = true -> comp_tree v n0 F).
Proof. exact (fun v => conj (wsym_b_sound v) (conj (uview_b_sound v) (comp_tree_b_sound v))). Qed.

(* ---- examples ---- *)

(* (a) POk is not enough: the edge 0 - 1 is listed with weight 5 at node 0 and with weight 1
   at node 1.  POk holds; Prim starts at 0 and emits the entry (0,1,5); the entry (1,0,1) alone
   is a spanning tree of the component of 0 made of edges(a) entries, of weight 1 < 5. *)
Definition C12b_asym : view :=
  mkView false 2 None [0; 1]
    [(0, [(0, 1, 5%Z)]); (1, [(0, 0, 1%Z)])]
    [] 1 1
    [(0, 0, 1, 5%Z)].

Example C12b_asym_POk : POk C12b_asym.
Proof. exact (pok_b_sound C12b_asym eq_refl). Qed.

Example C12b_asym_prim :
  oedges C12b_asym = [(0, 1, 5%Z); (1, 0, 1%Z)] /\
  prim C12b_asym = Ok [(0, 1, 5%Z)] /\
  decode C12b_asym [(0, 1, 5%Z)] = [(0, 1, 5%Z)] /\
  weight [(0, 1, 5%Z)] = 5%Z /\ weight [(1, 0, 1%Z)] = 1%Z /\ wsym_b C12b_asym = false.
Proof. vm_compute. repeat split; reflexivity. Qed.

Example C12b_asym_tree : comp_tree C12b_asym 0 [(1, 0, 1%Z)].
Proof. exact (comp_tree_b_sound C12b_asym 0 [(1, 0, 1%Z)] eq_refl). Qed.

(* so the conclusion of C12_prim_minimal fails on a POk view: *)
Example C12b_asym_counterexample :
  POk C12b_asym /\ vnodes C12b_asym = 0 :: [1] /\ prim C12b_asym = Ok [(0, 1, 5%Z)] /\
  ~ (forall F, comp_tree C12b_asym 0 F -> Z.le (weight [(0, 1, 5%Z)]) (weight F)) /\
  ~ WSym C12b_asym.
Proof.
  split; [exact C12b_asym_POk|]. split; [reflexivity|]. split; [vm_compute; reflexivity|]. split.
  - intros H. specialize (H [(1, 0, 1%Z)] C12b_asym_tree). vm_compute in H. apply H. reflexivity.
  - intros H. specialize (H 0 1 5%Z (or_introl eq_refl)). vm_compute in H.
    destruct H as [H|[H|[]]]; discriminate H.
Qed.

(* (b) a triangle with three equal weights, a well-formed undirected view: Prim (heap ties
   first-in first-out) and Kruskal emit different trees of the same weight. *)
Definition C12b_tri : view :=
  mkView false 3 None [0; 1; 2]
    [(0, [(0, 1, 5%Z); (2, 2, 5%Z)]);
     (1, [(0, 0, 5%Z); (1, 2, 5%Z)]);
     (2, [(1, 1, 5%Z); (2, 0, 5%Z)])]
    [] 3 3
    [(0, 0, 1, 5%Z); (1, 1, 2, 5%Z); (2, 0, 2, 5%Z)].

Example C12b_tri_UView : UView C12b_tri.
Proof. exact (uview_b_sound C12b_tri eq_refl). Qed.

Example C12b_tri_WSym : WSym C12b_tri.
Proof. exact (wsym_b_sound C12b_tri eq_refl). Qed.

Example C12b_tri_POk : POk C12b_tri.
Proof. exact (pok_b_sound C12b_tri eq_refl). Qed.

Example C12b_tri_connected :
  forall x, In x (vnodes C12b_tri) -> uconn (ends (gedges C12b_tri)) 0 x.
Proof.
  intros x Hx. apply qf_conn.
  destruct Hx as [Hx|[Hx|[Hx|[]]]]; subst x; vm_compute; reflexivity.
Qed.

Example C12b_tri_outputs :
  prim C12b_tri = Ok [(0, 1, 5%Z); (0, 2, 5%Z)] /\
  kruskal C12b_tri = Ok [(0, 1, 5%Z); (1, 2, 5%Z)] /\
  decode C12b_tri [(0, 1, 5%Z); (0, 2, 5%Z)] = [(0, 1, 5%Z); (0, 2, 5%Z)] /\
  decode C12b_tri [(0, 1, 5%Z); (1, 2, 5%Z)] = [(0, 1, 5%Z); (1, 2, 5%Z)] /\
  weight [(0, 1, 5%Z); (0, 2, 5%Z)] = 10%Z /\ weight [(0, 1, 5%Z); (1, 2, 5%Z)] = 10%Z.
Proof. vm_compute. repeat split; reflexivity. Qed.

(* the two decoded edge sets differ: 0 - 2 is emitted by Prim only *)
Example C12b_tri_differ :
  In (0, 2, 5%Z) (decode C12b_tri [(0, 1, 5%Z); (0, 2, 5%Z)]) /\
  ~ In (0, 2, 5%Z) (decode C12b_tri [(0, 1, 5%Z); (1, 2, 5%Z)]) /\
  ~ In (2, 0, 5%Z) (decode C12b_tri [(0, 1, 5%Z); (1, 2, 5%Z)]).
Proof.
  vm_compute. split; [right; left; reflexivity|].
  split; intros [H|[H|[]]]; discriminate H.
Qed.

(* both trees are spanning trees of the component of 0, so M2 and M4 apply *)
Example C12b_tri_trees :
  comp_tree C12b_tri 0 [(0, 1, 5%Z); (0, 2, 5%Z)] /\ comp_tree C12b_tri 0 [(0, 1, 5%Z); (1, 2, 5%Z)].
Proof.
  exact (conj (comp_tree_b_sound C12b_tri 0 [(0, 1, 5%Z); (0, 2, 5%Z)] eq_refl)
              (comp_tree_b_sound C12b_tri 0 [(0, 1, 5%Z); (1, 2, 5%Z)] eq_refl)).
Qed.

(* M4 applied to the triangle: its hypotheses are satisfiable *)
Example C12b_tri_same_weight :
  weight [(0, 1, 5%Z); (0, 2, 5%Z)] = weight [(0, 1, 5%Z); (1, 2, 5%Z)].
Proof.
  exact (C12_prim_kruskal_same_weight C12b_tri 0 [1; 2] _ _ C12b_tri_UView eq_refl
           C12b_tri_connected (proj1 C12b_tri_outputs) (proj1 (proj2 C12b_tri_outputs))).
Qed.

(* M2 applied to the triangle: the Kruskal tree does not weigh less than the Prim tree *)
Example C12b_tri_minimal :
  Z.le (weight [(0, 1, 5%Z); (0, 2, 5%Z)]) (weight [(0, 1, 5%Z); (1, 2, 5%Z)]).
Proof.
  exact (proj2 (proj2 (C12_prim_minimal C12b_tri 0 [1; 2] _ C12b_tri_POk C12b_tri_WSym eq_refl
                         (proj1 C12b_tri_outputs))) _ (proj2 C12b_tri_trees)).
Qed.

(* the view of C12.v (two components, a self-loop, parallel edges) also satisfies WSym: M2
   applies to it (it is not connected: M4 does not) *)
Example C12b_C12_view_WSym : WSym C12_view /\ UView C12_view.
Proof. exact (conj (wsym_b_sound C12_view eq_refl) (uview_b_sound C12_view eq_refl)). Qed.

(* (c) a square with weights 1, 2, 1, 2: different trees again, total 4 both *)
Definition C12b_sq : view :=
  mkView false 4 None [0; 1; 2; 3]
    [(0, [(0, 1, 1%Z); (3, 3, 2%Z)]);
     (1, [(0, 0, 1%Z); (1, 2, 2%Z)]);
     (2, [(1, 1, 2%Z); (2, 3, 1%Z)]);
     (3, [(2, 2, 1%Z); (3, 0, 2%Z)])]
    [] 4 4
    [(0, 0, 1, 1%Z); (1, 1, 2, 2%Z); (2, 2, 3, 1%Z); (3, 3, 0, 2%Z)].

Example C12b_sq_UView : UView C12b_sq.
Proof. exact (uview_b_sound C12b_sq eq_refl). Qed.

Example C12b_sq_outputs :
  prim C12b_sq = Ok [(0, 1, 1%Z); (0, 3, 2%Z); (3, 2, 1%Z)] /\
  kruskal C12b_sq = Ok [(0, 1, 1%Z); (2, 3, 1%Z); (1, 2, 2%Z)] /\
  weight [(0, 1, 1%Z); (0, 3, 2%Z); (3, 2, 1%Z)] = 4%Z /\
  weight [(0, 1, 1%Z); (2, 3, 1%Z); (1, 2, 2%Z)] = 4%Z.
Proof. vm_compute. repeat split; reflexivity. Qed.

(* ---- pinned statements ---- *)

Check C12_comp_tree_meaning : forall v n0 F,
  comp_tree v n0 F <->
  (incl F (oedges v) /\ acyclic_edges (ends F) /\
   (forall x, uconn (ends F) n0 x <-> uconn (ends (oedges v)) n0 x) /\
   (forall a b, In (a, b) (ends F) -> uconn (ends F) n0 a)).
Check C12_WSym_meaning : forall v,
  WSym v <-> (forall a b w, In (a, b, w) (oedges v) -> In (b, a, w) (oedges v)).
Check C12_UView_meaning : forall v,
  UView v <->
  (MOk v /\ POk v /\
   (forall a b w, In (a, b, w) (gedges v) -> In (a, b, w) (oedges v) /\ In (b, a, w) (oedges v)) /\
   (forall a b w, In (a, b, w) (oedges v) -> In (a, b, w) (gedges v) \/ In (b, a, w) (gedges v))).
Check C12_prim_minimal_partial : forall v n0 rest l,
  POk v -> vnodes v = n0 :: rest -> prim v = Ok l ->
  forall F, comp_tree v n0 F ->
    (forall a b w, In (a, b, w) F -> In (b, a, w) (oedges v)) ->
    (weight l <= weight F)%Z.
Check C12_prim_minimal : forall v n0 rest l,
  POk v -> WSym v -> vnodes v = n0 :: rest -> prim v = Ok l ->
  comp_tree v n0 (decode v l) /\ weight (decode v l) = weight l /\
  forall F, comp_tree v n0 F -> (weight l <= weight F)%Z.
Check C12_prim_cut_property : forall v n0 rest l,
  POk v -> vnodes v = n0 :: rest -> prim v = Ok l ->
  forall x y w, In (x, y, w) (oedges v) -> In (y, x, w) (oedges v) ->
    uconn (ends (oedges v)) n0 x ->
    uconn (ends (filter (fun e => Z.leb (snd e) w) (decode v l))) x y.
Check C12_prim_threshold : forall v n0 rest l G,
  POk v -> vnodes v = n0 :: rest -> prim v = Ok l ->
  (forall a b w, In (a, b, w) G -> In (a, b, w) (oedges v) /\ In (b, a, w) (oedges v)) ->
  forall c a b, uconn (ends (oedges v)) n0 a -> uconn (ends (oedges v)) n0 b ->
    uconn (ends (filter (fun e => Z.leb (snd e) c) G)) a b ->
    uconn (ends (filter (fun e => Z.leb (snd e) c) (decode v l))) a b.
Check C12_prim_kruskal_same_weight : forall v n0 rest lp lk,
  UView v -> vnodes v = n0 :: rest ->
  (forall x, In x (vnodes v) -> uconn (ends (gedges v)) n0 x) ->
  prim v = Ok lp -> kruskal v = Ok lk -> weight lp = weight lk.
Check C12_checkers_sound : forall v,
  (wsym_b v = true -> WSym v) /\ (uview_b v = true -> UView v) /\
  (forall n0 F, comp_tree_b v n0 F = true -> comp_tree v n0 F).

Print Assumptions C12_comp_tree_meaning.
Print Assumptions C12_WSym_meaning.
Print Assumptions C12_UView_meaning.
Print Assumptions C12_prim_minimal_partial.
Print Assumptions C12_prim_minimal.
Print Assumptions C12_prim_cut_property.
Print Assumptions C12_prim_threshold.
Print Assumptions C12_prim_kruskal_same_weight.
Print Assumptions C12_checkers_sound.
Print Assumptions C12b_asym_POk.
Print Assumptions C12b_asym_prim.
Print Assumptions C12b_asym_tree.
Print Assumptions C12b_asym_counterexample.
Print Assumptions C12b_tri_UView.
Print Assumptions C12b_tri_WSym.
Print Assumptions C12b_tri_POk.
Print Assumptions C12b_tri_connected.
Print Assumptions C12b_tri_outputs.
Print Assumptions C12b_tri_differ.
Print Assumptions C12b_tri_trees.
Print Assumptions C12b_tri_same_weight.
Print Assumptions C12b_tri_minimal.
Print Assumptions C12b_C12_view_WSym.
Print Assumptions C12b_sq_UView.
Print Assumptions C12b_sq_outputs.
