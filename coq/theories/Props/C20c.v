(* C20c — dsatur_coloring (src/algo/coloring.rs) as the nondeterministic machine of Model/DsaturM.v:
   a step colours ANY uncoloured node whose (saturation, degree) is lexicographically maximal
   ([candidates]) with the smallest colour absent from the nodes that list it as a neighbour
   ([next_color]); the heap's tie-breaking is left open.  The differential run evaluates
   [dsatur_possible v target k] on the crate's answer (trace inclusion).  This file says what every
   run of the machine guarantees, for views of any size, and what the accepted answers satisfy.
   It holds only the property theorems (closed by [exact]), their pinned statements ([Check]),
   their assumptions, and non-vacuity examples.

   Vocabulary (Spec/DsaturSpec.v; Spec/MiscSpec.v and Spec/Reach.v as in Props/C20.v):
     dsatur_step v col col'    col' = (x, next_color v col x) :: col for some x in candidates v col
     dsatur_steps v col col'   reflexive-transitive closure (the state is the trace, newest first)
     dsatur_output v col       dsatur_steps v [] col and nothing is left uncoloured
     Grundy v col              a node of colour c is listed as a neighbour by a node of every colour < c
     max_degree v              the largest graph.edges(a).count()
     agree_on v col target     the two lists give every node of the view the same colour
     heap_ok v col h           h : list ((saturation, degree), node): every uncoloured node has an entry
                               with its current score, and none of its entries exceeds that score
     heap_init v               the heap before the loop
     heap_pops v col h s x     (s, x) is an entry of an uncoloured node that no entry of an
                               uncoloured node exceeds (what the loop uses after skipping the
                               entries of coloured nodes)
     heap_after v col x c h h' what the loop body may leave: entries of other nodes kept, a fresh
                               entry for every neighbour of x, nothing else new
     nodes_ok v (second clause of VOk v), symmetric v, TwoColourable v, TwoColourableNL v,
     ColTotal, ColProper, ColRange. *)
From PG Require Import Lib.Io Model.View Model.MiscM Spec.Reach Spec.MiscSpec Model.DsaturM
                       Spec.DsaturSpec Proofs.MiscColorP Proofs.MiscCheckP Proofs.DsaturP Proofs.DsaturP2.

(* ------------------------------------------------------------------ *)
(* D1. the machine never gets stuck (no hypothesis on the view)         *)

(* in any state with an uncoloured node a lexicographic maximum exists; from any state a complete
   run exists; a complete run colours every node exactly once (one pair per step, so it has as
   many steps as there are nodes) *)
Theorem C20c_machine_never_stuck : forall v,
  (forall col, uncolored v col <> [] -> candidates v col <> []) /\
  (forall col, exists col', dsatur_steps v col col' /\ uncolored v col' = []) /\
  (exists col, dsatur_output v col) /\
  (forall col, dsatur_output v col ->
     ColTotal v col /\ (NoDup (vnodes v) -> length col = length (vnodes v))).
Proof. intros v. exact (machine_never_stuck v). Qed.

(* ------------------------------------------------------------------ *)
(* D2. proper (edges between nodes of the view, symmetric)              *)

Theorem C20c_output_proper : forall v col, nodes_ok v -> symmetric v ->
  dsatur_output v col -> ColProper v col.
Proof. intros v col Hno Hs Hout. exact (output_proper v col Hno Hs Hout). Qed.

(* ------------------------------------------------------------------ *)
(* D3. Grundy; colours 0..k-1; k <= max degree + 1 — in every reachable state                    *)

Theorem C20c_output_grundy : forall v col, dsatur_steps v [] col ->
  Grundy v col /\ ColRange col (color_count col) /\
  (symmetric v -> color_count col <= max_degree v + 1).
Proof. intros v col H. exact (reachable_grundy v col H). Qed.

(* ------------------------------------------------------------------ *)
(* D4. at most two colours on a 2-colourable view (self-loops may be present and are ignored;   *)
(*     loop-freeness is not needed)                                                             *)

Theorem C20c_reachable_bipartite : forall v col, nodes_ok v -> symmetric v -> TwoColourableNL v ->
  dsatur_steps v [] col -> color_count col <= 2.
Proof. intros v col Hno Hs H2 H. exact (reachable_two_colours v col Hno Hs H2 H). Qed.

Theorem C20c_output_bipartite : forall v col, nodes_ok v -> symmetric v -> TwoColourableNL v ->
  dsatur_output v col -> color_count col <= 2.
Proof. intros v col Hno Hs H2 H. exact (output_two_colours v col Hno Hs H2 H). Qed.

(* with the notion of C20_coloring_check_iff (a self-loop has no 2-colouring) *)
Theorem C20c_output_bipartite_strict : forall v col, nodes_ok v -> symmetric v -> TwoColourable v ->
  dsatur_output v col -> color_count col <= 2.
Proof. intros v col Hno Hs H2 H. exact (output_two_colours_strict v col Hno Hs H2 H). Qed.

(* ------------------------------------------------------------------ *)
(* D5. the checker (no hypothesis on the view)                          *)

Theorem C20c_checker_sound_complete : forall v target,
  dsatur_from (length (vnodes v)) v target [] = true <->
  exists col, dsatur_output v col /\ (forall x, In x (vnodes v) -> assoc_col col x = assoc_col target x).
Proof. intros v target. exact (dsatur_from_iff v target). Qed.

(* the complete runs can be listed *)
Theorem C20c_runs_enumerated : forall v col,
  In col (dsatur_runs (length (vnodes v)) v []) <-> dsatur_output v col.
Proof. intros v col. exact (dsatur_runs_iff v col). Qed.

(* an accepted answer satisfies every clause of the colouring checker, and more *)
Theorem C20c_possible_implies_check : forall v target k, nodes_ok v -> symmetric v ->
  ColTotal v target -> dsatur_possible v target k = true ->
  ColProper v target /\ ColRange target k /\ Grundy v target /\ k <= max_degree v + 1 /\
  (TwoColourableNL v -> k <= 2).
Proof. intros v target k Hno Hs Ht H. exact (possible_implies v target k Hno Hs Ht H). Qed.

Theorem C20c_possible_implies_coloring_check : forall v target k, VOk v -> symmetric v ->
  ColTotal v target -> dsatur_possible v target k = true -> coloring_check v target k = 0.
Proof. intros v target k Hv Hs Ht H. exact (possible_implies_coloring_check v target k Hv Hs Ht H). Qed.

(* ------------------------------------------------------------------ *)
(* D6. the heap of the code, as a list of entries                        *)

Theorem C20c_heap_init : forall v, heap_ok v [] (heap_init v).
Proof. intros v. exact (heap_init_ok v). Qed.

(* a maximal entry of an uncoloured node is the current score of a candidate; and every candidate
   can be that entry *)
Theorem C20c_heap_pop_is_candidate : forall v col h s x, heap_ok v col h -> heap_pops v col h s x ->
  In x (candidates v col) /\ s = score v col x.
Proof. intros v col h s x Hok Hp. exact (heap_pops_candidate v col h s x Hok Hp). Qed.

Theorem C20c_heap_candidate_pops : forall v col h x, heap_ok v col h -> In x (candidates v col) ->
  heap_pops v col h (score v col x) x.
Proof. intros v col h x Hok Hx. exact (heap_candidate_pops v col h x Hok Hx). Qed.

(* an iteration of the loop that colours a node is a step of the machine, and its pushes keep the
   heap in order *)
Theorem C20c_heap_step : forall v col h s x h', heap_ok v col h -> heap_pops v col h s x ->
  heap_after v col x (next_color v col x) h h' ->
  dsatur_step v col ((x, next_color v col x) :: col) /\ heap_ok v ((x, next_color v col x) :: col) h'.
Proof. intros v col h s x h' Hok Hp Ha. exact (heap_simulation v col h s x h' Hok Hp Ha). Qed.

(* ------------------------------------------------------------------ *)
(* examples                                                             *)

(* a 5-cycle, a 6-cycle, and a path 0-1-2-3 next to a triangle 4-5-6 *)
Definition C20c_C5 : view := uview 5 [(0,1); (1,2); (2,3); (3,4); (4,0)].
Definition C20c_C6 : view := uview 6 [(0,1); (1,2); (2,3); (3,4); (4,5); (5,0)].
Definition C20c_PT : view := uview 7 [(0,1); (1,2); (2,3); (4,5); (5,6); (6,4)].

Example C20c_views_ok :
  (VOk C20c_C5 /\ symmetric C20c_C5 /\ loop_free C20c_C5 /\ NoDup (vnodes C20c_C5) /\ ~ TwoColourable C20c_C5) /\
  (VOk C20c_C6 /\ symmetric C20c_C6 /\ loop_free C20c_C6 /\ NoDup (vnodes C20c_C6) /\ TwoColourable C20c_C6) /\
  (VOk C20c_PT /\ symmetric C20c_PT /\ loop_free C20c_PT /\ NoDup (vnodes C20c_PT) /\ ~ TwoColourable C20c_PT).
Proof.
  assert (H5 : VOk C20c_C5 /\ symmetric C20c_C5).
  { split; [apply vok_check_ok; vm_compute; reflexivity | apply symmetricb_ok; vm_compute; reflexivity]. }
  assert (H6 : VOk C20c_C6 /\ symmetric C20c_C6).
  { split; [apply vok_check_ok; vm_compute; reflexivity | apply symmetricb_ok; vm_compute; reflexivity]. }
  assert (HP : VOk C20c_PT /\ symmetric C20c_PT).
  { split; [apply vok_check_ok; vm_compute; reflexivity | apply symmetricb_ok; vm_compute; reflexivity]. }
  split; [|split].
  - split; [apply H5|]. split; [apply H5|]. split; [apply loop_freeb_ok; vm_compute; reflexivity|].
    split; [apply nodupb_iff; vm_compute; reflexivity|].
    intros H. apply (bipartite_all_iff (proj1 H5) (proj2 H5)) in H. vm_compute in H. discriminate.
  - split; [apply H6|]. split; [apply H6|]. split; [apply loop_freeb_ok; vm_compute; reflexivity|].
    split; [apply nodupb_iff; vm_compute; reflexivity|].
    apply (bipartite_all_iff (proj1 H6) (proj2 H6)). vm_compute. reflexivity.
  - split; [apply HP|]. split; [apply HP|]. split; [apply loop_freeb_ok; vm_compute; reflexivity|].
    split; [apply nodupb_iff; vm_compute; reflexivity|].
    intros H. apply (bipartite_all_iff (proj1 HP) (proj2 HP)) in H. vm_compute in H. discriminate.
Qed.

(* the 5-cycle: 40 complete runs, all with three colours; the first one listed; it is accepted;
   the proper colouring 2 0 2 0 1 passes coloring_check but is no output (node 2 has colour 2
   and no neighbour of colour 1: not Grundy) *)
Example C20c_ex_C5 :
  length (dsatur_runs 5 C20c_C5 []) = 40 /\
  forallb (fun col => Nat.eqb (color_count col) 3) (dsatur_runs 5 C20c_C5 []) = true /\
  hd [] (dsatur_runs 5 C20c_C5 []) = [(4,2); (3,1); (2,0); (1,1); (0,0)] /\
  max_degree C20c_C5 = 2 /\
  coloring_check C20c_C5 [(0,0); (1,1); (2,0); (3,1); (4,2)] 3 = 0 /\
  dsatur_possible C20c_C5 [(0,0); (1,1); (2,0); (3,1); (4,2)] 3 = true /\
  coloring_check C20c_C5 [(0,2); (1,0); (2,2); (3,0); (4,1)] 3 = 0 /\
  dsatur_possible C20c_C5 [(0,2); (1,0); (2,2); (3,0); (4,1)] 3 = false.
Proof. vm_compute. repeat split; reflexivity. Qed.

Example C20c_ex_C5_output : dsatur_output C20c_C5 [(4,2); (3,1); (2,0); (1,1); (0,0)].
Proof. apply C20c_runs_enumerated. vm_compute. left. reflexivity. Qed.

(* the 6-cycle: 96 complete runs, every one with exactly two colours *)
Example C20c_ex_C6 :
  length (dsatur_runs 6 C20c_C6 []) = 96 /\
  forallb (fun col => Nat.eqb (color_count col) 2) (dsatur_runs 6 C20c_C6 []) = true /\
  dsatur_possible C20c_C6 [(0,0); (1,1); (2,0); (3,1); (4,0); (5,1)] 2 = true /\
  dsatur_possible C20c_C6 [(0,1); (1,0); (2,1); (3,0); (4,1); (5,0)] 2 = true /\
  dsatur_possible C20c_C6 [(0,0); (1,1); (2,2); (3,0); (4,1); (5,2)] 3 = false.
Proof. vm_compute. repeat split; reflexivity. Qed.

(* path + triangle: 0 1 2 0 on the path is a Grundy colouring that passes coloring_check (the
   view is not 2-colourable, k = 3), but no run produces it: the saturation rule keeps the path
   at two colours *)
Example C20c_ex_PT :
  coloring_check C20c_PT [(0,0); (1,1); (2,2); (3,0); (4,0); (5,1); (6,2)] 3 = 0 /\
  dsatur_possible C20c_PT [(0,0); (1,1); (2,2); (3,0); (4,0); (5,1); (6,2)] 3 = false /\
  coloring_check C20c_PT [(0,0); (1,1); (2,0); (3,1); (4,0); (5,1); (6,2)] 3 = 0 /\
  dsatur_possible C20c_PT [(0,0); (1,1); (2,0); (3,1); (4,0); (5,1); (6,2)] 3 = true /\
  length (dsatur_runs 7 C20c_PT []) = 48.
Proof. vm_compute. repeat split; reflexivity. Qed.

(* the heap before the loop on the 5-cycle, and a pop: every node is a candidate *)
Example C20c_ex_heap :
  heap_init C20c_C5 = [((0,2),0); ((0,2),1); ((0,2),2); ((0,2),3); ((0,2),4)] /\
  candidates C20c_C5 [] = [0;1;2;3;4] /\
  heap_pops C20c_C5 [] (heap_init C20c_C5) (0,2) 3.
Proof.
  split; [vm_compute; reflexivity|]. split; [vm_compute; reflexivity|].
  apply (C20c_heap_candidate_pops C20c_C5 [] (heap_init C20c_C5) 3 (C20c_heap_init C20c_C5)).
  vm_compute. tauto.
Qed.

(* ------------------------------------------------------------------ *)
(* pinned statements                                                    *)

Check C20c_machine_never_stuck : forall v,
  (forall col, uncolored v col <> [] -> candidates v col <> []) /\
  (forall col, exists col', dsatur_steps v col col' /\ uncolored v col' = []) /\
  (exists col, dsatur_output v col) /\
  (forall col, dsatur_output v col ->
     ColTotal v col /\ (NoDup (vnodes v) -> length col = length (vnodes v))).
Check C20c_output_proper : forall v col, nodes_ok v -> symmetric v ->
  dsatur_output v col -> ColProper v col.
Check C20c_output_grundy : forall v col, dsatur_steps v [] col ->
  Grundy v col /\ ColRange col (color_count col) /\
  (symmetric v -> color_count col <= max_degree v + 1).
Check C20c_reachable_bipartite : forall v col, nodes_ok v -> symmetric v -> TwoColourableNL v ->
  dsatur_steps v [] col -> color_count col <= 2.
Check C20c_output_bipartite : forall v col, nodes_ok v -> symmetric v -> TwoColourableNL v ->
  dsatur_output v col -> color_count col <= 2.
Check C20c_output_bipartite_strict : forall v col, nodes_ok v -> symmetric v -> TwoColourable v ->
  dsatur_output v col -> color_count col <= 2.
Check C20c_checker_sound_complete : forall v target,
  dsatur_from (length (vnodes v)) v target [] = true <->
  exists col, dsatur_output v col /\ (forall x, In x (vnodes v) -> assoc_col col x = assoc_col target x).
Check C20c_runs_enumerated : forall v col,
  In col (dsatur_runs (length (vnodes v)) v []) <-> dsatur_output v col.
Check C20c_possible_implies_check : forall v target k, nodes_ok v -> symmetric v ->
  ColTotal v target -> dsatur_possible v target k = true ->
  ColProper v target /\ ColRange target k /\ Grundy v target /\ k <= max_degree v + 1 /\
  (TwoColourableNL v -> k <= 2).
Check C20c_possible_implies_coloring_check : forall v target k, VOk v -> symmetric v ->
  ColTotal v target -> dsatur_possible v target k = true -> coloring_check v target k = 0.
Check C20c_heap_init : forall v, heap_ok v [] (heap_init v).
Check C20c_heap_pop_is_candidate : forall v col h s x, heap_ok v col h -> heap_pops v col h s x ->
  In x (candidates v col) /\ s = score v col x.
Check C20c_heap_candidate_pops : forall v col h x, heap_ok v col h -> In x (candidates v col) ->
  heap_pops v col h (score v col x) x.
Check C20c_heap_step : forall v col h s x h', heap_ok v col h -> heap_pops v col h s x ->
  heap_after v col x (next_color v col x) h h' ->
  dsatur_step v col ((x, next_color v col x) :: col) /\ heap_ok v ((x, next_color v col x) :: col) h'.

Print Assumptions C20c_machine_never_stuck.
Print Assumptions C20c_output_proper.
Print Assumptions C20c_output_grundy.
Print Assumptions C20c_reachable_bipartite.
Print Assumptions C20c_output_bipartite.
Print Assumptions C20c_output_bipartite_strict.
Print Assumptions C20c_checker_sound_complete.
Print Assumptions C20c_runs_enumerated.
Print Assumptions C20c_possible_implies_check.
Print Assumptions C20c_possible_implies_coloring_check.
Print Assumptions C20c_heap_init.
Print Assumptions C20c_heap_pop_is_candidate.
Print Assumptions C20c_heap_candidate_pops.
Print Assumptions C20c_heap_step.
Print Assumptions C20c_views_ok.
Print Assumptions C20c_ex_C5.
Print Assumptions C20c_ex_C5_output.
Print Assumptions C20c_ex_C6.
Print Assumptions C20c_ex_PT.
Print Assumptions C20c_ex_heap.
