(* C13b — petgraph's VF2 (src/algo/isomorphism.rs), mirrored in Model/Vf2M.v, against the definition
   of (sub)graph isomorphism of C13 (Model/IsoM.v, Spec/IsoSpec.v).
   This file holds only the property theorems (closed by [exact]), their pinned statements
   ([Check]), their assumptions, and non-vacuity examples.

   The mirror (Model/Vf2M.v): [vf2_state] = Vf2State (mapping with None for usize::MAX, out, ins,
   out_size, ins_size, adjacency matrix, generation); [push_mapping] / [pop_mapping];
   [next_out_index] / [next_in_index] / [next_rest_index]; [is_feasible]; [next_candidate];
   [next_from_ix]; the frame stack machine [loop_step] / [isomorphisms]; [try_match]; the
   GraphMatcher iterator collected by [vf2_all subgraph nm em g0 g1] (the mappings in the order of
   the yields); the wrappers [vf2_is_iso] (is_isomorphic_matching), [vf2_is_sub_iso]
   (is_isomorphic_subgraph_matching), [vf2_is_iso_plain] (is_isomorphic), [vf2_is_sub_iso_plain]
   (is_isomorphic_subgraph), [vf2_sub_iter] (subgraph_isomorphisms_iter).

   Vocabulary:
     wf g                 endpoints are nodes, no parallel edges (C13_wf_def); erange g: the first half
     svalid g st          the invariant of one Vf2State (C13b_side_invariant_def)
     pvalid g0 g1 st      the invariant of the pair of states (C13b_state_invariant_def)
     mapped st a          mapping[a] is set
     in_open g st ol i    i is in the candidate list ol (Tout / Tin / the unmapped nodes) of st
     outs .. d st         the depth-first enumeration below st (C13b_enumeration_unfold)
     vf2_spec ..          the enumeration from the initial states ([[]] when the first graph is empty)
     extends f st         the mapping of st is a restriction of f
     reach g0 g1 st       st is the initial pair of states or obtained from it by pushing pairs of
                          unmapped nodes
     sub_isos, embedding, is_iso, is_sub_iso: C13 *)
From PG Require Import Lib.Io Model.IsoM Model.Vf2M Spec.IsoSpec
                       Proofs.IsoRefP Proofs.IsoRelabelP
                       Proofs.Vf2BaseP Proofs.Vf2StateP Proofs.Vf2MachP Proofs.Vf2FeasP
                       Proofs.Vf2SoundP Proofs.Vf2NoDupP Proofs.Vf2ComplP Proofs.Vf2TermP Proofs.Vf2P.
From Coq Require Import Permutation.

(* ------------------------------------------------------------------ *)
(* V1: the state invariant                                              *)

Theorem C13b_side_invariant_def : forall g st,
  svalid g st <->
  length (vs_mapping st) = s_n g /\
  length (vs_out st) = s_n g /\
  length (vs_ins st) = (if s_dir g then s_n g else 0) /\
  (forall i, nth i (vs_out st) 0 <= vs_gen st) /\
  (forall i, nth i (vs_ins st) 0 <= vs_gen st) /\
  vs_out_size st = count_nz (vs_out st) /\
  vs_ins_size st = count_nz (vs_ins st) /\
  vs_gen st = count_some (vs_mapping st) /\
  vs_adj st = adjacency_matrix g /\
  (forall i, nth i (vs_out st) 0 <> 0 <-> exists a, mapped st a /\ adjb g a i = true) /\
  (s_dir g = true ->
   forall i, nth i (vs_ins st) 0 <> 0 <-> exists a, mapped st a /\ adjb g i a = true).
Proof. exact svalid_iff. Qed.

Theorem C13b_state_invariant_def : forall g0 g1 st,
  pvalid g0 g1 st <->
  svalid g0 (fst st) /\ svalid g1 (snd st) /\
  (forall a b, a < s_n g0 -> b < s_n g1 ->
     (nth a (vs_mapping (fst st)) None = Some b <-> nth b (vs_mapping (snd st)) None = Some a)) /\
  (forall a b, nth a (vs_mapping (fst st)) None = Some b -> b < s_n g1) /\
  (forall a b, nth b (vs_mapping (snd st)) None = Some a -> a < s_n g0) /\
  vs_gen (fst st) = vs_gen (snd st).
Proof. exact pvalid_iff. Qed.

Theorem C13b_new_valid : forall g0 g1, pvalid g0 g1 (vs_new g0, vs_new g1).
Proof. exact pvalid_new. Qed.

(* pushing a pair of unmapped nodes keeps the invariant *)
Theorem C13b_push_valid : forall g0 g1 st n0 n1, erange g0 -> erange g1 -> pvalid g0 g1 st ->
  n0 < s_n g0 -> n1 < s_n g1 ->
  nth n0 (vs_mapping (fst st)) None = None -> nth n1 (vs_mapping (snd st)) None = None ->
  pvalid g0 g1 (push_state g0 g1 st n0 n1).
Proof. exact pvalid_push. Qed.

(* pop_mapping undoes push_mapping: the state is restored exactly *)
Theorem C13b_pop_push_mapping : forall g st from to, erange g -> svalid g st ->
  from < s_n g -> nth from (vs_mapping st) None = None ->
  pop_mapping g (push_mapping g st from to) from = st.
Proof. exact pop_push_mapping. Qed.

Theorem C13b_pop_push_state : forall g0 g1 st n0 n1, erange g0 -> erange g1 -> pvalid g0 g1 st ->
  n0 < s_n g0 -> n1 < s_n g1 ->
  nth n0 (vs_mapping (fst st)) None = None -> nth n1 (vs_mapping (snd st)) None = None ->
  pop_state g0 g1 (push_state g0 g1 st n0 n1) n0 n1 = st.
Proof. exact pop_push_state. Qed.

(* the two mappings are mutually inverse partial injections *)
Theorem C13b_mappings_inverse : forall g0 g1 st, pvalid g0 g1 st ->
  (forall a b, nth a (vs_mapping (fst st)) None = Some b <-> nth b (vs_mapping (snd st)) None = Some a) /\
  (forall a a' b, nth a (vs_mapping (fst st)) None = Some b ->
                  nth a' (vs_mapping (fst st)) None = Some b -> a = a') /\
  (forall a b b', nth b (vs_mapping (snd st)) None = Some a ->
                  nth b' (vs_mapping (snd st)) None = Some a -> b = b').
Proof. exact pvalid_inverse. Qed.

(* the generation stamps mark exactly the frontier: the candidate list Tout (Tin) is the set of
   unmapped successors (predecessors) of mapped nodes *)
Theorem C13b_frontier_out : forall g st i, svalid g st ->
  (in_open g st OlOut i = true <->
   nth i (vs_mapping st) None = None /\ exists a, mapped st a /\ adjb g a i = true).
Proof. exact frontier_out. Qed.

Theorem C13b_frontier_in : forall g st i, svalid g st -> s_dir g = true ->
  (in_open g st OlIn i = true <->
   nth i (vs_mapping st) None = None /\ exists a, mapped st a /\ adjb g i a = true).
Proof. exact frontier_in. Qed.

(* the reachable states: the initial pair, closed under pushing a pair of unmapped nodes (the only
   pushes the search makes: C13b_search_pushes_unmapped); on them the invariant holds and
   pop_state undoes push_state *)
Theorem C13b_reach_valid : forall g0 g1 st, erange g0 -> erange g1 -> reach g0 g1 st -> pvalid g0 g1 st.
Proof. exact reach_pvalid. Qed.

Theorem C13b_reach_pop_push : forall g0 g1 st n0 n1, erange g0 -> erange g1 -> reach g0 g1 st ->
  n0 < s_n g0 -> n1 < s_n g1 ->
  nth n0 (vs_mapping (fst st)) None = None -> nth n1 (vs_mapping (snd st)) None = None ->
  pop_state g0 g1 (push_state g0 g1 st n0 n1) n0 n1 = st.
Proof. exact reach_pop_push. Qed.

Theorem C13b_search_pushes_unmapped : forall g0 g1 st n0 n1 ol x, pvalid g0 g1 st ->
  next_candidate g0 g1 st = Some (n0, n1, ol) ->
  In x (cand_iter g1 (s_n g1) (snd st) ol n1) ->
  n0 < s_n g0 /\ x < s_n g1 /\
  nth n0 (vs_mapping (fst st)) None = None /\ nth x (vs_mapping (snd st)) None = None.
Proof. exact search_pushes_unmapped. Qed.

(* ------------------------------------------------------------------ *)
(* the frame stack machine is a depth-first enumeration                 *)

(* the enumeration below a state: the first candidate pair (n0, n1) of next_candidate, then n0
   against every later node of the same list of the second graph; a feasible pair is pushed, a
   complete mapping is reported, the search goes deeper when the cardinality test passes *)
Theorem C13b_enumeration_unfold : forall sem subgraph nm em g0 g1 d st,
  outs sem subgraph nm em g0 g1 (S d) st =
  match next_candidate g0 g1 st with
  | None => []
  | Some (n0, n1, ol) =>
      flat_map (fun x =>
                  if is_feasible sem nm em g0 g1 st n0 x then
                    (if is_complete (fst (push_state g0 g1 st n0 x))
                     then [mapping_out (fst (push_state g0 g1 st n0 x))] else []) ++
                    (if card_ok subgraph (push_state g0 g1 st n0 x)
                     then outs sem subgraph nm em g0 g1 d (push_state g0 g1 st n0 x) else [])
                  else [])
               (cand_iter g1 (s_n g1) (snd st) ol n1)
  end.
Proof. exact outs_unfold. Qed.

Theorem C13b_enumeration_candidates : forall g0 g1 st n0 n1 ol, pvalid g0 g1 st ->
  next_candidate g0 g1 st = Some (n0, n1, ol) ->
  cand_iter g1 (s_n g1) (snd st) ol n1 =
  n1 :: filter (in_open g1 (snd st) ol) (seq (n1 + 1) (s_n g1 - n1 - 1)).
Proof. exact outs_candidates. Qed.

(* whatever the fuel: when the collected iterator answers, it answers the enumeration, in order *)
Theorem C13b_iterator_is_enumeration : forall F subgraph nm em g0 g1 l, erange g0 -> erange g1 ->
  vf2_all_fuel F subgraph nm em g0 g1 = Ok l -> l = vf2_spec true subgraph nm em g0 g1.
Proof. exact vf2_all_fuel_spec. Qed.

(* the first call of isomorphisms (try_match) answers the first mapping of the enumeration *)
Theorem C13b_first_call : forall sem subgraph nm em g0 g1 F r, erange g0 -> erange g1 ->
  isomorphisms sem subgraph nm em g0 g1 F (vs_new g0, vs_new g1) [Outer] = Ok r ->
  fst (fst r) = hd_error (vf2_spec sem subgraph nm em g0 g1).
Proof. exact isomorphisms_first. Qed.

(* the fuel of the model suffices: OutOfFuel does not happen *)
Theorem C13b_iterator_terminates : forall subgraph nm em g0 g1, erange g0 -> erange g1 ->
  vf2_all subgraph nm em g0 g1 = Ok (vf2_spec true subgraph nm em g0 g1).
Proof. exact vf2_all_Ok. Qed.

(* ------------------------------------------------------------------ *)
(* V2: soundness                                                        *)

(* a pair accepted by is_feasible extends a partial embedding to a partial embedding *)
Theorem C13b_feasible_sound : forall sem nm em g0 g1, wf g0 -> wf g1 -> s_dir g0 = s_dir g1 ->
  forall st n0 n1, pvalid g0 g1 st -> pemb sem nm em g0 g1 st ->
  n0 < s_n g0 -> n1 < s_n g1 ->
  nth n0 (vs_mapping (fst st)) None = None -> nth n1 (vs_mapping (snd st)) None = None ->
  is_feasible sem nm em g0 g1 st n0 n1 = true ->
  pemb sem nm em g0 g1 (push_state g0 g1 st n0 n1).
Proof. exact feasible_sound. Qed.

Theorem C13b_vf2_all_sound : forall subgraph nm em g0 g1 l m,
  wf g0 -> wf g1 -> s_dir g0 = s_dir g1 ->
  vf2_all subgraph nm em g0 g1 = Ok l -> In m l -> In m (sub_isos nm em g0 g1).
Proof. exact vf2_all_sound. Qed.

Theorem C13b_vf2_all_embedding : forall subgraph nm em g0 g1 l m,
  wf g0 -> wf g1 -> s_dir g0 = s_dir g1 ->
  vf2_all subgraph nm em g0 g1 = Ok l -> In m l ->
  length m = s_n g0 /\ embedding nm em g0 g1 (fun a => nth a m 0).
Proof. exact vf2_all_embedding. Qed.

(* the wrappers is_isomorphic* answer true only for graphs of equal order that are isomorphic *)
Theorem C13b_is_iso_true : forall nm em g0 g1, wf g0 -> wf g1 -> s_dir g0 = s_dir g1 ->
  vf2_is_iso nm em g0 g1 = Ok true -> is_iso nm em g0 g1 = true.
Proof. exact vf2_is_iso_true. Qed.

(* ------------------------------------------------------------------ *)
(* V3: no repetition                                                    *)

Theorem C13b_vf2_all_nodup : forall subgraph nm em g0 g1 l, erange g0 -> erange g1 ->
  vf2_all subgraph nm em g0 g1 = Ok l -> NoDup l.
Proof. exact vf2_all_NoDup. Qed.

(* ------------------------------------------------------------------ *)
(* V4: completeness                                                     *)

(* for an embedding f that extends the state: the pair (n0, f n0) is feasible (the neighbour
   counts never reject it), the cardinality test passes, f n0 is among the candidates tried *)
Theorem C13b_feasible_complete : forall (sem subgraph : bool) nm em g0 g1,
  wf g0 -> wf g1 -> s_dir g0 = s_dir g1 ->
  forall f, embedding (nmE sem nm) (emE sem em) g0 g1 f ->
  (subgraph = false -> s_n g0 = s_n g1) ->
  forall st, pvalid g0 g1 st -> extends f st ->
  forall n0, n0 < s_n g0 -> nth n0 (vs_mapping (fst st)) None = None ->
  is_feasible sem nm em g0 g1 st n0 (f n0) = true.
Proof. exact feasible_ext. Qed.

Theorem C13b_cardinality_complete : forall (sem subgraph : bool) (nm em : Z) g0 g1,
  s_dir g0 = s_dir g1 ->
  forall f, embedding (nmE sem nm) (emE sem em) g0 g1 f ->
  (subgraph = false -> s_n g0 = s_n g1) ->
  forall st, pvalid g0 g1 st -> extends f st -> card_ok subgraph st = true.
Proof. exact card_ok_ext. Qed.

Theorem C13b_candidates_complete : forall (sem subgraph : bool) (nm em : Z) g0 g1,
  s_dir g0 = s_dir g1 ->
  forall f, embedding (nmE sem nm) (emE sem em) g0 g1 f ->
  (subgraph = false -> s_n g0 = s_n g1) ->
  forall st, pvalid g0 g1 st -> extends f st ->
  forall n0 n1 ol, next_candidate g0 g1 st = Some (n0, n1, ol) ->
  In (f n0) (cand_iter g1 (s_n g1) (snd st) ol n1).
Proof. exact candidate_covers. Qed.

Theorem C13b_vf2_all_complete : forall subgraph nm em g0 g1 l m,
  wf g0 -> wf g1 -> s_dir g0 = s_dir g1 ->
  (subgraph = false -> s_n g0 = s_n g1) ->
  vf2_all subgraph nm em g0 g1 = Ok l -> In m (sub_isos nm em g0 g1) -> In m l.
Proof. exact vf2_all_complete. Qed.

(* ------------------------------------------------------------------ *)
(* together                                                             *)

(* the iterator yields every member of sub_isos exactly once (subgraph matching: always;
   isomorphism matching: between graphs of the same order, as its callers guarantee) *)
Theorem C13b_vf2_all_total : forall subgraph nm em g0 g1,
  wf g0 -> wf g1 -> s_dir g0 = s_dir g1 ->
  (subgraph = false -> s_n g0 = s_n g1) ->
  exists l, vf2_all subgraph nm em g0 g1 = Ok l /\ NoDup l /\
            Permutation l (sub_isos nm em g0 g1).
Proof. exact vf2_all_total. Qed.

Theorem C13b_sub_iter_total : forall nm em g0 g1, wf g0 -> wf g1 -> s_dir g0 = s_dir g1 ->
  exists o, vf2_sub_iter nm em g0 g1 = Ok o /\
    match o with
    | Some l => NoDup l /\ Permutation l (sub_isos nm em g0 g1)
    | None => sub_isos nm em g0 g1 = []
    end.
Proof. exact vf2_sub_iter_total. Qed.

Theorem C13b_is_iso_total : forall nm em g0 g1, wf g0 -> wf g1 -> s_dir g0 = s_dir g1 ->
  vf2_is_iso nm em g0 g1 = Ok (is_iso nm em g0 g1).
Proof. exact vf2_is_iso_total. Qed.

Theorem C13b_is_sub_iso_total : forall nm em g0 g1, wf g0 -> wf g1 -> s_dir g0 = s_dir g1 ->
  vf2_is_sub_iso nm em g0 g1 = Ok (is_sub_iso nm em g0 g1).
Proof. exact vf2_is_sub_iso_total. Qed.

Theorem C13b_is_iso_plain_total : forall g0 g1, wf g0 -> wf g1 -> s_dir g0 = s_dir g1 ->
  vf2_is_iso_plain g0 g1 = Ok (is_iso 0 0 g0 g1).
Proof. exact vf2_is_iso_plain_total. Qed.

Theorem C13b_is_sub_iso_plain_total : forall g0 g1, wf g0 -> wf g1 -> s_dir g0 = s_dir g1 ->
  vf2_is_sub_iso_plain g0 g1 = Ok (is_sub_iso 0 0 g0 g1).
Proof. exact vf2_is_sub_iso_plain_total. Qed.

(* ------------------------------------------------------------------ *)
(* non-vacuity                                                          *)

Definition mkg (dir : bool) (n : nat) (es : list (nat * nat)) : sgraph6 :=
  mkSg dir (repeat 0%Z n) (map (fun st => (fst st, snd st, 0%Z)) es).
Definition p3 := mkg false 3 [(0,1);(1,2)].
Definition c5 := mkg false 5 [(0,1);(1,2);(2,3);(3,4);(4,0)].
Definition k33 := mkg false 6 [(0,3);(0,4);(0,5);(1,3);(1,4);(1,5);(2,3);(2,4);(2,5)].
Definition prism := mkg false 6 [(0,1);(1,2);(2,0);(3,4);(4,5);(5,3);(0,3);(1,4);(2,5)].
Definition dmix := mkg true 5 [(0,1);(1,0);(1,2);(2,2);(3,2);(3,4);(4,0)].
Definition dp3 := mkg true 3 [(0,1);(1,2)].
Definition wp3 := mkSg false [1;2;3]%Z [(0,1,5%Z);(1,2,8%Z)].
Definition wc5 := mkSg false [7;4;1;6;2]%Z [(0,1,1%Z);(1,2,2%Z);(2,3,3%Z);(3,4,4%Z);(4,0,6%Z)].

(* the hypotheses of the theorems hold of these graphs *)
Example C13b_ex_hyps :
  wf p3 /\ wf c5 /\ wf k33 /\ wf prism /\ wf dmix /\ wf dp3 /\ wf wp3 /\ wf wc5 /\
  s_dir p3 = s_dir c5 /\ s_dir dp3 = s_dir dmix /\ s_n k33 = s_n prism.
Proof.
  repeat (split; [apply wfb_sound; vm_compute; reflexivity|]).
  repeat split; reflexivity.
Qed.

(* what the functions return there *)
Example C13b_ex_results :
  vf2_all true 0 0 p3 c5 =
    Ok [[0;1;2]; [0;4;3]; [1;0;4]; [1;2;3]; [2;1;0]; [2;3;4]; [3;2;1]; [3;4;0]; [4;0;1]; [4;3;2]] /\
  sub_isos 0 0 p3 c5 =
    [[0;1;2]; [0;4;3]; [1;0;4]; [1;2;3]; [2;1;0]; [2;3;4]; [3;2;1]; [3;4;0]; [4;0;1]; [4;3;2]] /\
  vf2_all true 0 0 dp3 dmix = Ok [[3;4;0]] /\
  vf2_all true 2 2 wp3 wc5 = Ok [[0;1;2]] /\ sub_isos 2 2 wp3 wc5 = [[0;1;2]] /\
  rmap (@length _) (vf2_all false 0 0 k33 k33) = Ok 72 /\
  vf2_is_iso 0 0 k33 prism = Ok false /\ vf2_is_iso_plain prism prism = Ok true /\
  vf2_is_sub_iso 0 0 p3 c5 = Ok true /\ vf2_is_sub_iso_plain p3 prism = Ok true /\
  vf2_sub_iter 0 0 c5 p3 = Ok None.
Proof. vm_compute. repeat split; reflexivity. Qed.

(* a state in the middle of the search: after pushing 0 -> 1 between p3 and c5 the invariant's
   ingredients read: mappings inverse, Tout = the neighbours of the mapped node, sizes 1 and 2 *)
Example C13b_ex_state :
  let st := push_state p3 c5 (vs_new p3, vs_new c5) 0 1 in
  vs_mapping (fst st) = [Some 1; None; None] /\
  vs_mapping (snd st) = [None; Some 0; None; None; None] /\
  vs_out (fst st) = [0; 1; 0] /\ vs_out (snd st) = [1; 0; 1; 0; 0] /\
  vs_out_size (fst st) = 1 /\ vs_out_size (snd st) = 2 /\
  next_candidate p3 c5 st = Some (1, 0, OlOut) /\
  is_feasible true 0 0 p3 c5 st 1 0 = true /\ is_feasible true 0 0 p3 c5 st 1 3 = false /\
  pop_state p3 c5 st 0 1 = (vs_new p3, vs_new c5).
Proof. vm_compute. repeat split; reflexivity. Qed.

(* why C13b_vf2_all_complete and C13b_vf2_all_total ask for equal orders when subgraph = false: the
   raw GraphMatcher in isomorphism mode between graphs of different orders (no public function
   builds it: is_isomorphic* reject unequal node counts first) yields some embeddings of the smaller
   graph and misses others.  In particular "every mapping yielded with subgraph = false has
   s_n g0 = s_n g1" is false of the raw iterator; it holds of the wrappers (C13b_is_iso_total). *)
Example C13b_ex_raw_iso_mode :
  vf2_all false 0 0 (mkg false 1 []) (mkg false 2 []) = Ok [[0]; [1]] /\
  vf2_all false 0 0 (mkg false 2 []) (mkg false 3 [(0,1)]) = Ok [[2;0]; [2;1]] /\
  sub_isos 0 0 (mkg false 2 []) (mkg false 3 [(0,1)]) = [[0;2]; [1;2]; [2;0]; [2;1]] /\
  vf2_is_iso 0 0 (mkg false 1 []) (mkg false 2 []) = Ok false.
Proof. vm_compute. repeat split; reflexivity. Qed.

(* why wf is asked: with parallel edges of different weights the code meets the most recent edge
   first, the reference the first of the list *)
Example C13b_ex_parallel_edges :
  vf2_is_sub_iso 0 3 (mkSg true [0;0]%Z [(0,1,1%Z)]) (mkSg true [0;0]%Z [(0,1,1%Z);(0,1,2%Z)]) = Ok false /\
  is_sub_iso 0 3 (mkSg true [0;0]%Z [(0,1,1%Z)]) (mkSg true [0;0]%Z [(0,1,1%Z);(0,1,2%Z)]) = true.
Proof. vm_compute. auto. Qed.

(* ------------------------------------------------------------------ *)
Check C13b_side_invariant_def : forall g st,
  svalid g st <->
  length (vs_mapping st) = s_n g /\
  length (vs_out st) = s_n g /\
  length (vs_ins st) = (if s_dir g then s_n g else 0) /\
  (forall i, nth i (vs_out st) 0 <= vs_gen st) /\
  (forall i, nth i (vs_ins st) 0 <= vs_gen st) /\
  vs_out_size st = count_nz (vs_out st) /\
  vs_ins_size st = count_nz (vs_ins st) /\
  vs_gen st = count_some (vs_mapping st) /\
  vs_adj st = adjacency_matrix g /\
  (forall i, nth i (vs_out st) 0 <> 0 <-> exists a, mapped st a /\ adjb g a i = true) /\
  (s_dir g = true ->
   forall i, nth i (vs_ins st) 0 <> 0 <-> exists a, mapped st a /\ adjb g i a = true).
Check C13b_state_invariant_def : forall g0 g1 st,
  pvalid g0 g1 st <->
  svalid g0 (fst st) /\ svalid g1 (snd st) /\
  (forall a b, a < s_n g0 -> b < s_n g1 ->
     (nth a (vs_mapping (fst st)) None = Some b <-> nth b (vs_mapping (snd st)) None = Some a)) /\
  (forall a b, nth a (vs_mapping (fst st)) None = Some b -> b < s_n g1) /\
  (forall a b, nth b (vs_mapping (snd st)) None = Some a -> a < s_n g0) /\
  vs_gen (fst st) = vs_gen (snd st).
Check C13b_new_valid : forall g0 g1, pvalid g0 g1 (vs_new g0, vs_new g1).
Check C13b_push_valid : forall g0 g1 st n0 n1, erange g0 -> erange g1 -> pvalid g0 g1 st ->
  n0 < s_n g0 -> n1 < s_n g1 ->
  nth n0 (vs_mapping (fst st)) None = None -> nth n1 (vs_mapping (snd st)) None = None ->
  pvalid g0 g1 (push_state g0 g1 st n0 n1).
Check C13b_pop_push_mapping : forall g st from to, erange g -> svalid g st ->
  from < s_n g -> nth from (vs_mapping st) None = None ->
  pop_mapping g (push_mapping g st from to) from = st.
Check C13b_pop_push_state : forall g0 g1 st n0 n1, erange g0 -> erange g1 -> pvalid g0 g1 st ->
  n0 < s_n g0 -> n1 < s_n g1 ->
  nth n0 (vs_mapping (fst st)) None = None -> nth n1 (vs_mapping (snd st)) None = None ->
  pop_state g0 g1 (push_state g0 g1 st n0 n1) n0 n1 = st.
Check C13b_mappings_inverse : forall g0 g1 st, pvalid g0 g1 st ->
  (forall a b, nth a (vs_mapping (fst st)) None = Some b <-> nth b (vs_mapping (snd st)) None = Some a) /\
  (forall a a' b, nth a (vs_mapping (fst st)) None = Some b ->
                  nth a' (vs_mapping (fst st)) None = Some b -> a = a') /\
  (forall a b b', nth b (vs_mapping (snd st)) None = Some a ->
                  nth b' (vs_mapping (snd st)) None = Some a -> b = b').
Check C13b_frontier_out : forall g st i, svalid g st ->
  (in_open g st OlOut i = true <->
   nth i (vs_mapping st) None = None /\ exists a, mapped st a /\ adjb g a i = true).
Check C13b_frontier_in : forall g st i, svalid g st -> s_dir g = true ->
  (in_open g st OlIn i = true <->
   nth i (vs_mapping st) None = None /\ exists a, mapped st a /\ adjb g i a = true).
Check C13b_reach_valid : forall g0 g1 st, erange g0 -> erange g1 -> reach g0 g1 st -> pvalid g0 g1 st.
Check C13b_reach_pop_push : forall g0 g1 st n0 n1, erange g0 -> erange g1 -> reach g0 g1 st ->
  n0 < s_n g0 -> n1 < s_n g1 ->
  nth n0 (vs_mapping (fst st)) None = None -> nth n1 (vs_mapping (snd st)) None = None ->
  pop_state g0 g1 (push_state g0 g1 st n0 n1) n0 n1 = st.
Check C13b_search_pushes_unmapped : forall g0 g1 st n0 n1 ol x, pvalid g0 g1 st ->
  next_candidate g0 g1 st = Some (n0, n1, ol) ->
  In x (cand_iter g1 (s_n g1) (snd st) ol n1) ->
  n0 < s_n g0 /\ x < s_n g1 /\
  nth n0 (vs_mapping (fst st)) None = None /\ nth x (vs_mapping (snd st)) None = None.
Check C13b_enumeration_unfold : forall sem subgraph nm em g0 g1 d st,
  outs sem subgraph nm em g0 g1 (S d) st =
  match next_candidate g0 g1 st with
  | None => []
  | Some (n0, n1, ol) =>
      flat_map (fun x =>
                  if is_feasible sem nm em g0 g1 st n0 x then
                    (if is_complete (fst (push_state g0 g1 st n0 x))
                     then [mapping_out (fst (push_state g0 g1 st n0 x))] else []) ++
                    (if card_ok subgraph (push_state g0 g1 st n0 x)
                     then outs sem subgraph nm em g0 g1 d (push_state g0 g1 st n0 x) else [])
                  else [])
               (cand_iter g1 (s_n g1) (snd st) ol n1)
  end.
Check C13b_enumeration_candidates : forall g0 g1 st n0 n1 ol, pvalid g0 g1 st ->
  next_candidate g0 g1 st = Some (n0, n1, ol) ->
  cand_iter g1 (s_n g1) (snd st) ol n1 =
  n1 :: filter (in_open g1 (snd st) ol) (seq (n1 + 1) (s_n g1 - n1 - 1)).
Check C13b_iterator_is_enumeration : forall F subgraph nm em g0 g1 l, erange g0 -> erange g1 ->
  vf2_all_fuel F subgraph nm em g0 g1 = Ok l -> l = vf2_spec true subgraph nm em g0 g1.
Check C13b_first_call : forall sem subgraph nm em g0 g1 F r, erange g0 -> erange g1 ->
  isomorphisms sem subgraph nm em g0 g1 F (vs_new g0, vs_new g1) [Outer] = Ok r ->
  fst (fst r) = hd_error (vf2_spec sem subgraph nm em g0 g1).
Check C13b_iterator_terminates : forall subgraph nm em g0 g1, erange g0 -> erange g1 ->
  vf2_all subgraph nm em g0 g1 = Ok (vf2_spec true subgraph nm em g0 g1).
Check C13b_feasible_sound : forall sem nm em g0 g1, wf g0 -> wf g1 -> s_dir g0 = s_dir g1 ->
  forall st n0 n1, pvalid g0 g1 st -> pemb sem nm em g0 g1 st ->
  n0 < s_n g0 -> n1 < s_n g1 ->
  nth n0 (vs_mapping (fst st)) None = None -> nth n1 (vs_mapping (snd st)) None = None ->
  is_feasible sem nm em g0 g1 st n0 n1 = true ->
  pemb sem nm em g0 g1 (push_state g0 g1 st n0 n1).
Check C13b_vf2_all_sound : forall subgraph nm em g0 g1 l m,
  wf g0 -> wf g1 -> s_dir g0 = s_dir g1 ->
  vf2_all subgraph nm em g0 g1 = Ok l -> In m l -> In m (sub_isos nm em g0 g1).
Check C13b_vf2_all_embedding : forall subgraph nm em g0 g1 l m,
  wf g0 -> wf g1 -> s_dir g0 = s_dir g1 ->
  vf2_all subgraph nm em g0 g1 = Ok l -> In m l ->
  length m = s_n g0 /\ embedding nm em g0 g1 (fun a => nth a m 0).
Check C13b_is_iso_true : forall nm em g0 g1, wf g0 -> wf g1 -> s_dir g0 = s_dir g1 ->
  vf2_is_iso nm em g0 g1 = Ok true -> is_iso nm em g0 g1 = true.
Check C13b_vf2_all_nodup : forall subgraph nm em g0 g1 l, erange g0 -> erange g1 ->
  vf2_all subgraph nm em g0 g1 = Ok l -> NoDup l.
Check C13b_feasible_complete : forall (sem subgraph : bool) nm em g0 g1,
  wf g0 -> wf g1 -> s_dir g0 = s_dir g1 ->
  forall f, embedding (nmE sem nm) (emE sem em) g0 g1 f ->
  (subgraph = false -> s_n g0 = s_n g1) ->
  forall st, pvalid g0 g1 st -> extends f st ->
  forall n0, n0 < s_n g0 -> nth n0 (vs_mapping (fst st)) None = None ->
  is_feasible sem nm em g0 g1 st n0 (f n0) = true.
Check C13b_cardinality_complete : forall (sem subgraph : bool) (nm em : Z) g0 g1,
  s_dir g0 = s_dir g1 ->
  forall f, embedding (nmE sem nm) (emE sem em) g0 g1 f ->
  (subgraph = false -> s_n g0 = s_n g1) ->
  forall st, pvalid g0 g1 st -> extends f st -> card_ok subgraph st = true.
Check C13b_candidates_complete : forall (sem subgraph : bool) (nm em : Z) g0 g1,
  s_dir g0 = s_dir g1 ->
  forall f, embedding (nmE sem nm) (emE sem em) g0 g1 f ->
  (subgraph = false -> s_n g0 = s_n g1) ->
  forall st, pvalid g0 g1 st -> extends f st ->
  forall n0 n1 ol, next_candidate g0 g1 st = Some (n0, n1, ol) ->
  In (f n0) (cand_iter g1 (s_n g1) (snd st) ol n1).
Check C13b_vf2_all_complete : forall subgraph nm em g0 g1 l m,
  wf g0 -> wf g1 -> s_dir g0 = s_dir g1 ->
  (subgraph = false -> s_n g0 = s_n g1) ->
  vf2_all subgraph nm em g0 g1 = Ok l -> In m (sub_isos nm em g0 g1) -> In m l.
Check C13b_vf2_all_total : forall subgraph nm em g0 g1,
  wf g0 -> wf g1 -> s_dir g0 = s_dir g1 ->
  (subgraph = false -> s_n g0 = s_n g1) ->
  exists l, vf2_all subgraph nm em g0 g1 = Ok l /\ NoDup l /\
            Permutation l (sub_isos nm em g0 g1).
Check C13b_sub_iter_total : forall nm em g0 g1, wf g0 -> wf g1 -> s_dir g0 = s_dir g1 ->
  exists o, vf2_sub_iter nm em g0 g1 = Ok o /\
    match o with
    | Some l => NoDup l /\ Permutation l (sub_isos nm em g0 g1)
    | None => sub_isos nm em g0 g1 = []
    end.
Check C13b_is_iso_total : forall nm em g0 g1, wf g0 -> wf g1 -> s_dir g0 = s_dir g1 ->
  vf2_is_iso nm em g0 g1 = Ok (is_iso nm em g0 g1).
Check C13b_is_sub_iso_total : forall nm em g0 g1, wf g0 -> wf g1 -> s_dir g0 = s_dir g1 ->
  vf2_is_sub_iso nm em g0 g1 = Ok (is_sub_iso nm em g0 g1).
Check C13b_is_iso_plain_total : forall g0 g1, wf g0 -> wf g1 -> s_dir g0 = s_dir g1 ->
  vf2_is_iso_plain g0 g1 = Ok (is_iso 0 0 g0 g1).
Check C13b_is_sub_iso_plain_total : forall g0 g1, wf g0 -> wf g1 -> s_dir g0 = s_dir g1 ->
  vf2_is_sub_iso_plain g0 g1 = Ok (is_sub_iso 0 0 g0 g1).

Print Assumptions C13b_side_invariant_def.
Print Assumptions C13b_state_invariant_def.
Print Assumptions C13b_new_valid.
Print Assumptions C13b_push_valid.
Print Assumptions C13b_pop_push_mapping.
Print Assumptions C13b_pop_push_state.
Print Assumptions C13b_mappings_inverse.
Print Assumptions C13b_frontier_out.
Print Assumptions C13b_frontier_in.
Print Assumptions C13b_reach_valid.
Print Assumptions C13b_reach_pop_push.
Print Assumptions C13b_search_pushes_unmapped.
Print Assumptions C13b_enumeration_unfold.
Print Assumptions C13b_enumeration_candidates.
Print Assumptions C13b_iterator_is_enumeration.
Print Assumptions C13b_first_call.
Print Assumptions C13b_iterator_terminates.
Print Assumptions C13b_feasible_sound.
Print Assumptions C13b_vf2_all_sound.
Print Assumptions C13b_vf2_all_embedding.
Print Assumptions C13b_is_iso_true.
Print Assumptions C13b_vf2_all_nodup.
Print Assumptions C13b_feasible_complete.
Print Assumptions C13b_cardinality_complete.
Print Assumptions C13b_candidates_complete.
Print Assumptions C13b_vf2_all_complete.
Print Assumptions C13b_vf2_all_total.
Print Assumptions C13b_sub_iter_total.
Print Assumptions C13b_is_iso_total.
Print Assumptions C13b_is_sub_iso_total.
Print Assumptions C13b_is_iso_plain_total.
Print Assumptions C13b_is_sub_iso_plain_total.
