(* C20f — maximal_cliques, the ALGORITHM (src/algo/maximal_cliques.rs): Bron-Kerbosch with pivoting,
   mirrored in Model/CliqueM.v as a nondeterministic relation (HashSet iteration order is random: the
   pivot is ANY member of p of maximal neighbors().count(), todo is ANY ordering of the filtered
   candidates) plus one executable instance.  Props/C20.v says that the reference
   maximal_cliques_ref is the set of maximal cliques; this file says that EVERY run of the code
   returns that set, each clique once, on every symmetric view with distinct nodes.
   Only property theorems (closed by [exact]), pinned statements, assumptions, examples.

   Vocabulary (Model/CliqueM.v, Proofs/CliqueP.v, Spec/MiscSpec.v):
     bk v r p x out             bron_kerbosch_pivot(g, adj_mat, r, p, x) may return out
     maximal_cliques_run v out  = bk v [] (vnodes v) [] out: maximal_cliques(g) may return out
     maximal_cliques_exec v     the run with pivot = first maximum of p, todo in list order
     Clique v c                 every two different members of c are adjacent (adj_u)
     MaximalClique v c          a clique, listed in node order, that no node of the graph extends
     MaximalCliqueSet v c       the same without "in node order": members are nodes, clique, no node
                                outside extends it  (C20f_MaximalCliqueSet_iff: = set-equal to a MaximalClique)
     same_set c1 c2             the same members
     clique_sort v c            the members of c in node order
     symmetric v                b in neighbors a -> a in neighbors b (self-loops allowed)

   Hypotheses: symmetric v and (for the top-level call) NoDup (vnodes v).  Self-loops are allowed;
   "neighbours are nodes" (VOk) and loop-freeness are NOT needed: p only ever shrinks inside
   vnodes, and p.remove(v) precedes the intersections.  The proof never uses that the pivot has
   maximal count: any pivot in p would be correct. *)
From Coq Require Import Permutation.
From PG Require Import Lib.Io Model.View Model.MiscM Model.CliqueM Spec.Reach Spec.MiscSpec
                       Proofs.MiscColorP Proofs.MiscCheckP Proofs.MiscCliqueP Proofs.CliqueP.

(* ------------------------------------------------------------------ *)
(* K1. the invariant of the recursion                                   *)

(* r a clique of distinct nodes, p and x disjoint and duplicate-free, p + x = the nodes outside r
   adjacent to all of r.  Then whatever the run: every reported set is a maximal clique between r
   and r + p; every maximal clique between r and r + p is reported at exactly one position; no two
   positions hold the same set *)
Theorem C20f_bk_invariant : forall v r p x out, symmetric v ->
  NoDup r -> incl r (vnodes v) -> Clique v r -> NoDup p -> NoDup x ->
  (forall y, In y p -> ~ In y x) ->
  (forall y, In y p \/ In y x <->
             In y (vnodes v) /\ ~ In y r /\ forall a, In a r -> adj_u v a y = true) ->
  bk v r p x out ->
  (forall c, In c out -> MaximalCliqueSet v c /\ NoDup c /\ incl r c /\ incl c (r ++ p)) /\
  (forall c, MaximalCliqueSet v c -> incl r c -> incl c (r ++ p) ->
     exists! i, i < length out /\ same_set (nth i out []) c) /\
  (forall i j, i < j < length out -> ~ same_set (nth i out []) (nth j out [])).
Proof. intros v r p x out. exact (bk_invariant_full v r p x out). Qed.

(* the pivot argument alone: a maximal clique inside r + p contains the pivot or a member of p that
   the filter keeps *)
Theorem C20f_pivot_meets : forall v r p x u c, symmetric v -> bk_inv v r p x -> In u p ->
  MaximalCliqueSet v c -> incl c (r ++ p) ->
  exists w, In w (bk_candidates v u p) /\ In w c.
Proof. intros v r p x u c Hs. exact (pivot_meets v Hs r p x u c). Qed.

(* the vocabulary: a maximal clique as a set = set-equal to a maximal clique in node order *)
Theorem C20f_MaximalCliqueSet_iff : forall v c,
  MaximalCliqueSet v c <-> exists c', MaximalClique v c' /\ same_set c c'.
Proof. intros v c. exact (MaximalCliqueSet_iff v c). Qed.

(* ------------------------------------------------------------------ *)
(* K2. maximal_cliques                                                  *)

Theorem C20f_maximal_cliques_run_correct : forall v out, symmetric v -> NoDup (vnodes v) ->
  maximal_cliques_run v out ->
  (forall c, In c out -> MaximalCliqueSet v c /\ NoDup c) /\
  (forall c, MaximalCliqueSet v c -> exists! i, i < length out /\ same_set (nth i out []) c) /\
  (forall i j, i < j < length out -> ~ same_set (nth i out []) (nth j out [])).
Proof. intros v out. exact (maximal_cliques_run_correct v out). Qed.

(* against the reference of Props/C20.v (C20_cliques_iff): the same sets, each at one position; in
   node order the output is a permutation of the reference *)
Theorem C20f_maximal_cliques_run_ref : forall v out, symmetric v -> NoDup (vnodes v) ->
  maximal_cliques_run v out ->
  (forall c, In c out -> NoDup c /\ exists c', In c' (maximal_cliques_ref v) /\ same_set c c') /\
  (forall c', In c' (maximal_cliques_ref v) ->
     exists! i, i < length out /\ same_set (nth i out []) c') /\
  (forall i j, i < j < length out -> ~ same_set (nth i out []) (nth j out [])) /\
  Permutation (map (clique_sort v) out) (maximal_cliques_ref v) /\
  length out = length (maximal_cliques_ref v).
Proof. intros v out. exact (maximal_cliques_run_vs_ref v out). Qed.

(* the empty graph: one empty clique, like the reference (C20_cliques_empty) *)
Theorem C20f_maximal_cliques_run_empty : forall v out, vnodes v = [] ->
  maximal_cliques_run v out -> out = [[]] /\ maximal_cliques_ref v = [[]].
Proof. intros v out E H. exact (conj (maximal_cliques_run_empty v out E H) (cliques_empty v E)). Qed.

(* ------------------------------------------------------------------ *)
(* K3. runs exist (no hypothesis on the view); the executable instance is one *)

Theorem C20f_bk_total : forall v,
  (forall r p x, exists out, bk v r p x out) /\
  (exists out, maximal_cliques_run v out) /\
  maximal_cliques_run v (maximal_cliques_exec v).
Proof. intros v. exact (bk_total_full v). Qed.

Theorem C20f_maximal_cliques_exec_ref : forall v, symmetric v -> NoDup (vnodes v) ->
  Permutation (map (clique_sort v) (maximal_cliques_exec v)) (maximal_cliques_ref v) /\
  forall c, In c (maximal_cliques_exec v) -> NoDup c /\ incl c (vnodes v).
Proof. intros v. exact (maximal_cliques_exec_ref v). Qed.

(* ------------------------------------------------------------------ *)
(* K4. examples                                                         *)

Definition mkU (nodes : list nat) (adj : list (nat * list nat)) : view :=
  let o := map (fun al => (fst al, map (fun b => (0, b, 1%Z)) (snd al))) adj in
  mkView false (length nodes) None nodes o o 0 0 [].

(* triangle 0-1-2 and the path 2-3-4 *)
Definition C20f_U : view :=
  mkU [0;1;2;3;4] [(0,[1;2]); (1,[0;2]); (2,[1;0;3]); (3,[2;4]); (4,[3])].
(* the same with self-loops at 2 and at 4 *)
Definition C20f_L : view :=
  mkU [0;1;2;3;4] [(0,[1;2]); (1,[0;2]); (2,[2;1;0;3]); (3,[2;4]); (4,[4;3])].
Definition C20f_E : view := mkU [] [].
(* not symmetric: the single edge 0 -> 1 *)
Definition C20f_D : view := mkU [0;1] [(0,[1]); (1,[])].

Example C20f_ex_ok :
  symmetric C20f_U /\ NoDup (vnodes C20f_U) /\ symmetric C20f_L /\ NoDup (vnodes C20f_L) /\
  symmetric C20f_E /\ NoDup (vnodes C20f_E) /\ ~ loop_free C20f_L /\ ~ symmetric C20f_D.
Proof.
  split; [apply symmetricb_ok; vm_compute; reflexivity|].
  split; [apply nodupb_iff; vm_compute; reflexivity|].
  split; [apply symmetricb_ok; vm_compute; reflexivity|].
  split; [apply nodupb_iff; vm_compute; reflexivity|].
  split; [apply symmetricb_ok; vm_compute; reflexivity|].
  split; [apply nodupb_iff; vm_compute; reflexivity|].
  split.
  - intros H. apply (H 2). vm_compute. left; reflexivity.
  - intros H. specialize (H 0 1). unfold step in H. vm_compute in H. apply H. left; reflexivity.
Qed.

(* what the instance returns (members in insertion order, last inserted first) and the reference *)
Example C20f_ex_exec_U :
  maximal_cliques_exec C20f_U = [[3;4]; [3;2]; [1;0;2]] /\
  maximal_cliques_ref C20f_U = [[0;1;2]; [2;3]; [3;4]] /\
  map (clique_sort C20f_U) (maximal_cliques_exec C20f_U) = [[3;4]; [2;3]; [0;1;2]].
Proof. vm_compute. repeat split. Qed.

(* self-loops change nothing but the counts that choose the pivot *)
Example C20f_ex_exec_L :
  maximal_cliques_ref C20f_L = [[0;1;2]; [2;3]; [3;4]] /\
  map (clique_sort C20f_L) (maximal_cliques_exec C20f_L) = [[3;4]; [2;3]; [0;1;2]].
Proof. vm_compute. repeat split. Qed.

Example C20f_ex_exec_E : maximal_cliques_exec C20f_E = [[]] /\ maximal_cliques_ref C20f_E = [[]].
Proof. vm_compute. split; reflexivity. Qed.

(* the invariant's hypotheses hold inside the recursion too: r = [2], p = [3], x = [1;0] is the state
   of the loop in node 2's call once 0 and 1 have been popped (pivot 3, a possible hash order); a
   call from there yields [3;2] *)
Example C20f_ex_inner :
  bk_inv C20f_U [2] [3] [1;0] /\ bk_exec 2 C20f_U [2] [3] [1;0] = [[3;2]].
Proof.
  split; [|vm_compute; reflexivity].
  unfold bk_inv, common_nb.
  split; [repeat constructor; intros []|].
  split; [intros y [<-|[]]; vm_compute; tauto|].
  split; [intros a b [<-|[]] [<-|[]] H; congruence|].
  split; [repeat constructor; intros []|].
  split; [repeat constructor; cbn; intuition congruence|].
  split; [intros y [<-|[]]; cbn; intuition congruence|].
  intros y. split.
  - intros [[<-|[]]|[<-|[<-|[]]]]; (split; [vm_compute; tauto|]);
      (split; [cbn; intuition congruence|]); intros a [<-|[]]; vm_compute; reflexivity.
  - intros [Hy [Hn Ha]]. specialize (Ha 2 (or_introl eq_refl)).
    cbn in Hy. destruct Hy as [<-|[<-|[<-|[<-|[<-|[]]]]]]; cbn; try tauto.
    + exfalso. apply Hn. left; reflexivity.
    + vm_compute in Ha. discriminate Ha.
Qed.

(* the freedom is real: on the single undirected edge 0 - 1 both nodes have count 1; with pivot 0
   (the instance) the clique comes out as [1;0], with pivot 1 as [0;1] *)
Definition C20f_P2 : view := mkU [0;1] [(0,[1]); (1,[0])].
Example C20f_ex_two_runs :
  maximal_cliques_exec C20f_P2 = [[1;0]] /\
  maximal_cliques_run C20f_P2 [[1;0]] /\ maximal_cliques_run C20f_P2 [[0;1]].
Proof.
  split; [vm_compute; reflexivity|]. split.
  - change (maximal_cliques_run C20f_P2 (maximal_cliques_exec C20f_P2)). apply maximal_cliques_exec_run.
  - unfold maximal_cliques_run.
    apply (bk_branch C20f_P2 [] [0;1] [] 1 [1]); [discriminate| | |].
    + split; [right; left; reflexivity|]. intros w [<-|[<-|[]]]; vm_compute; repeat constructor.
    + vm_compute. apply Permutation_refl.
    + change (bk_loop C20f_P2 [] [0;1] [] [1] ([[0;1]] ++ [])). apply bkl_pop; [|apply bkl_done].
      change (bk C20f_P2 [1] [0] [] [[0;1]]).
      apply (bk_branch C20f_P2 [1] [0] [] 0 [0]); [discriminate| | |].
      * split; [left; reflexivity|]. intros w [<-|[]]; vm_compute; repeat constructor.
      * vm_compute. apply Permutation_refl.
      * change (bk_loop C20f_P2 [1] [0] [] [0] ([[0;1]] ++ [])). apply bkl_pop; [|apply bkl_done].
        change (bk C20f_P2 [0;1] [] [] [[0;1]]). apply bk_report.
Qed.

(* without symmetry the statement fails (the documentation asks for an undirected or symmetric
   graph): on the single edge 0 -> 1 the instance returns only {1}; the reference, which reads
   adjacency in either direction, has {0, 1} *)
Example C20f_ex_not_symmetric :
  maximal_cliques_exec C20f_D = [[1]] /\ maximal_cliques_ref C20f_D = [[0;1]].
Proof. vm_compute. split; reflexivity. Qed.

(* ------------------------------------------------------------------ *)
(* Pinned statements and assumptions                                   *)

Check C20f_bk_invariant : forall v r p x out, symmetric v ->
  NoDup r -> incl r (vnodes v) -> Clique v r -> NoDup p -> NoDup x ->
  (forall y, In y p -> ~ In y x) ->
  (forall y, In y p \/ In y x <->
             In y (vnodes v) /\ ~ In y r /\ forall a, In a r -> adj_u v a y = true) ->
  bk v r p x out ->
  (forall c, In c out -> MaximalCliqueSet v c /\ NoDup c /\ incl r c /\ incl c (r ++ p)) /\
  (forall c, MaximalCliqueSet v c -> incl r c -> incl c (r ++ p) ->
     exists! i, i < length out /\ same_set (nth i out []) c) /\
  (forall i j, i < j < length out -> ~ same_set (nth i out []) (nth j out [])).
Check C20f_pivot_meets : forall v r p x u c, symmetric v -> bk_inv v r p x -> In u p ->
  MaximalCliqueSet v c -> incl c (r ++ p) ->
  exists w, In w (bk_candidates v u p) /\ In w c.
Check C20f_MaximalCliqueSet_iff : forall v c,
  MaximalCliqueSet v c <-> exists c', MaximalClique v c' /\ same_set c c'.
Check C20f_maximal_cliques_run_correct : forall v out, symmetric v -> NoDup (vnodes v) ->
  maximal_cliques_run v out ->
  (forall c, In c out -> MaximalCliqueSet v c /\ NoDup c) /\
  (forall c, MaximalCliqueSet v c -> exists! i, i < length out /\ same_set (nth i out []) c) /\
  (forall i j, i < j < length out -> ~ same_set (nth i out []) (nth j out [])).
Check C20f_maximal_cliques_run_ref : forall v out, symmetric v -> NoDup (vnodes v) ->
  maximal_cliques_run v out ->
  (forall c, In c out -> NoDup c /\ exists c', In c' (maximal_cliques_ref v) /\ same_set c c') /\
  (forall c', In c' (maximal_cliques_ref v) ->
     exists! i, i < length out /\ same_set (nth i out []) c') /\
  (forall i j, i < j < length out -> ~ same_set (nth i out []) (nth j out [])) /\
  Permutation (map (clique_sort v) out) (maximal_cliques_ref v) /\
  length out = length (maximal_cliques_ref v).
Check C20f_maximal_cliques_run_empty : forall v out, vnodes v = [] ->
  maximal_cliques_run v out -> out = [[]] /\ maximal_cliques_ref v = [[]].
Check C20f_bk_total : forall v,
  (forall r p x, exists out, bk v r p x out) /\
  (exists out, maximal_cliques_run v out) /\
  maximal_cliques_run v (maximal_cliques_exec v).
Check C20f_maximal_cliques_exec_ref : forall v, symmetric v -> NoDup (vnodes v) ->
  Permutation (map (clique_sort v) (maximal_cliques_exec v)) (maximal_cliques_ref v) /\
  forall c, In c (maximal_cliques_exec v) -> NoDup c /\ incl c (vnodes v).

Print Assumptions C20f_bk_invariant.
Print Assumptions C20f_pivot_meets.
Print Assumptions C20f_MaximalCliqueSet_iff.
Print Assumptions C20f_maximal_cliques_run_correct.
Print Assumptions C20f_maximal_cliques_run_ref.
Print Assumptions C20f_maximal_cliques_run_empty.
Print Assumptions C20f_bk_total.
Print Assumptions C20f_maximal_cliques_exec_ref.
Print Assumptions C20f_ex_ok.
Print Assumptions C20f_ex_exec_U.
Print Assumptions C20f_ex_exec_L.
Print Assumptions C20f_ex_exec_E.
Print Assumptions C20f_ex_inner.
Print Assumptions C20f_ex_two_runs.
Print Assumptions C20f_ex_not_symmetric.
