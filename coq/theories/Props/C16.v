(* C16 — dominators::simple_fast with the Dominators accessors, and articulation_points, over
   the visit-trait view of a graph.  This file holds only the property theorems (closed by
   [exact]), their pinned statements ([Check]), their assumptions, and non-vacuity examples.

   Vocabulary (Spec/Reach.v, Spec/DomSpec.v, Spec/CutSpec.v):
     step v a b, reachable v s x, reach_in P v s x, in_cap v x, VOk v        as in C08
     dpath v a l b        a walk along out-edges from a through the nodes l (in order) to b
     dominates v r a b    b is reachable from r and every walk r -> b visits a (a = b counts)
     sdom v r a b         dominates and a <> b
     idom v r a b         a strict dominator of b that every strict dominator of b dominates
     symmetric v          every adjacency entry has its mirror (an undirected graph)
     connected v a b      reachable
     connected_without v c a b   a path from a to b none of whose nodes is c
     cut_node v c         c is a node of the view and two nodes other than c are connected, but
                          not without c  (removing c separates them: the component count grows)

   Totality of simple_fast includes the convergence of the fixpoint loop within the S (S len)
   sweeps the model grants (Proofs/DomAlgP.v: chains only shrink, and after sweep k no chain
   keeps a node that a walk from the root with fewer than k retreating edges avoids). *)
From PG Require Import Lib.Io Model.View Model.Traversal Model.MatchM Model.CutM
                       Spec.Reach Spec.DomSpec Spec.CutSpec
                       Proofs.DomSpecP Proofs.DomAccP Proofs.DomFinalP Proofs.ArtGraphP Proofs.ArtP.

(* ------------------------------------------------------------------ *)
(* D1: dominance, pure graph theory                                    *)

Theorem C16_dominates_refl : forall v root a, reachable v root a -> dominates v root a a.
Proof. intros v root a H. exact (dominates_refl v root a H). Qed.

Theorem C16_dominates_trans : forall v root a b c,
  dominates v root a b -> dominates v root b c -> dominates v root a c.
Proof. intros v root a b c H1 H2. exact (dominates_trans v root a b c H1 H2). Qed.

Theorem C16_dominates_antisym : forall v root a b,
  dominates v root a b -> dominates v root b a -> a = b.
Proof. intros v root a b H1 H2. exact (dominates_antisym v root a b H1 H2). Qed.

(* the dominators of a node are totally ordered by dominance *)
Theorem C16_dominators_chain : forall v root a b c,
  VOk v -> in_cap v root ->
  dominates v root a c -> dominates v root b c -> dominates v root a b \/ dominates v root b a.
Proof. intros v root a b c Hv Hc H1 H2. exact (dominates_total v root Hv Hc a b c H1 H2). Qed.

Theorem C16_idom_exists : forall v root b,
  VOk v -> in_cap v root -> reachable v root b -> b <> root -> exists a, idom v root a b.
Proof. intros v root b Hv Hc Hr Hne. exact (idom_exists v root Hv Hc b Hr Hne). Qed.

Theorem C16_idom_unique : forall v root a a' b, idom v root a b -> idom v root a' b -> a = a'.
Proof. intros v root a a' b H1 H2. exact (idom_unique v root a a' b H1 H2). Qed.

Theorem C16_root_no_idom : forall v root a, ~ idom v root a root.
Proof. intros v root a. exact (idom_root_none v root a). Qed.

(* ------------------------------------------------------------------ *)
(* D2: simple_fast always returns a map, whose keys are exactly the reachable nodes      *)

Theorem C16_simple_fast_no_panic : forall v root debug,
  VOk v -> in_cap v root -> simple_fast v root debug <> Panic.
Proof. intros v root debug Hv Hc. exact (simple_fast_no_panic v root Hv Hc debug). Qed.

Theorem C16_simple_fast_entries : forall v root debug m,
  VOk v -> in_cap v root -> simple_fast v root debug = Ok m ->
  NoDup (map fst m) /\ (forall x, In x (map fst m) <-> reachable v root x) /\
  assoc_nat m root = Some root.
Proof. intros v root debug m Hv Hc E. exact (simple_fast_entries v root Hv Hc debug m E). Qed.

(* totality: no panic (the expect, the unwraps, the vector accesses) and no fuel exhaustion *)
Theorem C16_simple_fast_total : forall v root debug,
  VOk v -> in_cap v root ->
  exists m, simple_fast v root debug = Ok m /\ NoDup (map fst m) /\
    (forall x, In x (map fst m) <-> reachable v root x) /\ assoc_nat m root = Some root.
Proof. intros v root debug Hv Hc. exact (simple_fast_total v root Hv Hc debug). Qed.

(* ------------------------------------------------------------------ *)
(* D3: every entry of a returned map is the immediate dominator                           *)

Theorem C16_simple_fast_idom : forall v root debug m,
  VOk v -> in_cap v root -> simple_fast v root debug = Ok m ->
  forall x d, x <> root -> assoc_nat m x = Some d -> idom v root d x.
Proof. intros v root debug m Hv Hc E. exact (simple_fast_idom v root Hv Hc debug m E). Qed.

(* ------------------------------------------------------------------ *)
(* D4: the accessors                                                   *)

Theorem C16_immediate_dominator : forall v root debug m,
  VOk v -> in_cap v root -> simple_fast v root debug = Ok m ->
  forall x d, immediate_dominator root m x = Some d <-> idom v root d x.
Proof. intros v root debug m Hv Hc E. exact (sf_immediate_dominator v root debug m Hv Hc E). Qed.

(* dominators(x): exactly the dominators of x, starting with x, ending with the root, each
   followed by its immediate dominator (innermost first) *)
Theorem C16_dominators_of : forall v root debug m,
  VOk v -> in_cap v root -> simple_fast v root debug = Ok m ->
  forall x l, dominators_of root m x = Some l ->
    (forall a, In a l <-> dominates v root a x) /\
    (exists l', l = x :: l') /\
    last l root = root /\
    (forall l1 u w l2, l = l1 ++ u :: w :: l2 -> idom v root w u).
Proof. intros v root debug m Hv Hc E. exact (sf_dominators_of v root debug m Hv Hc E). Qed.

Theorem C16_dominators_of_some : forall v root debug m,
  VOk v -> in_cap v root -> simple_fast v root debug = Ok m ->
  forall x, reachable v root x -> exists l, dominators_of root m x = Some l.
Proof. intros v root debug m Hv Hc E. exact (sf_dominators_of_some v root debug m Hv Hc E). Qed.

(* strict_dominators(x): the strict dominators; it is dominators(x) without its head x *)
Theorem C16_strict_dominators_of : forall v root debug m,
  VOk v -> in_cap v root -> simple_fast v root debug = Ok m ->
  forall x l, strict_dominators_of root m x = Some l ->
    (forall a, In a l <-> sdom v root a x) /\
    (forall l0, dominators_of root m x = Some l0 -> l0 = x :: l).
Proof. intros v root debug m Hv Hc E. exact (sf_strict_dominators_of v root debug m Hv Hc E). Qed.

Theorem C16_immediately_dominated_by : forall v root debug m,
  VOk v -> in_cap v root -> simple_fast v root debug = Ok m ->
  forall x y, In y (immediately_dominated_by m x) <-> idom v root x y.
Proof. intros v root debug m Hv Hc E. exact (sf_immediately_dominated_by v root debug m Hv Hc E). Qed.

Theorem C16_unreachable : forall v root debug m,
  VOk v -> in_cap v root -> simple_fast v root debug = Ok m ->
  forall x, ~ reachable v root x ->
    immediate_dominator root m x = None /\ dominators_of root m x = None /\
    strict_dominators_of root m x = None /\ immediately_dominated_by m x = [].
Proof. intros v root debug m Hv Hc E. exact (sf_unreachable v root debug m Hv Hc E). Qed.

(* ------------------------------------------------------------------ *)
(* A1 + A2: articulation_points returns exactly the cut nodes, each once                  *)

Theorem C16_articulation_points : forall v,
  VOk v -> symmetric v -> (forall n, In n (vnodes v) -> n < vbound v) ->
  exists l, articulation_points v = Ok l /\ NoDup l /\ forall c, In c l <-> cut_node v c.
Proof. intros v Hv Hs Hb. exact (articulation_points_ok v Hv Hs Hb). Qed.

(* ------------------------------------------------------------------ *)
(* Non-vacuity.  C16_dom: 0 -> 1, the diamond 1 -> {2,3} -> 4, 4 -> 5, the back edge 5 -> 0,
   and 6 -> 1 with 6 unreachable from 0.                               *)

Definition C16_dom : view :=
  mkView true 7 (Some 7) [0;1;2;3;4;5;6]
    [(0,[(0,1,0%Z)]); (1,[(1,2,0%Z);(2,3,0%Z)]); (2,[(3,4,0%Z)]); (3,[(4,4,0%Z)]); (4,[(5,5,0%Z)]);
     (5,[(6,0,0%Z)]); (6,[(7,1,0%Z)])]
    [(0,[(6,5,0%Z)]); (1,[(0,0,0%Z);(7,6,0%Z)]); (2,[(1,1,0%Z)]); (3,[(2,1,0%Z)]);
     (4,[(3,2,0%Z);(4,3,0%Z)]); (5,[(5,4,0%Z)])]
    8 8 [].

(* C16_ap (undirected): the triangle 0-1-2 with a self-loop at 1, the bridge 2-3, the 4-cycle
   3-4-5-6, and 7 hanging off 5 by two parallel edges.  Cut nodes: 2, 3, 5. *)
Definition C16_ap : view :=
  let o := [(0,[(0,1,0%Z);(2,2,0%Z)]); (1,[(0,0,0%Z);(1,2,0%Z);(8,1,0%Z)]);
            (2,[(1,1,0%Z);(2,0,0%Z);(3,3,0%Z)]); (3,[(3,2,0%Z);(4,4,0%Z);(7,6,0%Z)]);
            (4,[(4,3,0%Z);(5,5,0%Z)]); (5,[(5,4,0%Z);(6,6,0%Z);(9,7,0%Z);(10,7,0%Z)]);
            (6,[(6,5,0%Z);(7,3,0%Z)]); (7,[(9,5,0%Z);(10,5,0%Z)])] in
  mkView false 8 (Some 8) [0;1;2;3;4;5;6;7] o o 11 11 [].

Example C16_ex_ok :
  VOk C16_dom /\ in_cap C16_dom 0 /\
  VOk C16_ap /\ symmetric C16_ap /\ (forall n, In n (vnodes C16_ap) -> n < vbound C16_ap).
Proof.
  split; [apply vok_check_ok; vm_compute; reflexivity|].
  split; [vm_compute; repeat constructor|].
  split; [apply vok_check_ok; vm_compute; reflexivity|].
  split; [apply sym_check_ok; vm_compute; reflexivity|].
  intros n Hn. apply Nat.ltb_lt.
  assert (H : forallb (fun n => Nat.ltb n (vbound C16_ap)) (vnodes C16_ap) = true) by (vm_compute; reflexivity).
  rewrite forallb_forall in H. exact (H n Hn).
Qed.

Example C16_ex_dominators :
  simple_fast C16_dom 0 true = Ok [(5, 4); (4, 1); (3, 1); (2, 1); (1, 0); (0, 0)]
  /\ (let m := [(5, 4); (4, 1); (3, 1); (2, 1); (1, 0); (0, 0)] in
      immediate_dominator 0 m 5 = Some 4 /\ immediate_dominator 0 m 4 = Some 1 /\
      immediate_dominator 0 m 0 = None /\
      dominators_of 0 m 5 = Some [5; 4; 1; 0] /\ strict_dominators_of 0 m 5 = Some [4; 1; 0] /\
      immediately_dominated_by m 1 = [4; 3; 2] /\
      (* the unreachable node *)
      immediate_dominator 0 m 6 = None /\ dominators_of 0 m 6 = None /\
      strict_dominators_of 0 m 6 = None /\ immediately_dominated_by m 6 = []).
Proof. vm_compute. repeat split; reflexivity. Qed.

Example C16_ex_articulation : articulation_points C16_ap = Ok [5; 3; 2].
Proof. vm_compute. reflexivity. Qed.

(* ------------------------------------------------------------------ *)

Check C16_dominates_refl : forall v root a, reachable v root a -> dominates v root a a.
Check C16_dominates_trans : forall v root a b c,
  dominates v root a b -> dominates v root b c -> dominates v root a c.
Check C16_dominates_antisym : forall v root a b,
  dominates v root a b -> dominates v root b a -> a = b.
Check C16_dominators_chain : forall v root a b c,
  VOk v -> in_cap v root ->
  dominates v root a c -> dominates v root b c -> dominates v root a b \/ dominates v root b a.
Check C16_idom_exists : forall v root b,
  VOk v -> in_cap v root -> reachable v root b -> b <> root -> exists a, idom v root a b.
Check C16_idom_unique : forall v root a a' b, idom v root a b -> idom v root a' b -> a = a'.
Check C16_root_no_idom : forall v root a, ~ idom v root a root.
Check C16_simple_fast_no_panic : forall v root debug,
  VOk v -> in_cap v root -> simple_fast v root debug <> Panic.
Check C16_simple_fast_entries : forall v root debug m,
  VOk v -> in_cap v root -> simple_fast v root debug = Ok m ->
  NoDup (map fst m) /\ (forall x, In x (map fst m) <-> reachable v root x) /\
  assoc_nat m root = Some root.
Check C16_simple_fast_total : forall v root debug,
  VOk v -> in_cap v root ->
  exists m, simple_fast v root debug = Ok m /\ NoDup (map fst m) /\
    (forall x, In x (map fst m) <-> reachable v root x) /\ assoc_nat m root = Some root.
Check C16_simple_fast_idom : forall v root debug m,
  VOk v -> in_cap v root -> simple_fast v root debug = Ok m ->
  forall x d, x <> root -> assoc_nat m x = Some d -> idom v root d x.
Check C16_immediate_dominator : forall v root debug m,
  VOk v -> in_cap v root -> simple_fast v root debug = Ok m ->
  forall x d, immediate_dominator root m x = Some d <-> idom v root d x.
Check C16_dominators_of : forall v root debug m,
  VOk v -> in_cap v root -> simple_fast v root debug = Ok m ->
  forall x l, dominators_of root m x = Some l ->
    (forall a, In a l <-> dominates v root a x) /\
    (exists l', l = x :: l') /\
    last l root = root /\
    (forall l1 u w l2, l = l1 ++ u :: w :: l2 -> idom v root w u).
Check C16_dominators_of_some : forall v root debug m,
  VOk v -> in_cap v root -> simple_fast v root debug = Ok m ->
  forall x, reachable v root x -> exists l, dominators_of root m x = Some l.
Check C16_strict_dominators_of : forall v root debug m,
  VOk v -> in_cap v root -> simple_fast v root debug = Ok m ->
  forall x l, strict_dominators_of root m x = Some l ->
    (forall a, In a l <-> sdom v root a x) /\
    (forall l0, dominators_of root m x = Some l0 -> l0 = x :: l).
Check C16_immediately_dominated_by : forall v root debug m,
  VOk v -> in_cap v root -> simple_fast v root debug = Ok m ->
  forall x y, In y (immediately_dominated_by m x) <-> idom v root x y.
Check C16_unreachable : forall v root debug m,
  VOk v -> in_cap v root -> simple_fast v root debug = Ok m ->
  forall x, ~ reachable v root x ->
    immediate_dominator root m x = None /\ dominators_of root m x = None /\
    strict_dominators_of root m x = None /\ immediately_dominated_by m x = [].
Check C16_articulation_points : forall v,
  VOk v -> symmetric v -> (forall n, In n (vnodes v) -> n < vbound v) ->
  exists l, articulation_points v = Ok l /\ NoDup l /\ forall c, In c l <-> cut_node v c.

Print Assumptions C16_dominates_refl.
Print Assumptions C16_dominates_trans.
Print Assumptions C16_dominates_antisym.
Print Assumptions C16_dominators_chain.
Print Assumptions C16_idom_exists.
Print Assumptions C16_idom_unique.
Print Assumptions C16_root_no_idom.
Print Assumptions C16_simple_fast_no_panic.
Print Assumptions C16_simple_fast_entries.
Print Assumptions C16_simple_fast_total.
Print Assumptions C16_simple_fast_idom.
Print Assumptions C16_immediate_dominator.
Print Assumptions C16_dominators_of.
Print Assumptions C16_dominators_of_some.
Print Assumptions C16_strict_dominators_of.
Print Assumptions C16_immediately_dominated_by.
Print Assumptions C16_unreachable.
Print Assumptions C16_articulation_points.
Print Assumptions C16_ex_ok.
Print Assumptions C16_ex_dominators.
Print Assumptions C16_ex_articulation.
