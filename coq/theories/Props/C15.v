(* C15 — ford_fulkerson returns a feasible, conserved flow whose value is the net flow out of the
   source and the capacity of a minimum cut (hence a maximum flow), never panics and never runs
   out of the model's fuel; greedy_matching and maximum_matching return valid matchings, the
   Matching accessors agree with mate, and an exhaustive-search optimum gives "maximum" a proved
   reference.  This file holds only the property theorems (closed by [exact]), their pinned
   statements ([Check]) and their assumptions. *)
From Coq Require Import Lia ZArith List.
From PG Require Import Lib.Io Model.View Model.MatchM Model.FlowM Spec.Reach Spec.FlowSpec Spec.MatchSpec
  Proofs.FlowSpecP Proofs.FlowP Proofs.MatchAccP Proofs.MatchOptP Proofs.MatchBaseP Proofs.MatchGreedyP
  Proofs.MatchCheckP Proofs.MatchShapeP Proofs.MatchMaxP Proofs.MatchFindJoinP Proofs.MatchEidP Proofs.MatchTotalP.

(* ================================================================== Flow *)
Open Scope Z_scope.

(* F1, weak duality: the value of a feasible conserved flow is the flow across any s-t cut,
   forward minus backward, and is at most the capacity of the cut. *)
Theorem C15_weak_duality : forall E f s t U,
  feasible E f -> conserved E f s t -> is_cut U s t ->
  value E f s = cut_fwd E f U - cut_bwd E f U /\ value E f s <= cut_cap E U.
Proof. exact weak_duality. Qed.

(* F2, the certificate: when no residual edge leaves U the value equals the capacity of U;
   the flow is then a maximum flow and U a minimum cut. *)
Theorem C15_cut_certificate : forall E f s t U,
  feasible E f -> conserved E f s t -> is_cut U s t -> no_residual_out E f U ->
  value E f s = cut_cap E U /\ is_max_flow E f s t /\ is_min_cut E U s t.
Proof. exact max_flow_min_cut. Qed.

(* the boolean check establishes the well-formedness of a concrete network *)
Theorem C15_fok_check : forall v, fok_b v = true -> FOk v.
Proof. exact fok_b_ok. Qed.

(* F3: on a well-formed network and distinct nodes s, t, ford_fulkerson is total (no panic, the
   fuels of the model suffice, wmax is irrelevant) and returns a feasible conserved flow, its value,
   and that value is the capacity of some s-t cut: no flow has a larger value, no cut a smaller
   capacity. *)
Theorem C15_ford_fulkerson : forall v s t wmax,
  FOk v -> In s (vnodes v) -> In t (vnodes v) -> s <> t ->
  exists total flows,
    ford_fulkerson v s t wmax = Ok (total, flows) /\
    length flows = vebound v /\
    feasible (fedges v) (f_of flows) /\
    conserved (fedges v) (f_of flows) s t /\
    total = value (fedges v) (f_of flows) s /\
    exists U, is_cut U s t /\ total = cut_cap (fedges v) U /\
      (forall f', feasible (fedges v) f' -> conserved (fedges v) f' s t -> value (fedges v) f' s <= total) /\
      (forall U', is_cut U' s t -> total <= cut_cap (fedges v) U').
Proof. exact ford_fulkerson_correct. Qed.

(* Non-vacuity: six nodes, an antiparallel pair (edges 2, 3), a parallel pair (4, 5) and an edge of
   capacity zero (9).  The maximum flow 0 -> 5 is 5, less than the capacity 7 out of the source. *)
Definition C15_net : view :=
  mkView true 6 (Some 6%nat) [0;1;2;3;4;5]%nat
    [(0%nat, [(0%nat,1%nat,4);(1%nat,2%nat,3)]);
     (1%nat, [(2%nat,2%nat,2);(4%nat,3%nat,3);(5%nat,3%nat,1)]);
     (2%nat, [(3%nat,1%nat,1);(6%nat,4%nat,2)]);
     (3%nat, [(7%nat,5%nat,3);(9%nat,4%nat,0)]);
     (4%nat, [(8%nat,5%nat,4)]);
     (5%nat, [])]
    [(0%nat, []);
     (1%nat, [(0%nat,0%nat,4);(3%nat,2%nat,1)]);
     (2%nat, [(1%nat,0%nat,3);(2%nat,1%nat,2)]);
     (3%nat, [(4%nat,1%nat,3);(5%nat,1%nat,1)]);
     (4%nat, [(6%nat,2%nat,2);(9%nat,3%nat,0)]);
     (5%nat, [(7%nat,3%nat,3);(8%nat,4%nat,4)])]
    10 10
    [(0%nat,0%nat,1%nat,4);(1%nat,0%nat,2%nat,3);(2%nat,1%nat,2%nat,2);(4%nat,1%nat,3%nat,3);(5%nat,1%nat,3%nat,1);(3%nat,2%nat,1%nat,1);(6%nat,2%nat,4%nat,2);(7%nat,3%nat,5%nat,3);(9%nat,3%nat,4%nat,0);(8%nat,4%nat,5%nat,4)].

Example C15_flow_nonvacuous :
  FOk C15_net /\
  ford_fulkerson C15_net 0 5 1000 = Ok (5, [3; 2; 0; 0; 3; 0; 2; 3; 2; 0]) /\
  ford_fulkerson C15_net 2 3 1000 = Ok (1, [0; 0; 0; 1; 1; 0; 0; 0; 0; 0]) /\
  ford_fulkerson C15_net 5 0 1000 = Ok (0, [0; 0; 0; 0; 0; 0; 0; 0; 0; 0]) /\
  sumZ fe_cap (out_fedges C15_net 0) = 7 /\
  value (fedges C15_net) (f_of [3; 2; 0; 0; 3; 0; 2; 3; 2; 0]) 0 = 5.
Proof.
  split; [apply fok_b_ok; vm_compute; reflexivity|].
  repeat split; vm_compute; reflexivity.
Qed.

Close Scope Z_scope.

(* ================================================================== Matching *)

(* M1, the accessors: edges() lists the pairs i < mate i, nodes() the matched nodes, and a
   symmetric mate has twice as many nodes as edges. *)
Theorem C15_m_edges : forall m i j, In (i, j) (m_edges m) <-> (i < j /\ m_mate m i = Some j).
Proof. exact m_edges_spec. Qed.

Theorem C15_m_nodes : forall m i, In i (m_nodes m) <-> exists j, m_mate m i = Some j.
Proof. exact m_nodes_spec. Qed.

Theorem C15_m_len : forall m, msym m -> 2 * length (m_edges m) = length (m_nodes m).
Proof. exact m_edges_nodes_len. Qed.

(* no node is matched twice: the endpoints of edges() are pairwise distinct *)
Theorem C15_m_endpoints : forall m, msym m -> NoDup (endpoints (m_edges m)).
Proof. exact m_edges_endpoints_nodup. Qed.

(* the boolean check establishes the well-formedness the matching code needs *)
Theorem C15_mok_check : forall v, mok_b v = true -> MOk v.
Proof. exact mok_b_ok. Qed.

(* M2: greedy_matching is total and returns a valid matching. *)
Theorem C15_greedy_valid : forall v, MOk v ->
  exists m n, greedy_inner v = Ok (m, n) /\ valid_matching v m n.
Proof. exact greedy_inner_valid. Qed.

(* plain VOk is not enough: with node_bound = 0 greedy_matching panics *)
Theorem C15_greedy_needs_bound : exists v, VOk v /\ greedy_inner v = Panic.
Proof. exact greedy_needs_bound. Qed.

(* M3: maximum_matching returns a valid matching whenever it returns, on views whose edge ids
   identify edges (EidOk) ... *)
Theorem C15_maximum_matching_valid : forall v debug m n,
  MOk v -> EidOk v -> maximum_matching v debug = Ok (m, n) -> valid_matching v m n.
Proof. exact maximum_matching_valid. Qed.

(* ... and it is total (no panic, the fuels of the model suffice) when moreover every index below
   node_bound fits the visit map (CapOk) *)
Theorem C15_maximum_matching_total : forall v debug,
  MOk v -> EidOk v -> CapOk v ->
  exists m n, maximum_matching v debug = Ok (m, n) /\ valid_matching v m n.
Proof. exact maximum_matching_total. Qed.

(* neither hypothesis can be dropped: with all edge ids equal the stale LFlag labels of an earlier
   blossom make find_join pick a wrong join and the result is not a matching (10 nodes);
   with a visit map shorter than node_bound the search panics *)
Theorem C15_maximum_matching_needs_EidOk :
  exists v m n, MOk v /\ maximum_matching v true = Ok (m, n) /\ ~ valid_matching v m n.
Proof. exact maximum_matching_needs_EidOk. Qed.

Theorem C15_maximum_matching_needs_CapOk :
  exists v, MOk v /\ EidOk v /\ maximum_matching v true = Panic.
Proof. exact maximum_matching_needs_CapOk. Qed.

(* boolean checks of the hypotheses and of the conclusion, for concrete views and results *)
Theorem C15_eid_check : forall v, eid_ok_b v = true -> EidOk v.
Proof. exact eid_ok_b_ok. Qed.
Theorem C15_cap_check : forall v, cap_ok_b v = true -> CapOk v.
Proof. exact cap_ok_b_ok. Qed.
Theorem C15_valid_check : forall v m n, valid_matching_b v m n = true -> valid_matching v m n.
Proof. exact valid_matching_b_ok. Qed.

(* M4: the exhaustive search is the size of some matching, and no matching is larger. *)
Theorem C15_mms_attained : forall nodes adj,
  exists M, is_matching nodes adj M /\ length M = max_matching_size nodes adj.
Proof. exact mms_attained. Qed.

Theorem C15_mms_upper : forall nodes adj M,
  is_matching nodes adj M -> length M <= max_matching_size nodes adj.
Proof. exact mms_upper. Qed.

(* M5: a matching of that size is maximum; for mate vectors of a view: *)
Theorem C15_mms_is_maximum : forall nodes adj M,
  is_matching nodes adj M -> length M = max_matching_size nodes adj -> is_maximum nodes adj M.
Proof. exact mms_is_maximum. Qed.

Theorem C15_valid_is_matching : forall v m n, VOk v -> valid_matching v m n ->
  is_matching (vnodes v) (vadj v) (m_edges m) /\ length (m_edges m) = n.
Proof. exact valid_is_matching. Qed.

Theorem C15_valid_max_is_maximum : forall v m n, VOk v -> valid_matching v m n ->
  n = max_matching_size (vnodes v) (vadj v) ->
  forall m' n', valid_matching v m' n' -> n' <= n.
Proof. exact valid_max_is_maximum. Qed.

(* Non-vacuity: a 5-cycle 0-1-2-3-4-0 with pendant nodes 5 (on 0) and 6 (on 2).  The view satisfies
   every hypothesis; greedy finds 2 pairs, maximum_matching 3, which is the exhaustive optimum, so
   its result is a maximum matching. *)
Example C15_matching_nonvacuous :
  MOk ex_view /\ EidOk ex_view /\ CapOk ex_view /\ vsymmetric ex_view /\
  max_matching_size (vnodes ex_view) (vadj ex_view) = 3 /\
  (exists m, greedy_inner ex_view = Ok (m, 2) /\ valid_matching ex_view m 2) /\
  (exists m, maximum_matching ex_view true = Ok (m, 3) /\ valid_matching ex_view m 3 /\
             m_edges m <> [] /\
             forall m' n', valid_matching ex_view m' n' -> n' <= 3).
Proof.
  split; [exact ex_view_mok|]. split; [exact ex_view_eid|].
  split; [apply cap_ok_b_ok; vm_compute; reflexivity|].
  split.
  { intros i j Hj. apply mem_In. apply mem_In in Hj.
    assert (Hi : i < 7 \/ 7 <= i) by lia. destruct Hi as [Hi|Hi].
    - do 7 (destruct i as [|i]; [revert Hj; vm_compute; intros Hj;
        repeat (destruct j as [|j]; [first [discriminate Hj | reflexivity]|]); discriminate Hj|]). lia.
    - exfalso. do 7 (destruct i as [|i]; [lia|]). vm_compute in Hj. discriminate. }
  split; [vm_compute; reflexivity|].
  split.
  { eexists. split; [vm_compute; reflexivity | apply valid_matching_b_ok; vm_compute; reflexivity]. }
  eexists. split; [vm_compute; reflexivity|].
  assert (Hv : valid_matching ex_view [Some 1; Some 0; Some 6; Some 4; Some 3; None; Some 2] 3)
    by (apply valid_matching_b_ok; vm_compute; reflexivity).
  split; [exact Hv|]. split; [vm_compute; discriminate|].
  apply (valid_max_is_maximum ex_view _ 3 (proj1 ex_view_mok) Hv). vm_compute. reflexivity.
Qed.

(* ================================================================== pinned statements *)
Open Scope Z_scope.
Check C15_weak_duality : forall E f s t U,
  feasible E f -> conserved E f s t -> is_cut U s t ->
  value E f s = cut_fwd E f U - cut_bwd E f U /\ value E f s <= cut_cap E U.
Check C15_cut_certificate : forall E f s t U,
  feasible E f -> conserved E f s t -> is_cut U s t -> no_residual_out E f U ->
  value E f s = cut_cap E U /\ is_max_flow E f s t /\ is_min_cut E U s t.
Check C15_fok_check : forall v, fok_b v = true -> FOk v.
Check C15_ford_fulkerson : forall v s t wmax,
  FOk v -> In s (vnodes v) -> In t (vnodes v) -> s <> t ->
  exists total flows,
    ford_fulkerson v s t wmax = Ok (total, flows) /\
    length flows = vebound v /\
    feasible (fedges v) (f_of flows) /\
    conserved (fedges v) (f_of flows) s t /\
    total = value (fedges v) (f_of flows) s /\
    exists U, is_cut U s t /\ total = cut_cap (fedges v) U /\
      (forall f', feasible (fedges v) f' -> conserved (fedges v) f' s t -> value (fedges v) f' s <= total) /\
      (forall U', is_cut U' s t -> total <= cut_cap (fedges v) U').
Close Scope Z_scope.
Check C15_m_edges : forall m i j, In (i, j) (m_edges m) <-> (i < j /\ m_mate m i = Some j).
Check C15_m_nodes : forall m i, In i (m_nodes m) <-> exists j, m_mate m i = Some j.
Check C15_m_len : forall m, msym m -> 2 * length (m_edges m) = length (m_nodes m).
Check C15_m_endpoints : forall m, msym m -> NoDup (endpoints (m_edges m)).
Check C15_mok_check : forall v, mok_b v = true -> MOk v.
Check C15_greedy_valid : forall v, MOk v ->
  exists m n, greedy_inner v = Ok (m, n) /\ valid_matching v m n.
Check C15_greedy_needs_bound : exists v, VOk v /\ greedy_inner v = Panic.
Check C15_maximum_matching_valid : forall v debug m n,
  MOk v -> EidOk v -> maximum_matching v debug = Ok (m, n) -> valid_matching v m n.
Check C15_maximum_matching_total : forall v debug,
  MOk v -> EidOk v -> CapOk v ->
  exists m n, maximum_matching v debug = Ok (m, n) /\ valid_matching v m n.
Check C15_maximum_matching_needs_EidOk : exists v m n, MOk v /\ maximum_matching v true = Ok (m, n) /\ ~ valid_matching v m n.
Check C15_maximum_matching_needs_CapOk : exists v, MOk v /\ EidOk v /\ maximum_matching v true = Panic.
Check C15_eid_check : forall v, eid_ok_b v = true -> EidOk v.
Check C15_cap_check : forall v, cap_ok_b v = true -> CapOk v.
Check C15_valid_check : forall v m n, valid_matching_b v m n = true -> valid_matching v m n.
Check C15_mms_attained : forall nodes adj,
  exists M, is_matching nodes adj M /\ length M = max_matching_size nodes adj.
Check C15_mms_upper : forall nodes adj M,
  is_matching nodes adj M -> length M <= max_matching_size nodes adj.
Check C15_mms_is_maximum : forall nodes adj M,
  is_matching nodes adj M -> length M = max_matching_size nodes adj -> is_maximum nodes adj M.
Check C15_valid_is_matching : forall v m n, VOk v -> valid_matching v m n ->
  is_matching (vnodes v) (vadj v) (m_edges m) /\ length (m_edges m) = n.
Check C15_valid_max_is_maximum : forall v m n, VOk v -> valid_matching v m n ->
  n = max_matching_size (vnodes v) (vadj v) ->
  forall m' n', valid_matching v m' n' -> n' <= n.

Print Assumptions C15_weak_duality.
Print Assumptions C15_cut_certificate.
Print Assumptions C15_fok_check.
Print Assumptions C15_ford_fulkerson.
Print Assumptions C15_flow_nonvacuous.
Print Assumptions C15_m_edges.
Print Assumptions C15_m_nodes.
Print Assumptions C15_m_len.
Print Assumptions C15_m_endpoints.
Print Assumptions C15_mok_check.
Print Assumptions C15_greedy_valid.
Print Assumptions C15_greedy_needs_bound.
Print Assumptions C15_maximum_matching_valid.
Print Assumptions C15_maximum_matching_total.
Print Assumptions C15_maximum_matching_needs_EidOk.
Print Assumptions C15_maximum_matching_needs_CapOk.
Print Assumptions C15_eid_check.
Print Assumptions C15_cap_check.
Print Assumptions C15_valid_check.
Print Assumptions C15_mms_attained.
Print Assumptions C15_mms_upper.
Print Assumptions C15_mms_is_maximum.
Print Assumptions C15_valid_is_matching.
Print Assumptions C15_valid_max_is_maximum.
Print Assumptions C15_matching_nonvacuous.
