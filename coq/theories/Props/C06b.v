(* C06b -- the generic visit traits of GraphMap, MatrixGraph, Csr and adj::List describe one and
   the same graph: the trait view computed from the model state (Model/FullViewOf2.v:
   fview_of_graphmap, fview_of_matrix_k, fview_of_csr, fview_of_list_k) is FConsistent
   (Spec/ViewSpec.v, the specification decided by fv_check: Props/C06.v, C06_checker_iff_spec) in
   every state satisfying the invariant of the type, and so is every depth-2 stack of the adaptors
   Reversed (where in-lists exist) / NodeFiltered / EdgeFiltered / Frozen over it.
   This file holds only the property theorems (closed by [exact]), their pinned statements
   ([Check]) and their assumptions.  The four models reuse names, so every model name is qualified.
   Vocabulary:
     GraphMapP.GInv d g        the C03 invariant of GraphMap
     MatrixP.MInv d g          the C04 structural invariant of MatrixGraph;
     MatrixP.ELive d g         "every edge joins two existing nodes" (C04: both hold after every
                               history whose edge operations name existing nodes; update_edge does
                               not check that, and without it the view is NOT consistent)
     CsrSpec.CInv g, CsrSpec.Rep d g s   the C05 invariant and representation relation of Csr;
     FullViewOfCsrP.spec_simple d s      the abstract graph stores each pair once
     FullViewOfListP.LInv g    adj::List: every stored successor is a node (new in this claim:
                               add_node_from_edges does not check it, and without it the view is
                               NOT consistent);  rows_le k g: no row longer than the id stride k
     AdjKeyed f                the adjacency table has a row for every node (Props/C06.v). *)
From Coq Require Import Permutation.
From PG Require Import Lib.Io Model.FullView Model.FullViewOf Model.FullViewOf2 Spec.ViewSpec.
From PG Require Model.GraphMapM Model.MatrixM Model.CsrM Model.AdjListM
  Spec.SimpleGraph Spec.MatrixSpec Spec.CsrSpec Spec.AdjListSpec
  Proofs.GraphMapP Proofs.GraphMapH Proofs.MatrixP Proofs.MatrixH
  Proofs.FullViewOfGMP Proofs.FullViewOfMXP Proofs.FullViewOfCsrP Proofs.FullViewOfListP
  Props.C03 Props.C04 Props.C05.

(* ================= GraphMap ================= *)

(* Under the C03 invariant the view of a GraphMap is computed without panic (no get_index_of /
   edge lookup fails, no unreachable!()) and is consistent, for both edge types: compact over
   0 .. node_count-1 in map order, node weights = node values, edge ids = positions in the edge
   map, in-lists (the queried node reported as the target, also when undirected), is_adjacent =
   contains_edge, a hash-set visit map. *)
Theorem C06b_graphmap_view : forall directed (g : GraphMapM.gm),
  GraphMapP.GInv directed g ->
  exists f, fview_of_graphmap directed g = Ok f /\ FConsistent f /\ AdjKeyed f /\
            f_directed f = directed /\
            f_nodes f = seq 0 (length (GraphMapM.gnodes g)) /\
            f_nrefs f = combine (seq 0 (length (GraphMapM.gnodes g)))
                                (map fst (GraphMapM.gnodes g)) /\
            f_bound f = length (GraphMapM.gnodes g) /\
            f_vcap f = None /\
            (f_compact f = true /\ f_ids_ok f = true /\ f_has_in f = true /\ f_has_adj f = true).
Proof. exact FullViewOfGMP.fview_of_graphmap_consistent. Qed.

Theorem C06b_graphmap_adaptors : forall directed (g : GraphMapM.gm) f k1 p1 q1 k2 p2 q2 f1 f2,
  GraphMapP.GInv directed g -> fview_of_graphmap directed g = Ok f ->
  In k1 [1; 3; 4; 5] -> In k2 [1; 3; 4; 5] ->
  apply_adaptor k1 p1 q1 f = Some f1 -> apply_adaptor k2 p2 q2 f1 = Some f2 -> FConsistent f2.
Proof. exact FullViewOfGMP.graphmap_adaptors. Qed.

(* in particular after every history from GraphMap::new() (all opcodes of the C03 harness) *)
Theorem C06b_graphmap_history : forall directed debug ops,
  exists f, fview_of_graphmap directed
              (GraphMapH.final directed debug GraphMapM.gm_new ops) = Ok f /\
            FConsistent f /\ AdjKeyed f.
Proof. exact FullViewOfGMP.graphmap_history_view. Qed.

(* edges 1->2, 2->1, 2->2, 2->3, 3->1, node 7, 7->3, 3->3, then remove_node 2 (swap_remove: the
   last node takes the vacated position; the five edges at 2 go): the node map becomes [1; 7; 3] *)
Definition C06b_gm_ops : list line :=
  [(2, [1; 2; 10]%Z); (2, [2; 1; 20]%Z); (2, [2; 2; 5]%Z); (2, [2; 3; 7]%Z); (2, [3; 1; 9]%Z);
   (0, [7]%Z); (2, [7; 3; 4]%Z); (2, [3; 3; 8]%Z); (1, [2]%Z)].

Example C06b_graphmap_nonvacuous :
  let gd := GraphMapH.final true true GraphMapM.gm_new C06b_gm_ops in
  let gu := GraphMapH.final false true GraphMapM.gm_new C06b_gm_ops in
  GraphMapP.GInv true gd /\ GraphMapP.GInv false gu /\
  map fst (GraphMapM.gnodes gd) = [1; 7; 3]%Z /\
  GraphMapM.gedges gd = [((3, 3), 8); ((7, 3), 4); ((3, 1), 9)]%Z /\
  GraphMapM.gedges gu = [((3, 3), 8); ((3, 7), 4); ((1, 3), 9)]%Z /\
  rmap (fun f => (fv_check f, f_nodes f, f_nrefs f, f_erefs f, f_out f, f_in f, f_adj f,
                  option_map fv_check (apply_adaptor 1 0 0 f),
                  option_map fv_check (apply_adaptor 3 5 (-1) f)))
       (fview_of_graphmap true gd)
  = Ok (0, [0; 1; 2], [(0, 1%Z); (1, 7%Z); (2, 3%Z)],
        [(0, 2, 2, 8%Z); (1, 1, 2, 4%Z); (2, 2, 0, 9%Z)],
        [(0, []); (1, [(1, 1, 2, 4%Z)]); (2, [(0, 2, 2, 8%Z); (2, 2, 0, 9%Z)])],
        [(0, [(2, 2, 0, 9%Z)]); (1, []); (2, [(0, 2, 2, 8%Z); (1, 1, 2, 4%Z)])],
        [(0, []); (1, [2]); (2, [0; 2])], Some 0, Some 0) /\
  rmap (fun f => (fv_check f, f_erefs f, f_out f, f_in f, f_adj f,
                  option_map fv_check (apply_adaptor 1 0 0 f)))
       (fview_of_graphmap false gu)
  = Ok (0, [(0, 2, 2, 8%Z); (1, 2, 1, 4%Z); (2, 0, 2, 9%Z)],
        [(0, [(2, 0, 2, 9%Z)]); (1, [(1, 1, 2, 4%Z)]);
         (2, [(0, 2, 2, 8%Z); (2, 2, 0, 9%Z); (1, 2, 1, 4%Z)])],
        [(0, [(2, 2, 0, 9%Z)]); (1, [(1, 2, 1, 4%Z)]);
         (2, [(0, 2, 2, 8%Z); (2, 0, 2, 9%Z); (1, 1, 2, 4%Z)])],
        [(0, [2]); (1, [2]); (2, [0; 1; 2])], Some 0).
Proof.
  split; [exact (proj1 (C03.C03_history true true C06b_gm_ops))|].
  split; [exact (proj1 (C03.C03_history false true C06b_gm_ops))|].
  vm_compute. repeat split.
Qed.

(* ================= MatrixGraph ================= *)

(* Under MInv and ELive, with the synthetic edge ids k*row+column distinct (capacity <= k; k = 100
   in the harness: fview_of_matrix = fview_of_matrix_k 100), the view is computed without panic
   and is consistent, for both edge types: node_bound = the id upper bound = visit-map length,
   node_identifiers = the live ids (not compact), edge_count = nb_edges, in-lists only when
   directed, is_adjacent = has_edge. *)
Theorem C06b_matrix_view : forall k directed (g : MatrixM.mg),
  MatrixP.MInv directed g -> MatrixP.ELive directed g -> MatrixM.ncap g <= k ->
  exists f, fview_of_matrix_k k directed g = Ok f /\ FConsistent f /\ AdjKeyed f /\
            f_directed f = directed /\
            f_nodes f = MatrixM.iter_ids g /\
            f_bound f = MatrixM.ub g /\
            f_vcap f = Some (MatrixM.ub g) /\
            (f_compact f = false /\ f_ids_ok f = true /\ f_has_in f = directed /\
             f_has_adj f = true).
Proof. exact FullViewOfMXP.fview_of_matrix_consistent. Qed.

(* ELive is exactly what is needed: under MInv alone the view is still total, and it is
   consistent if and only if every edge joins two existing nodes.  update_edge / add_edge do not
   check their endpoints (C06b_matrix_dangling_edge below). *)
Theorem C06b_matrix_exact : forall k directed (g : MatrixM.mg),
  MatrixP.MInv directed g -> MatrixM.ncap g <= k ->
  exists f, fview_of_matrix_k k directed g = Ok f /\
            (FConsistent f <-> MatrixP.ELive directed g).
Proof. exact FullViewOfMXP.fview_of_matrix_exact. Qed.

Theorem C06b_matrix_adaptors : forall k directed (g : MatrixM.mg) f k1 p1 q1 k2 p2 q2 f1 f2,
  MatrixP.MInv directed g -> MatrixP.ELive directed g -> MatrixM.ncap g <= k ->
  fview_of_matrix_k k directed g = Ok f ->
  In k1 [1; 3; 4; 5] -> In k2 [1; 3; 4; 5] ->
  apply_adaptor k1 p1 q1 f = Some f1 -> apply_adaptor k2 p2 q2 f1 = Some f2 -> FConsistent f2.
Proof. exact FullViewOfMXP.matrix_adaptors. Qed.

(* in particular after every C04 history (edge operations between nodes existing at that time) *)
Theorem C06b_matrix_history : forall k directed notzero debug cap capcheck ops g s,
  MatrixH.Abs directed g s ->
  MatrixSpec.hist_ok directed notzero debug cap capcheck g s ops ->
  MatrixM.ncap (fst (MatrixSpec.replay directed notzero debug cap capcheck g s ops)) <= k ->
  exists f, fview_of_matrix_k k directed
              (fst (MatrixSpec.replay directed notzero debug cap capcheck g s ops)) = Ok f /\
            FConsistent f /\ AdjKeyed f.
Proof. exact FullViewOfMXP.matrix_history_view. Qed.

(* five nodes, edges 0->1, 1->0, 0->4, 2->2, 3->1, remove_node 1, 4->3; from with_capacity(2):
   the matrix grows 2 -> 8 while holding edges, id 1 stays vacant below node_bound = 5 *)
Definition C06b_mx_ops : list line :=
  [(0, [100]%Z); (0, [101]%Z); (0, [102]%Z); (0, [103]%Z); (0, [104]%Z);
   (3, [0; 1; 10]%Z); (4, [1; 0; 11]%Z); (3, [0; 4; 7]%Z); (3, [2; 2; 12]%Z); (3, [3; 1; 5]%Z);
   (2, [1]%Z); (3, [4; 3; 9]%Z)].

Example C06b_matrix_nonvacuous :
  exists gd gu,
    MatrixM.with_capacity true true 2 = Ok gd /\ MatrixM.with_capacity false true 2 = Ok gu /\
    let g1 := fst (MatrixSpec.replay true false true 1000 false gd MatrixSpec.sg_empty C06b_mx_ops) in
    let g2 := fst (MatrixSpec.replay false false true 1000 false gu MatrixSpec.sg_empty C06b_mx_ops) in
    MatrixP.MInv true g1 /\ MatrixP.ELive true g1 /\ MatrixP.MInv false g2 /\ MatrixP.ELive false g2 /\
    (MatrixM.ncap g1, MatrixM.ub g1, MatrixM.removed g1, MatrixM.nbe g1) = (8, 5, [1], 3) /\
    (MatrixM.ncap g2, MatrixM.ub g2, MatrixM.removed g2, MatrixM.nbe g2) = (5, 5, [1], 3) /\
    rmap (fun f => (fv_check f, f_nodes f, f_bound f, f_nrefs f, f_erefs f, f_out f, f_in f, f_adj f,
                    option_map fv_check (apply_adaptor 1 0 0 f),
                    option_map fv_check (apply_adaptor 3 5 (-1) f)))
         (fview_of_matrix true g1)
    = Ok (0, [0; 2; 3; 4], 5, [(0, 100%Z); (2, 102%Z); (3, 103%Z); (4, 104%Z)],
          [(4, 0, 4, 7%Z); (202, 2, 2, 12%Z); (403, 4, 3, 9%Z)],
          [(0, [(4, 0, 4, 7%Z)]); (2, [(202, 2, 2, 12%Z)]); (3, []); (4, [(403, 4, 3, 9%Z)])],
          [(0, []); (2, [(202, 2, 2, 12%Z)]); (3, [(403, 4, 3, 9%Z)]); (4, [(4, 0, 4, 7%Z)])],
          [(0, [4]); (2, [2]); (3, []); (4, [3])], Some 0, Some 0) /\
    rmap (fun f => (fv_check f, f_nodes f, f_erefs f, f_out f, f_has_in f, f_adj f,
                    option_map fv_check (apply_adaptor 1 0 0 f),
                    option_map fv_check (apply_adaptor 3 5 (-1) f)))
         (fview_of_matrix false g2)
    = Ok (0, [0; 2; 3; 4], [(202, 2, 2, 12%Z); (4, 4, 0, 7%Z); (304, 4, 3, 9%Z)],
          [(0, [(4, 0, 4, 7%Z)]); (2, [(202, 2, 2, 12%Z)]); (3, [(304, 3, 4, 9%Z)]);
           (4, [(4, 4, 0, 7%Z); (304, 4, 3, 9%Z)])],
          false, [(0, [4]); (2, [2]); (3, [4]); (4, [0; 3])], None, Some 0).
Proof.
  destruct (C04.C04_with_capacity true true 2) as (gd & Ed & _ & Ad).
  destruct (C04.C04_with_capacity false true 2) as (gu & Eu & _ & Au).
  exists gd, gu. split; [exact Ed|]. split; [exact Eu|].
  assert (Ed' := Ed). assert (Eu' := Eu). vm_compute in Ed', Eu'.
  injection Ed' as <-. injection Eu' as <-.
  assert (Hd : MatrixSpec.hist_ok true false true 1000 false
                 (MatrixM.mkMg [None; None; None; None] 2 [] 0 [] 0) MatrixSpec.sg_empty C06b_mx_ops)
    by (vm_compute; repeat split; intros H; discriminate H).
  assert (Hu : MatrixSpec.hist_ok false false true 1000 false
                 (MatrixM.mkMg [None; None; None] 2 [] 0 [] 0) MatrixSpec.sg_empty C06b_mx_ops)
    by (vm_compute; repeat split; intros H; discriminate H).
  destruct (C04.C04_abs_unfold _ _ _ (C04.C04_history _ _ _ _ _ _ _ _ Ad Hd)) as (I1 & L1 & _).
  destruct (C04.C04_abs_unfold _ _ _ (C04.C04_history _ _ _ _ _ _ _ _ Au Hu)) as (I2 & L2 & _).
  cbv zeta. split; [exact I1|]. split; [exact L1|]. split; [exact I2|]. split; [exact L2|].
  vm_compute. repeat split.
Qed.

(* The counterexample: in the directed state above (id 1 removed) update_edge(0, 1, 77) returns
   normally -- petgraph documents a panic "if any of the nodes don't exist" but only grows the
   matrix -- and leaves a state that satisfies MInv, whose edge_references contain 0 -> 1 while
   node_identifiers do not contain 1: clause 3 of the checker fails. *)
Example C06b_matrix_dangling_edge :
  exists gd g1 g2,
    MatrixM.with_capacity true true 2 = Ok gd /\
    g1 = fst (MatrixSpec.replay true false true 1000 false gd MatrixSpec.sg_empty C06b_mx_ops) /\
    MatrixM.update_edge true false true g1 0 1 77 = Ok (inr None, g2) /\
    MatrixP.MInv true g2 /\ ~ MatrixP.ELive true g2 /\
    rmap (fun f => (fv_check f, f_nodes f, f_erefs f)) (fview_of_matrix true g2)
    = Ok (3, [0; 2; 3; 4],
          [(1, 0, 1, 77%Z); (4, 0, 4, 7%Z); (202, 2, 2, 12%Z); (403, 4, 3, 9%Z)]).
Proof.
  destruct (C04.C04_with_capacity true true 2) as (gd & Ed & _ & Ad).
  assert (Ed' := Ed). vm_compute in Ed'. injection Ed' as <-.
  assert (Hd : MatrixSpec.hist_ok true false true 1000 false
                 (MatrixM.mkMg [None; None; None; None] 2 [] 0 [] 0) MatrixSpec.sg_empty C06b_mx_ops)
    by (vm_compute; repeat split; intros H; discriminate H).
  destruct (C04.C04_abs_unfold _ _ _ (C04.C04_history _ _ _ _ _ _ _ _ Ad Hd)) as (I1 & _).
  destruct (C04.C04_update_total true false true _ 0 1 77 I1) as (r & g2 & E & _).
  eexists _, _, g2. split; [exact Ed|]. split; [reflexivity|].
  assert (E' := E). vm_compute in E'. injection E' as <- <-.
  split; [exact E|].
  split; [exact (proj1 (C04.C04_get_after_update _ _ _ _ _ _ _ _ _ I1 E))|].
  split.
  - intro L. destruct (L 0 1 77 eq_refl) as [_ [_ H]]. vm_compute in H. discriminate H.
  - vm_compute. reflexivity.
Qed.

(* ================= Csr ================= *)

(* When the Csr satisfies the C05 invariant and represents (C05: Rep) an abstract graph that stores
   each pair once, the view is computed without panic or fuel exhaustion and is consistent, for
   both edge types: compact over 0 .. n-1, visit map of length n, edges(a) = row a with ids =
   positions in the column vector, edge_references = the rows in order (undirected: each edge once,
   from the row of its smaller endpoint -- the repaired behaviour), so the ids are comparable
   exactly when directed (f_ids_ok = directed); no in-lists; is_adjacent = contains_edge;
   edge_count = the number of references. *)
Theorem C06b_csr_view : forall d (g : CsrM.csr) (s : CsrSpec.spec),
  CsrSpec.CInv g -> CsrSpec.Rep d g s -> FullViewOfCsrP.spec_simple d s ->
  exists f, fview_of_csr d g = Ok f /\ FConsistent f /\ AdjKeyed f /\
            f_directed f = d /\ f_nodes f = seq 0 (CsrM.node_count g) /\
            f_bound f = CsrM.node_count g /\
            (f_compact f = true /\ f_ids_ok f = d /\ f_has_in f = false /\ f_has_adj f = true).
Proof. exact FullViewOfCsrP.fview_of_csr_consistent. Qed.

Theorem C06b_csr_adaptors : forall d (g : CsrM.csr) s f k1 p1 q1 k2 p2 q2 f1 f2,
  CsrSpec.CInv g -> CsrSpec.Rep d g s -> FullViewOfCsrP.spec_simple d s ->
  fview_of_csr d g = Ok f ->
  In k1 [1; 3; 4; 5] -> In k2 [1; 3; 4; 5] ->
  apply_adaptor k1 p1 q1 f = Some f1 -> apply_adaptor k2 p2 q2 f1 = Some f2 -> FConsistent f2.
Proof. exact FullViewOfCsrP.csr_adaptors. Qed.

(* "each pair once" (NoDup of the ordered / unordered endpoint pairs of the stored edges) holds
   for the abstract graph of every history *)
Theorem C06b_csr_simple_history : forall d n0 ops,
  FullViewOfCsrP.spec_simple d (CsrSpec.spec_final d (CsrSpec.spec_with_nodes n0) ops).
Proof. exact FullViewOfCsrP.spec_simple_final. Qed.

(* hence: after every history of add_node / add_edge / clear_edges / queries from with_nodes(n0) *)
Theorem C06b_csr_history : forall d n0 ops,
  CsrSpec.incremental ops ->
  exists f, fview_of_csr d (CsrSpec.final d (CsrM.with_nodes n0) ops) = Ok f /\
            FConsistent f /\ AdjKeyed f.
Proof. exact FullViewOfCsrP.csr_history_view. Qed.

Theorem C06b_csr_history_adaptors : forall d n0 ops f k1 p1 q1 k2 p2 q2 f1 f2,
  CsrSpec.incremental ops -> fview_of_csr d (CsrSpec.final d (CsrM.with_nodes n0) ops) = Ok f ->
  In k1 [1; 3; 4; 5] -> In k2 [1; 3; 4; 5] ->
  apply_adaptor k1 p1 q1 f = Some f1 -> apply_adaptor k2 p2 q2 f1 = Some f2 -> FConsistent f2.
Proof. exact FullViewOfCsrP.csr_history_adaptors. Qed.

(* undirected, from with_nodes(4): edges {0,1}, the self-loop {2,2}, {3,1}, {2,0}, a fifth node,
   {4,2}, and the rejected duplicate {1,0}.  The edge {0,2} has id 1 in edge_references and id 4 in
   edges(2); the self-loop is listed once. *)
Example C06b_csr_nonvacuous :
  let g := CsrSpec.final false (CsrM.with_nodes 4) FullViewOfCsrP.ex_csr_ops in
  CsrSpec.incremental FullViewOfCsrP.ex_csr_ops /\
  (CsrSpec.CInv g /\
   CsrSpec.Rep false g (CsrSpec.spec_final false (CsrSpec.spec_with_nodes 4) FullViewOfCsrP.ex_csr_ops) /\
   FullViewOfCsrP.spec_simple false
     (CsrSpec.spec_final false (CsrSpec.spec_with_nodes 4) FullViewOfCsrP.ex_csr_ops)) /\
  g = CsrM.mkCsr [1; 2; 0; 3; 0; 2; 4; 1; 2] [10; 14; 10; 13; 14; 12; 15; 13; 15]
                 [0; 2; 4; 7; 8; 9] [0; 0; 0; 0; 55] 5 /\
  rmap (fun f => (fv_check f, f_ids_ok f, f_ecount f, f_nrefs f, f_erefs f, f_out f, f_adj f,
                  option_map fv_check (apply_adaptor 3 5 (-1) f),
                  option_map fv_check (apply_adaptor 1 0 0 f)))
       (fview_of_csr false g)
  = Ok (0, false, Some 5, [(0, 0%Z); (1, 0%Z); (2, 0%Z); (3, 0%Z); (4, 55%Z)],
        [(0, 0, 1, 10%Z); (1, 0, 2, 14%Z); (3, 1, 3, 13%Z); (5, 2, 2, 12%Z); (6, 2, 4, 15%Z)],
        [(0, [(0, 0, 1, 10%Z); (1, 0, 2, 14%Z)]); (1, [(2, 1, 0, 10%Z); (3, 1, 3, 13%Z)]);
         (2, [(4, 2, 0, 14%Z); (5, 2, 2, 12%Z); (6, 2, 4, 15%Z)]); (3, [(7, 3, 1, 13%Z)]);
         (4, [(8, 4, 2, 15%Z)])],
        [(0, [1; 2]); (1, [0; 3]); (2, [0; 2; 4]); (3, [1]); (4, [2])], Some 0, None) /\
  rmap (fun f => (fv_check f, f_ids_ok f, f_erefs f))
       (fview_of_csr true (CsrSpec.final true (CsrM.with_nodes 4) FullViewOfCsrP.ex_csr_ops))
  = Ok (0, true, [(0, 0, 1, 10%Z); (1, 1, 0, 99%Z); (2, 2, 0, 14%Z); (3, 2, 2, 12%Z);
                  (4, 3, 1, 13%Z); (5, 4, 2, 15%Z)]).
Proof.
  assert (Hinc : CsrSpec.incremental FullViewOfCsrP.ex_csr_ops) by (repeat constructor; discriminate).
  split; [exact Hinc|].
  split.
  { destruct (C05.C05_csr_history_refines false 4 _ Hinc) as (I & R & _).
    split; [exact I|]. split; [exact R|]. apply FullViewOfCsrP.spec_simple_final. }
  vm_compute. repeat split.
Qed.

(* "each pair once" cannot be dropped from C06b_csr_view: a Csr that satisfies CInv and Rep for an
   abstract graph storing {0,1} twice (so edge_count = 2 by Rep) shows one reference: clause 3.
   (Not a reachable state: C06b_csr_simple_history.) *)
Example C06b_csr_simple_needed :
  CsrSpec.CInv FullViewOfCsrP.ex_csr_dup /\
  CsrSpec.Rep false FullViewOfCsrP.ex_csr_dup FullViewOfCsrP.ex_spec_dup /\
  ~ FullViewOfCsrP.spec_simple false FullViewOfCsrP.ex_spec_dup /\
  rmap fv_check (fview_of_csr false FullViewOfCsrP.ex_csr_dup) = Ok 3.
Proof.
  exact (conj (proj1 FullViewOfCsrP.ex_csr_dup_rep) (conj (proj2 FullViewOfCsrP.ex_csr_dup_rep)
          (conj FullViewOfCsrP.ex_csr_dup_not_simple FullViewOfCsrP.ex_csr_dup_check))).
Qed.

(* ================= adj::List ================= *)

(* Under LInv, with the synthetic edge ids k*from+position distinct (no row longer than k; k = 100
   in the harness: fview_of_list = fview_of_list_k 100), the view is consistent: directed, compact
   over 0 .. n-1, unit node weights, parallel edges kept, no in-lists, is_adjacent =
   contains_edge, edge_count = the number of references. *)
Theorem C06b_list_view : forall k (g : AdjListM.alist),
  FullViewOfListP.LInv g -> FullViewOfListP.rows_le k g ->
  exists f, fview_of_list_k k g = Ok f /\ FConsistent f /\ AdjKeyed f /\
            f_directed f = true /\ f_nodes f = seq 0 (length g) /\ f_bound f = length g /\
            (f_compact f = true /\ f_ids_ok f = true /\ f_has_in f = false /\ f_has_adj f = true).
Proof. exact FullViewOfListP.fview_of_list_consistent. Qed.

(* LInv is exactly what is needed: the view is always total, and consistent iff every stored
   successor is a node *)
Theorem C06b_list_exact : forall k (g : AdjListM.alist),
  FullViewOfListP.rows_le k g ->
  exists f, fview_of_list_k k g = Ok f /\ (FConsistent f <-> FullViewOfListP.LInv g).
Proof. exact FullViewOfListP.fview_of_list_exact. Qed.

Theorem C06b_list_adaptors : forall k (g : AdjListM.alist) f k1 p1 q1 k2 p2 q2 f1 f2,
  FullViewOfListP.LInv g -> FullViewOfListP.rows_le k g -> fview_of_list_k k g = Ok f ->
  In k1 [1; 3; 4; 5] -> In k2 [1; 3; 4; 5] ->
  apply_adaptor k1 p1 q1 f = Some f1 -> apply_adaptor k2 p2 q2 f1 = Some f2 -> FConsistent f2.
Proof. exact FullViewOfListP.list_adaptors. Qed.

(* LInv holds after every history of the C05 harness without add_node_from_edges (opcode 11):
   new, add_node, add_edge, update_edge, clear, set edge weight and the queries keep it *)
Theorem C06b_list_inv_history : forall ops,
  Forall (fun o : line => fst o <> 11) ops ->
  FullViewOfListP.LInv (AdjListSpec.al_final AdjListM.al_new ops).
Proof. exact FullViewOfListP.LInv_final. Qed.

(* add_node_from_edges keeps it when the successors it is given are nodes of the enlarged graph *)
Theorem C06b_list_inv_from_edges : forall (g : AdjListM.alist) es,
  FullViewOfListP.LInv g -> (forall s w, In (s, w) es -> s <= length g) ->
  FullViewOfListP.LInv (snd (AdjListM.al_add_node_from_edges g es)).
Proof. exact FullViewOfListP.LInv_add_node_from_edges. Qed.

Theorem C06b_list_history : forall ops,
  Forall (fun o : line => fst o <> 11) ops ->
  FullViewOfListP.rows_le 100 (AdjListSpec.al_final AdjListM.al_new ops) ->
  exists f, fview_of_list (AdjListSpec.al_final AdjListM.al_new ops) = Ok f /\ FConsistent f.
Proof. exact FullViewOfListP.fview_of_list_history. Qed.

(* three nodes, parallel edges 0 -> 1 (weights 13, 15), update_edge overwrites the first *)
Example C06b_list_nonvacuous :
  let g := AdjListSpec.al_final AdjListM.al_new FullViewOfListP.lops in
  g = [[(1, 16); (1, 15); (2, 12)]; [(2, 14)]; [(2, 3)]] /\
  FullViewOfListP.LInv g /\ FullViewOfListP.rows_le 100 g /\
  rmap (fun f => (fv_check f, f_erefs f, f_nb f, f_adj f, f_ecount f,
                  option_map fv_check (apply_adaptor 3 5 (-1) f)))
       (fview_of_list g)
  = Ok (0, [(0, 0, 1, 16%Z); (1, 0, 1, 15%Z); (2, 0, 2, 12%Z); (100, 1, 2, 14%Z); (200, 2, 2, 3%Z)],
        [(0, [1; 1; 2]); (1, [2]); (2, [2])], [(0, [1; 2]); (1, [2]); (2, [2])], Some 5, Some 0).
Proof.
  split; [vm_compute; reflexivity|].
  split; [exact (proj1 FullViewOfListP.list_parallel_inv)|].
  split; [exact (proj2 FullViewOfListP.list_parallel_inv)|].
  vm_compute. reflexivity.
Qed.

(* The counterexample: add_node_from_edges with the successor 5 in a graph that then has 4 nodes;
   petgraph accepts it; the reference 3 -> 5 has a target that is not a node (clause 3). *)
Example C06b_list_dangling_successor :
  let g := AdjListSpec.al_final AdjListM.al_new
             (FullViewOfListP.lops ++ [(11, [5; 1]%Z)]) in
  g = [[(1, 16); (1, 15); (2, 12)]; [(2, 14)]; [(2, 3)]; [(5, 1)]] /\
  rmap fv_check (fview_of_list g) = Ok 3 /\ ~ FullViewOfListP.LInv g.
Proof. exact FullViewOfListP.list_dangling. Qed.

(* the stride condition is needed as well (an artefact of the synthetic ids, not of petgraph) *)
Example C06b_list_stride_needed :
  FullViewOfListP.LInv [[(0, 0); (0, 0)]; [(0, 0)]] /\
  rmap fv_check (fview_of_list_k 1 [[(0, 0); (0, 0)]; [(0, 0)]]) = Ok 3 /\
  rmap fv_check (fview_of_list_k 2 [[(0, 0); (0, 0)]; [(0, 0)]]) = Ok 0.
Proof. exact FullViewOfListP.list_stride_needed. Qed.

(* ---------------- pinned statements ---------------- *)

Check C06b_graphmap_view : forall directed (g : GraphMapM.gm),
  GraphMapP.GInv directed g ->
  exists f, fview_of_graphmap directed g = Ok f /\ FConsistent f /\ AdjKeyed f /\
            f_directed f = directed /\
            f_nodes f = seq 0 (length (GraphMapM.gnodes g)) /\
            f_nrefs f = combine (seq 0 (length (GraphMapM.gnodes g)))
                                (map fst (GraphMapM.gnodes g)) /\
            f_bound f = length (GraphMapM.gnodes g) /\
            f_vcap f = None /\
            (f_compact f = true /\ f_ids_ok f = true /\ f_has_in f = true /\ f_has_adj f = true).
Check C06b_graphmap_adaptors : forall directed (g : GraphMapM.gm) f k1 p1 q1 k2 p2 q2 f1 f2,
  GraphMapP.GInv directed g -> fview_of_graphmap directed g = Ok f ->
  In k1 [1; 3; 4; 5] -> In k2 [1; 3; 4; 5] ->
  apply_adaptor k1 p1 q1 f = Some f1 -> apply_adaptor k2 p2 q2 f1 = Some f2 -> FConsistent f2.
Check C06b_graphmap_history : forall directed debug ops,
  exists f, fview_of_graphmap directed
              (GraphMapH.final directed debug GraphMapM.gm_new ops) = Ok f /\
            FConsistent f /\ AdjKeyed f.
Check C06b_matrix_view : forall k directed (g : MatrixM.mg),
  MatrixP.MInv directed g -> MatrixP.ELive directed g -> MatrixM.ncap g <= k ->
  exists f, fview_of_matrix_k k directed g = Ok f /\ FConsistent f /\ AdjKeyed f /\
            f_directed f = directed /\
            f_nodes f = MatrixM.iter_ids g /\
            f_bound f = MatrixM.ub g /\
            f_vcap f = Some (MatrixM.ub g) /\
            (f_compact f = false /\ f_ids_ok f = true /\ f_has_in f = directed /\
             f_has_adj f = true).
Check C06b_matrix_exact : forall k directed (g : MatrixM.mg),
  MatrixP.MInv directed g -> MatrixM.ncap g <= k ->
  exists f, fview_of_matrix_k k directed g = Ok f /\
            (FConsistent f <-> MatrixP.ELive directed g).
Check C06b_matrix_adaptors : forall k directed (g : MatrixM.mg) f k1 p1 q1 k2 p2 q2 f1 f2,
  MatrixP.MInv directed g -> MatrixP.ELive directed g -> MatrixM.ncap g <= k ->
  fview_of_matrix_k k directed g = Ok f ->
  In k1 [1; 3; 4; 5] -> In k2 [1; 3; 4; 5] ->
  apply_adaptor k1 p1 q1 f = Some f1 -> apply_adaptor k2 p2 q2 f1 = Some f2 -> FConsistent f2.
Check C06b_matrix_history : forall k directed notzero debug cap capcheck ops g s,
  MatrixH.Abs directed g s ->
  MatrixSpec.hist_ok directed notzero debug cap capcheck g s ops ->
  MatrixM.ncap (fst (MatrixSpec.replay directed notzero debug cap capcheck g s ops)) <= k ->
  exists f, fview_of_matrix_k k directed
              (fst (MatrixSpec.replay directed notzero debug cap capcheck g s ops)) = Ok f /\
            FConsistent f /\ AdjKeyed f.
Check C06b_csr_view : forall d (g : CsrM.csr) (s : CsrSpec.spec),
  CsrSpec.CInv g -> CsrSpec.Rep d g s -> FullViewOfCsrP.spec_simple d s ->
  exists f, fview_of_csr d g = Ok f /\ FConsistent f /\ AdjKeyed f /\
            f_directed f = d /\ f_nodes f = seq 0 (CsrM.node_count g) /\
            f_bound f = CsrM.node_count g /\
            (f_compact f = true /\ f_ids_ok f = d /\ f_has_in f = false /\ f_has_adj f = true).
Check C06b_csr_adaptors : forall d (g : CsrM.csr) s f k1 p1 q1 k2 p2 q2 f1 f2,
  CsrSpec.CInv g -> CsrSpec.Rep d g s -> FullViewOfCsrP.spec_simple d s ->
  fview_of_csr d g = Ok f ->
  In k1 [1; 3; 4; 5] -> In k2 [1; 3; 4; 5] ->
  apply_adaptor k1 p1 q1 f = Some f1 -> apply_adaptor k2 p2 q2 f1 = Some f2 -> FConsistent f2.
Check C06b_csr_simple_history : forall d n0 ops,
  FullViewOfCsrP.spec_simple d (CsrSpec.spec_final d (CsrSpec.spec_with_nodes n0) ops).
Check C06b_csr_history : forall d n0 ops,
  CsrSpec.incremental ops ->
  exists f, fview_of_csr d (CsrSpec.final d (CsrM.with_nodes n0) ops) = Ok f /\
            FConsistent f /\ AdjKeyed f.
Check C06b_csr_history_adaptors : forall d n0 ops f k1 p1 q1 k2 p2 q2 f1 f2,
  CsrSpec.incremental ops -> fview_of_csr d (CsrSpec.final d (CsrM.with_nodes n0) ops) = Ok f ->
  In k1 [1; 3; 4; 5] -> In k2 [1; 3; 4; 5] ->
  apply_adaptor k1 p1 q1 f = Some f1 -> apply_adaptor k2 p2 q2 f1 = Some f2 -> FConsistent f2.
Check C06b_list_view : forall k (g : AdjListM.alist),
  FullViewOfListP.LInv g -> FullViewOfListP.rows_le k g ->
  exists f, fview_of_list_k k g = Ok f /\ FConsistent f /\ AdjKeyed f /\
            f_directed f = true /\ f_nodes f = seq 0 (length g) /\ f_bound f = length g /\
            (f_compact f = true /\ f_ids_ok f = true /\ f_has_in f = false /\ f_has_adj f = true).
Check C06b_list_exact : forall k (g : AdjListM.alist),
  FullViewOfListP.rows_le k g ->
  exists f, fview_of_list_k k g = Ok f /\ (FConsistent f <-> FullViewOfListP.LInv g).
Check C06b_list_adaptors : forall k (g : AdjListM.alist) f k1 p1 q1 k2 p2 q2 f1 f2,
  FullViewOfListP.LInv g -> FullViewOfListP.rows_le k g -> fview_of_list_k k g = Ok f ->
  In k1 [1; 3; 4; 5] -> In k2 [1; 3; 4; 5] ->
  apply_adaptor k1 p1 q1 f = Some f1 -> apply_adaptor k2 p2 q2 f1 = Some f2 -> FConsistent f2.
Check C06b_list_inv_history : forall ops,
  Forall (fun o : line => fst o <> 11) ops ->
  FullViewOfListP.LInv (AdjListSpec.al_final AdjListM.al_new ops).
Check C06b_list_inv_from_edges : forall (g : AdjListM.alist) es,
  FullViewOfListP.LInv g -> (forall s w, In (s, w) es -> s <= length g) ->
  FullViewOfListP.LInv (snd (AdjListM.al_add_node_from_edges g es)).
Check C06b_list_history : forall ops,
  Forall (fun o : line => fst o <> 11) ops ->
  FullViewOfListP.rows_le 100 (AdjListSpec.al_final AdjListM.al_new ops) ->
  exists f, fview_of_list (AdjListSpec.al_final AdjListM.al_new ops) = Ok f /\ FConsistent f.

Print Assumptions C06b_graphmap_view.
Print Assumptions C06b_graphmap_adaptors.
Print Assumptions C06b_graphmap_history.
Print Assumptions C06b_graphmap_nonvacuous.
Print Assumptions C06b_matrix_view.
Print Assumptions C06b_matrix_exact.
Print Assumptions C06b_matrix_adaptors.
Print Assumptions C06b_matrix_history.
Print Assumptions C06b_matrix_nonvacuous.
Print Assumptions C06b_matrix_dangling_edge.
Print Assumptions C06b_csr_view.
Print Assumptions C06b_csr_adaptors.
Print Assumptions C06b_csr_simple_history.
Print Assumptions C06b_csr_history.
Print Assumptions C06b_csr_history_adaptors.
Print Assumptions C06b_csr_nonvacuous.
Print Assumptions C06b_csr_simple_needed.
Print Assumptions C06b_list_view.
Print Assumptions C06b_list_exact.
Print Assumptions C06b_list_adaptors.
Print Assumptions C06b_list_inv_history.
Print Assumptions C06b_list_inv_from_edges.
Print Assumptions C06b_list_history.
Print Assumptions C06b_list_nonvacuous.
Print Assumptions C06b_list_dangling_successor.
Print Assumptions C06b_list_stride_needed.
