(* C18b — graph6, further property theorems: the upper triangle the encoder and decoder walk
   holds exactly the pairs lin < col < n, each once, and the encoder is injective: two different
   adjacency structures of one order never share a graph6 string.
   This file holds only the property theorems (closed by [exact]), their pinned statements
   ([Check]) and their assumptions. *)
From Coq Require Import NArith List.
From PG Require Import Lib.ListArr Lib.Io Spec.Graph6Spec Model.Graph6M Proofs.Graph6P Proofs.Graph6X.
Import ListNotations.

(* The upper triangle is exactly the set of pairs lin < col < n, without repetition. *)
Theorem C18b_g6_upper_pairs_exact : forall n,
  NoDup (Graph6Spec.upper_pairs n) /\
  forall lin col, In (lin, col) (Graph6Spec.upper_pairs n) <-> 1 <= col < n /\ lin < col.
Proof. intros n. exact (conj (upper_pairs_NoDup n) (upper_pairs_in n)). Qed.

(* Equal graph6 strings of one supported order come from equal adjacency bits. *)
Theorem C18b_g6_injective : forall n u1 u2,
  (N.of_nat n <= 258047)%N -> length u1 = n * (n - 1) / 2 -> length u2 = n * (n - 1) / 2 ->
  encode (N.of_nat n) u1 = encode (N.of_nat n) u2 -> u1 = u2.
Proof. intros n u1 u2 Hn L1 L2 E. exact (encode_injective n u1 u2 Hn L1 L2 E). Qed.

(* Non-vacuity: two 4-node graphs differing in one pair have different strings. *)
Example C18b_nonvacuous :
  encode 4 [true; false; true; false; false; true] <> encode 4 [true; false; true; false; true; true]
  /\ length [true; false; true; false; false; true] = 4 * (4 - 1) / 2.
Proof. split; [vm_compute; discriminate|reflexivity]. Qed.

Check C18b_g6_upper_pairs_exact : forall n,
  NoDup (Graph6Spec.upper_pairs n) /\
  forall lin col, In (lin, col) (Graph6Spec.upper_pairs n) <-> 1 <= col < n /\ lin < col.
Check C18b_g6_injective : forall n u1 u2,
  (N.of_nat n <= 258047)%N -> length u1 = n * (n - 1) / 2 -> length u2 = n * (n - 1) / 2 ->
  encode (N.of_nat n) u1 = encode (N.of_nat n) u2 -> u1 = u2.

Print Assumptions C18b_g6_upper_pairs_exact.
Print Assumptions C18b_g6_injective.
