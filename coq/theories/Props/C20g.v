(* C20g — the factor 2 of steiner_tree (Kou-Markowsky-Berman), the link that Props/C20e.v left open:
   on an UNDIRECTED view, some spanning tree of the metric closure weighs at most twice the optimum
   steiner_opt (the minimum weight of a tree of the graph that holds the terminals, C20_steiner_opt_minimum);
   hence every minimum spanning tree of the closure does, hence every result of the mirror
   (Model/SteinerM.v) does, and steiner_check accepts every possible result with verdict 0.
   This file holds only the property theorems (closed by [exact]), their pinned statements ([Check]),
   their assumptions and non-vacuity examples.

   Vocabulary: SOk, SteinerRun (Proofs/SteinerMP.v), SimpleRefs (Proofs/SteinerMW.v) as in Props/C20e.v;
     Undirected v    every step of v can be taken backwards with the same weight (Proofs/SteinerTourR.v);
                     holds when vdirected v = false (C20g_undirected_flag): what an UnGraph shows, the only
                     graphs steiner_tree accepts.  It is NEEDED: on the directed 4-cycle (C20g_ex_directed)
                     SOk and SimpleRefs hold and the only result weighs 3 against the optimum 1.
     pcost D l       D x1 x2 + ... + D x(k-1) xk;  closed D l = pcost D (l ++ [x1]): the cost of the cycle
     EdgeOk D E      D a b <= w for every (a, b, w) of E            (Proofs/SteinerTour.v)
   Proof (no Euler tour, no rooted tree): C20g_tour by induction on the number of edges, removing a leaf;
   applied to an optimal Steiner tree and the terminals with D = the shortest-walk distance; the cycle without
   its closing edge is a Hamiltonian path on the terminals; its edges, taken from the closure in the closure's
   order, pass closure_trees' tests. *)
From Coq Require Import Lia ZArith List Permutation.
From PG Require Import Lib.Io Model.View Model.ShortestM Model.MiscM Model.SteinerM
  Spec.Forest Spec.MiscSpec Spec.Paths Spec.EPaths
  Proofs.FloydP Proofs.SteinerMP1 Proofs.SteinerMP Proofs.SteinerMW Proofs.SteinerMEx
  Proofs.SteinerTour Proofs.SteinerTourR Proofs.SteinerTourEx.
Import ListNotations.
Local Open Scope nat_scope.

(* views of undirected graphs are Undirected *)
Theorem C20g_undirected_flag : forall v, vdirected v = false -> Undirected v.
Proof. intros v F. exact (undirected_flag v F). Qed.

(* (CT) the tour: for a distance D that is 0 on the diagonal, symmetric and triangular on Dm, a tree (N, E)
   inside Dm whose edges are at least as heavy as the distance of their ends, and a non-empty duplicate-free
   S inside N: S can be arranged in a cycle of cost at most twice the weight of the tree *)
Theorem C20g_tour : forall (Dm : nat -> Prop) (D : nat -> nat -> Z),
  (forall a, Dm a -> D a a = 0%Z) ->
  (forall a b, Dm a -> Dm b -> D a b = D b a) ->
  (forall a b c, Dm a -> Dm b -> Dm c -> (D a c <= D a b + D b c)%Z) ->
  forall N E S, IsTree N (ends E) -> (forall x, In x N -> Dm x) -> EdgeOk D E ->
    NoDup S -> S <> [] -> incl S N ->
    exists L, Permutation L S /\ (closed D L <= 2 * weight E)%Z.
Proof.
  intros Dm D H1 H2 H3 N E S HT HD HE NS Sne Si.
  exact (cycle_tour Dm D H1 H2 H3 (length E) N E S eq_refl HT HD HE NS Sne Si).
Qed.

(* T1: some spanning tree of the metric closure weighs at most twice the optimum *)
Theorem C20g_closure_tree_le_twice_opt : forall v terms cl opt, SOk v terms -> Undirected v ->
  metric_closure v terms = Ok cl -> steiner_opt v terms = Some opt ->
  exists t', In t' (closure_trees (vbound v) (length terms) cl) /\ (sumw t' <= 2 * opt)%Z.
Proof. intros v terms cl opt H HU E1 Eo. exact (closure_tree_le_twice_opt v terms cl opt H HU E1 Eo). Qed.

(* the link named at the end of Props/C20e.v: every minimum spanning tree of the closure *)
Theorem C20g_closure_mst_le_twice_opt : forall v terms cl tree opt, SOk v terms -> Undirected v ->
  metric_closure v terms = Ok cl -> In tree (closure_msts (vbound v) (length terms) cl) ->
  steiner_opt v terms = Some opt -> (sumw tree <= 2 * opt)%Z.
Proof. intros v terms cl tree opt H HU E1 Ht Eo. exact (closure_mst_le_twice_opt v terms cl tree opt H HU E1 Ht Eo). Qed.

(* T2: every result of the mirror weighs at most twice the optimum *)
Theorem C20g_two_approx : forall v terms cl d prev tree nodes es opt, SOk v terms -> SimpleRefs v -> Undirected v ->
  metric_closure v terms = Ok cl -> floyd_warshall KMIN KMAX v = Ok (Some (d, prev)) ->
  In tree (closure_msts (vbound v) (length terms) cl) -> steiner_for v terms prev tree = Ok (nodes, es) ->
  steiner_opt v terms = Some opt -> (sumw es <= 2 * opt)%Z.
Proof.
  intros v terms cl d prev tree nodes es opt H HS HU E1 E2 Ht Es Eo.
  exact (steiner_two_approx v terms cl d prev tree nodes es opt H HS HU E1 E2 Ht Es Eo).
Qed.

(* ... and is accepted by steiner_check: C20e_possible_implies_check with the verdict 5 excluded *)
Theorem C20g_possible_implies_check_0 : forall v terms nodes es, steiner_possible v terms nodes es = true ->
  length terms <= 5 -> SOk v terms -> SimpleRefs v -> Undirected v -> steiner_check v terms nodes es = 0.
Proof. intros v terms nodes es E H5 H HS HU. exact (possible_implies_check_0 v terms nodes es E H5 H HS HU). Qed.

(* ------------------------------------------------------------------ *)
(* Non-vacuity: the witness of C20e (Proofs/SteinerMEx.v: w_view undirected, w_T = [3; 2; 5; 1]) *)
Example C20g_ex_hyps : SOk w_view w_T /\ SimpleRefs w_view /\ Undirected w_view.
Proof. exact (conj w_sok (conj w_simple w_undirected)). Qed.

(* the closure, the optimum 6, a spanning tree of the closure of weight 7 <= 12 *)
Example C20g_ex_closure_tree :
  metric_closure w_view w_T = Ok [(3, 2, 2%Z); (3, 5, 4%Z); (3, 1, 2%Z); (2, 5, 4%Z); (2, 1, 1%Z); (5, 1, 4%Z)] /\
  steiner_opt w_view w_T = Some 6%Z /\
  In [(3, 2, 2%Z); (3, 5, 4%Z); (2, 1, 1%Z)]
     (closure_trees 6 4 [(3, 2, 2%Z); (3, 5, 4%Z); (3, 1, 2%Z); (2, 5, 4%Z); (2, 1, 1%Z); (5, 1, 4%Z)]) /\
  Z.le (sumw [(3, 2, 2%Z); (3, 5, 4%Z); (2, 1, 1%Z)]) (2 * 6)%Z.
Proof. exact w_closure_tree. Qed.

(* T2 applied: every result of the mirror on the witness weighs at most 12, and is accepted with verdict 0 *)
Example C20g_ex_two_approx : forall nodes es, SteinerRun w_view w_T nodes es -> (sumw es <= 12)%Z.
Proof. exact w_two_approx. Qed.
Example C20g_ex_check_0 : forall nodes es, steiner_possible w_view w_T nodes es = true ->
  steiner_check w_view w_T nodes es = 0.
Proof. exact w_check_0. Qed.

(* Undirected is needed: the directed 4-cycle 0 -> 1 -> 2 -> 3 -> 0 with unit weights, terminals [1; 0] *)
Example C20g_ex_directed :
  SOk d_view d_T /\ SimpleRefs d_view /\ ~ Undirected d_view /\
  metric_closure d_view d_T = Ok [(1, 0, 3%Z)] /\
  closure_trees 4 2 [(1, 0, 3%Z)] = [[(1, 0, 3%Z)]] /\
  steiner_opt d_view d_T = Some 1%Z /\
  steiner_outputs d_view d_T = Ok [([0; 1; 2; 3], [(1, 2, 1%Z); (2, 3, 1%Z); (3, 0, 1%Z)])] /\
  steiner_possible d_view d_T [0; 1; 2; 3] [(1, 2, 1%Z); (2, 3, 1%Z); (3, 0, 1%Z)] = true /\
  steiner_check d_view d_T [0; 1; 2; 3] [(1, 2, 1%Z); (2, 3, 1%Z); (3, 0, 1%Z)] = 5.
Proof. exact (conj d_sok (conj d_simple (conj d_not_undirected d_counterexample))). Qed.

Check C20g_undirected_flag : forall v, vdirected v = false -> Undirected v.
Check C20g_tour : forall (Dm : nat -> Prop) (D : nat -> nat -> Z),
  (forall a, Dm a -> D a a = 0%Z) ->
  (forall a b, Dm a -> Dm b -> D a b = D b a) ->
  (forall a b c, Dm a -> Dm b -> Dm c -> (D a c <= D a b + D b c)%Z) ->
  forall N E S, IsTree N (ends E) -> (forall x, In x N -> Dm x) -> EdgeOk D E ->
    NoDup S -> S <> [] -> incl S N ->
    exists L, Permutation L S /\ (closed D L <= 2 * weight E)%Z.
Check C20g_closure_tree_le_twice_opt : forall v terms cl opt, SOk v terms -> Undirected v ->
  metric_closure v terms = Ok cl -> steiner_opt v terms = Some opt ->
  exists t', In t' (closure_trees (vbound v) (length terms) cl) /\ (sumw t' <= 2 * opt)%Z.
Check C20g_closure_mst_le_twice_opt : forall v terms cl tree opt, SOk v terms -> Undirected v ->
  metric_closure v terms = Ok cl -> In tree (closure_msts (vbound v) (length terms) cl) ->
  steiner_opt v terms = Some opt -> (sumw tree <= 2 * opt)%Z.
Check C20g_two_approx : forall v terms cl d prev tree nodes es opt, SOk v terms -> SimpleRefs v -> Undirected v ->
  metric_closure v terms = Ok cl -> floyd_warshall KMIN KMAX v = Ok (Some (d, prev)) ->
  In tree (closure_msts (vbound v) (length terms) cl) -> steiner_for v terms prev tree = Ok (nodes, es) ->
  steiner_opt v terms = Some opt -> (sumw es <= 2 * opt)%Z.
Check C20g_possible_implies_check_0 : forall v terms nodes es, steiner_possible v terms nodes es = true ->
  length terms <= 5 -> SOk v terms -> SimpleRefs v -> Undirected v -> steiner_check v terms nodes es = 0.

Print Assumptions C20g_undirected_flag.
Print Assumptions C20g_tour.
Print Assumptions C20g_closure_tree_le_twice_opt.
Print Assumptions C20g_closure_mst_le_twice_opt.
Print Assumptions C20g_two_approx.
Print Assumptions C20g_possible_implies_check_0.
Print Assumptions C20g_ex_hyps.
Print Assumptions C20g_ex_closure_tree.
Print Assumptions C20g_ex_two_approx.
Print Assumptions C20g_ex_check_0.
Print Assumptions C20g_ex_directed.
