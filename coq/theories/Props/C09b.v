(* C09b — what C09 left open about the strongly connected components:
     T1  the lists tarjan_scc reports are exactly the classes of mutual reachability;
     T2  they come in reverse topological order: no component reaches a later one (the same
         orientation as kosaraju_scc — petgraph: "the order of the sccs is their postorder");
     T3  tarjan_scc and kosaraju_scc report the same classes (as sets of sets) and the same number
         of them; the two lists are in general NOT the reverse of one another, nor equal up to the
         order inside the classes (C09_ex below: both put the sink component {3,4} before {0,1,2},
         but the isolated node 5 is first for kosaraju_scc and last for tarjan_scc);
     T4  after TarjanScc::run, node_component_index(x) is defined for every node (no panic, debug
         assertions included) and is the 0-based position of the component holding x;
     T5  condensation over the view of a Graph (Model/CondenseM.v).
   This file holds only the property theorems (closed by [exact]), their pinned statements
   ([Check]), their assumptions, and non-vacuity examples.

   Vocabulary (as in Props/C09.v: step, reachable, VOk, mutual, scc_class, no_later_reach) and
   (Proofs/CondenseP.v, Proofs/CondenseAcy.v):
     graph_view v        VOk v, the nodes are 0..n-1 in order, every edge reference (id, s, t, w) is a
                         step s -> t of the view, and every step a -> b comes from an edge reference
                         (a, b), or (b, a) when the view is undirected
     graph_viewb v       the boolean check of graph_view
     step_sym v          step v a b -> step v b a (holds for the view of an undirected Graph)
     step_symb v         the boolean check of step_sym
     comp_index sccs x 0 the position of the first list of sccs containing x (Model/CondenseM.v)
     ewalk es s t        a non-empty walk s -> ... -> t along the edges (source, target, weight) of es
     joins_lists dir q m1 m2   the edge reference q goes from a node of m1 to a node of m2, or, when
                         dir = false, from a node of m2 to a node of m1
   The result of condensation is (members, es): the k-th list of members holds the nodes of
   component k, es lists the edges (source component, target component, weight).

   Hypotheses of the tarjan theorems, as in C09_tarjan_scc_is_partition: a well-formed view,
   node numbers below node_bound, fewer than usize::MAX nodes. *)
From Coq Require Import Permutation Sorted NArith.
From PG Require Import Lib.Io Model.View Model.Traversal Model.AlgoBasic Model.CondenseM
                       Spec.Reach Spec.Partition Spec.AlgoSpec
                       Proofs.TarjanExactP Proofs.SccAgreeP
                       Proofs.CondenseP Proofs.CondenseAcy Props.C09.

(* ------------------------------------------------------------------ *)
(* T1, T2: tarjan_scc                                                  *)

(* every list reported is exactly one class of mutual reachability *)
Theorem C09b_tarjan_components_are_sccs : forall v debug ls,
  VOk v -> (forall n, In n (vnodes v) -> n < vbound v) ->
  (N.of_nat (length (vnodes v)) < USIZE_MAX)%N ->
  tarjan_scc v debug = Ok ls -> Forall (scc_class v) ls.
Proof. intros v debug ls Hv Hb Hs E. exact (tarjan_classes v debug Hv Hb Hs ls E). Qed.

(* no node of a component reaches a node of a component reported later *)
Theorem C09b_tarjan_order : forall v debug ls,
  VOk v -> (forall n, In n (vnodes v) -> n < vbound v) ->
  (N.of_nat (length (vnodes v)) < USIZE_MAX)%N ->
  tarjan_scc v debug = Ok ls -> no_later_reach v ls.
Proof. intros v debug ls Hv Hb Hs E. exact (tarjan_order v debug Hv Hb Hs ls E). Qed.

(* the whole contract at once, in the shape of C09_kosaraju_partition *)
Theorem C09b_tarjan_scc_all : forall v debug,
  VOk v -> (forall n, In n (vnodes v) -> n < vbound v) ->
  (N.of_nat (length (vnodes v)) < USIZE_MAX)%N ->
  exists ls, tarjan_scc v debug = Ok ls /\
    NoDup (concat ls) /\ (forall x, In x (concat ls) <-> In x (vnodes v)) /\
    (NoDup (vnodes v) -> Permutation (concat ls) (vnodes v)) /\
    Forall (fun c => c <> []) ls /\
    Forall (scc_class v) ls /\ no_later_reach v ls.
Proof. intros v debug Hv Hb Hs. exact (tarjan_all v debug Hv Hb Hs). Qed.

(* ------------------------------------------------------------------ *)
(* T3: the same components as kosaraju_scc                             *)

Theorem C09b_tarjan_kosaraju_same_classes : forall v debug lk lt,
  VOk v -> (forall n, In n (vnodes v) -> n < vbound v) ->
  (N.of_nat (length (vnodes v)) < USIZE_MAX)%N ->
  kosaraju_scc v = Ok lk -> tarjan_scc v debug = Ok lt ->
  (forall c, In c lt -> exists c', In c' lk /\ forall z, In z c <-> In z c') /\
  (forall c', In c' lk -> exists c, In c lt /\ forall z, In z c' <-> In z c) /\
  length lt = length lk.
Proof. intros v debug lk lt Hv Hb Hs Ek Et. exact (tarjan_kosaraju_agree v debug lk lt Hv Hb Hs Ek Et). Qed.

(* ------------------------------------------------------------------ *)
(* T4: node_component_index after run                                  *)

(* run succeeds (the debug assertion "stack is empty" included) ... *)
Theorem C09b_tarjan_run_total : forall v debug,
  VOk v -> (forall n, In n (vnodes v) -> n < vbound v) ->
  (N.of_nat (length (vnodes v)) < USIZE_MAX)%N ->
  exists t out, tarjan_run v debug = Ok (t, out) /\ tarjan_scc v debug = Ok out.
Proof.
  intros v debug Hv Hb Hs.
  exact (match tarjan_exact v debug Hv Hb Hs with
         | ex_intro _ t (ex_intro _ out (conj E _)) =>
             ex_intro _ t (ex_intro _ out (conj E (f_equal (rmap snd) E)))
         end).
Qed.

(* ... and then node_component_index of a member of the i-th component is i; every node is a
   member of some component (of exactly one: C09_tarjan_scc_is_partition) *)
Theorem C09b_tarjan_component_index : forall v debug t out,
  VOk v -> (forall n, In n (vnodes v) -> n < vbound v) ->
  (N.of_nat (length (vnodes v)) < USIZE_MAX)%N ->
  tarjan_run v debug = Ok (t, out) ->
  (forall i c z, nth_error out i = Some c -> In z c ->
     node_component_index t debug z = Ok (N.of_nat i)) /\
  (forall z, In z (vnodes v) ->
     exists i c, nth_error out i = Some c /\ In z c /\
                 node_component_index t debug z = Ok (N.of_nat i)).
Proof. intros v debug t out Hv Hb Hs E. exact (tarjan_component_index v debug Hv Hb Hs t out E). Qed.

(* ------------------------------------------------------------------ *)
(* T5: condensation                                                    *)

(* ------------------------------------------------------------------ *)
(* the hypothesis                                                      *)

Theorem C09b_cond_graph_viewb_sound : forall v, graph_viewb v = true -> graph_view v.
Proof. intros v H. exact (graph_viewb_ok v H). Qed.

Theorem C09b_cond_step_symb_sound : forall v, VOk v -> step_symb v = true -> step_sym v.
Proof. intros v Hv H. exact (step_symb_ok v Hv H). Qed.

(* ------------------------------------------------------------------ *)
(* (a) never a panic or fuel exhaustion                                *)

Theorem C09b_cond_total : forall v make_acyclic,
  graph_view v -> exists members es, condensation v make_acyclic = Ok (members, es).
Proof. intros v mk Hg. exact (condensation_total v mk Hg). Qed.

(* ------------------------------------------------------------------ *)
(* (b) the member lists are the components of kosaraju_scc, position by position, each in
   increasing node order                                               *)

Theorem C09b_cond_members : forall v make_acyclic sccs members es,
  graph_view v -> kosaraju_scc v = Ok sccs -> condensation v make_acyclic = Ok (members, es) ->
  length members = length sccs /\
  Forall2 (fun m c => (forall x, In x m <-> In x c) /\ StronglySorted lt m) members sccs.
Proof. intros v mk sccs members es Hg E C. exact (cond_members_spec v mk sccs members es Hg E C). Qed.

(* ... so they partition the nodes into exactly the classes of mutual reachability *)
Theorem C09b_cond_members_partition : forall v make_acyclic sccs members es,
  graph_view v -> kosaraju_scc v = Ok sccs -> condensation v make_acyclic = Ok (members, es) ->
  Forall (scc_class v) members /\ NoDup (concat members) /\
  (forall x, In x (concat members) <-> In x (vnodes v)) /\
  Permutation (concat members) (vnodes v).
Proof. intros v mk sccs members es Hg E C. exact (cond_members_partition v mk sccs members es Hg E C). Qed.

(* ------------------------------------------------------------------ *)
(* (c) make_acyclic = false: one edge per edge reference, in edge_references order, between the
   components ci(source), ci(target) with the same weight; ci x is the position of the
   component / member list holding x                                   *)

Theorem C09b_cond_edges_plain : forall v sccs members es,
  graph_view v -> kosaraju_scc v = Ok sccs -> condensation v false = Ok (members, es) ->
  exists ci : nat -> nat,
    (forall x, In x (vnodes v) ->
       comp_index sccs x 0 = Some (ci x) /\
       exists m, nth_error members (ci x) = Some m /\ In x m) /\
    (forall q, In q (verefs v) -> In (esrc q) (vnodes v) /\ In (etgt q) (vnodes v)) /\
    es = map (fun q => (ci (esrc q), ci (etgt q), snd q)) (verefs v).
Proof. intros v sccs members es Hg E C. exact (cond_edges_plain v sccs members es Hg E C). Qed.

(* ------------------------------------------------------------------ *)
(* (d) make_acyclic = true                                             *)

Theorem C09b_cond_acyclic_no_loop : forall v sccs members es,
  graph_view v -> kosaraju_scc v = Ok sccs -> condensation v true = Ok (members, es) ->
  forall s t w, In (s, t, w) es -> s <> t.
Proof. intros v sccs members es Hg E C. exact (cond_acy_no_loop v sccs members es Hg E C). Qed.

(* every edge goes from a component to an earlier one (kosaraju_scc lists the components in
   reverse topological order) ... *)
Theorem C09b_cond_acyclic_edge_order : forall v sccs members es,
  graph_view v -> kosaraju_scc v = Ok sccs -> condensation v true = Ok (members, es) ->
  forall s t w, In (s, t, w) es -> t < s.
Proof. intros v sccs members es Hg E C. exact (cond_acy_edge_order v sccs members es Hg E C). Qed.

(* ... so the condensed graph has no closed walk *)
Theorem C09b_cond_acyclic_no_closed_walk : forall v sccs members es,
  graph_view v -> kosaraju_scc v = Ok sccs -> condensation v true = Ok (members, es) ->
  forall s, ~ ewalk es s s.
Proof. intros v sccs members es Hg E C. exact (cond_acy_no_closed_walk v sccs members es Hg E C). Qed.

(* two distinct components k1, k2 are joined by a condensed edge (k1, k2) — or (k2, k1) when
   undirected — exactly when some edge reference joins a node of one to a node of the other *)
Theorem C09b_cond_acyclic_edge_iff : forall v sccs members es,
  graph_view v -> kosaraju_scc v = Ok sccs -> condensation v true = Ok (members, es) ->
  forall k1 k2, k1 <> k2 ->
  ((In (k1, k2) (map fst es) \/ (vdirected v = false /\ In (k2, k1) (map fst es))) <->
   exists q m1 m2, In q (verefs v) /\
     nth_error members k1 = Some m1 /\ nth_error members k2 = Some m2 /\
     joins_lists (vdirected v) q m1 m2).
Proof. intros v sccs members es Hg E C. exact (cond_acy_edge_iff v sccs members es Hg E C). Qed.

(* at most one edge per ordered pair; per unordered pair when undirected *)
Theorem C09b_cond_acyclic_unique : forall v sccs members es,
  graph_view v -> kosaraju_scc v = Ok sccs -> condensation v true = Ok (members, es) ->
  NoDup (map fst es) /\
  (vdirected v = false -> forall s t, In (s, t) (map fst es) -> ~ In (t, s) (map fst es)).
Proof. intros v sccs members es Hg E C. exact (cond_acy_unique v sccs members es Hg E C). Qed.

(* the weight of a condensed edge is the weight of the last edge reference joining the two
   components (update_edge overwrites) *)
Theorem C09b_cond_acyclic_weight_last : forall v sccs members es,
  graph_view v -> kosaraju_scc v = Ok sccs -> condensation v true = Ok (members, es) ->
  forall s t w, In (s, t, w) es ->
  exists pre q post m1 m2,
    verefs v = pre ++ q :: post /\ snd q = w /\
    nth_error members s = Some m1 /\ nth_error members t = Some m2 /\
    joins_lists (vdirected v) q m1 m2 /\
    forall q', In q' post -> ~ joins_lists (vdirected v) q' m1 m2.
Proof. intros v sccs members es Hg E C. exact (cond_acy_weight_last v sccs members es Hg E C). Qed.

(* when steps are symmetric (an undirected Graph) the components are the connected components
   and no edge is left *)
Theorem C09b_cond_acyclic_symmetric_empty : forall v sccs members es,
  graph_view v -> kosaraju_scc v = Ok sccs -> condensation v true = Ok (members, es) ->
  step_sym v -> es = [].
Proof. intros v sccs members es Hg E C. exact (cond_acy_sym_empty v sccs members es Hg E C). Qed.

(* ------------------------------------------------------------------ *)
(* Non-vacuity.  C09_ex (Props/C09.v): SCCs {0,1,2}, {3,4}, {5}, one edge 2 -> 3.
   C09b_dir: SCCs {0,1}, {2,3}, {4}, {5}; a self-loop 1 -> 1 (weight 13); two edges 1 -> 2
   (weight 12) and 0 -> 3 (weight 16) from {0,1} to {2,3}, merged with the last weight; edges
   4 -> 0 and 4 -> 3.  C09b_und: undirected, two parallel edges 0 - 1, a self-loop at 2, an edge
   1 - 2, an isolated node 3.                                           *)

Definition C09b_dir : view :=
  mkView true 6 (Some 6) [0;1;2;3;4;5]
    [(0, [(6,3,16%Z); (0,1,10%Z)]); (1, [(3,1,13%Z); (2,2,12%Z); (1,0,11%Z)]); (2, [(4,3,14%Z)]);
     (3, [(5,2,15%Z)]); (4, [(8,3,18%Z); (7,0,17%Z)])]
    [(0, [(7,4,17%Z); (1,1,11%Z)]); (1, [(3,1,13%Z); (0,0,10%Z)]); (2, [(5,3,15%Z); (2,1,12%Z)]);
     (3, [(8,4,18%Z); (6,0,16%Z); (4,2,14%Z)])]
    9 9 [(0,0,1,10%Z); (1,1,0,11%Z); (2,1,2,12%Z); (3,1,1,13%Z); (4,2,3,14%Z); (5,3,2,15%Z);
         (6,0,3,16%Z); (7,4,0,17%Z); (8,4,3,18%Z)].

Definition C09b_und : view :=
  mkView false 4 (Some 4) [0;1;2;3]
    [(0, [(1,1,21%Z); (0,1,20%Z)]); (1, [(3,2,23%Z); (1,0,21%Z); (0,0,20%Z)]);
     (2, [(3,1,23%Z); (2,2,22%Z)])]
    [(0, [(1,1,21%Z); (0,1,20%Z)]); (1, [(3,2,23%Z); (1,0,21%Z); (0,0,20%Z)]);
     (2, [(3,1,23%Z); (2,2,22%Z)])]
    4 4 [(0,0,1,20%Z); (1,1,0,21%Z); (2,2,2,22%Z); (3,1,2,23%Z)].

Example C09b_cond_ex_ok :
  graph_view C09_ex /\ graph_view C09b_dir /\ graph_view C09b_und /\ step_sym C09b_und.
Proof.
  split; [apply graph_viewb_ok; vm_compute; reflexivity|].
  split; [apply graph_viewb_ok; vm_compute; reflexivity|].
  split; [apply graph_viewb_ok; vm_compute; reflexivity|].
  apply step_symb_ok; [apply vok_check_ok|]; vm_compute; reflexivity.
Qed.

Example C09b_cond_ex_values :
  kosaraju_scc C09_ex = Ok [[5]; [3; 4]; [0; 1; 2]]
  /\ condensation C09_ex false =
       Ok ([[5]; [3; 4]; [0; 1; 2]],
           [(2, 2, 0%Z); (2, 2, 0%Z); (2, 2, 0%Z); (2, 1, 0%Z); (1, 1, 0%Z); (1, 1, 0%Z)])
  /\ condensation C09_ex true = Ok ([[5]; [3; 4]; [0; 1; 2]], [(2, 1, 0%Z)])
  /\ kosaraju_scc C09b_dir = Ok [[5]; [2; 3]; [0; 1]; [4]]
  /\ condensation C09b_dir false =
       Ok ([[5]; [2; 3]; [0; 1]; [4]],
           [(2, 2, 10%Z); (2, 2, 11%Z); (2, 1, 12%Z); (2, 2, 13%Z); (1, 1, 14%Z); (1, 1, 15%Z);
            (2, 1, 16%Z); (3, 2, 17%Z); (3, 1, 18%Z)])
  (* the loop (2, 2, 13) and the edges inside a component dropped; (2, 1, 12) and (2, 1, 16)
     merged into one edge with the last weight *)
  /\ condensation C09b_dir true =
       Ok ([[5]; [2; 3]; [0; 1]; [4]], [(2, 1, 16%Z); (3, 2, 17%Z); (3, 1, 18%Z)])
  /\ kosaraju_scc C09b_und = Ok [[3]; [0; 1; 2]]
  /\ condensation C09b_und false =
       Ok ([[3]; [0; 1; 2]], [(1, 1, 20%Z); (1, 1, 21%Z); (1, 1, 22%Z); (1, 1, 23%Z)])
  /\ condensation C09b_und true = Ok ([[3]; [0; 1; 2]], []).
Proof. vm_compute. repeat split; reflexivity. Qed.


(* tarjan_scc on the examples: C09_ex (Props/C09.v) and C09b_dir; the index of every node *)
Example C09b_tarjan_ex_ok :
  VOk C09_ex /\ (forall n, In n (vnodes C09_ex) -> n < vbound C09_ex) /\
  (N.of_nat (length (vnodes C09_ex)) < USIZE_MAX)%N /\
  VOk C09b_dir /\ (forall n, In n (vnodes C09b_dir) -> n < vbound C09b_dir) /\
  (N.of_nat (length (vnodes C09b_dir)) < USIZE_MAX)%N.
Proof.
  split; [apply vok_check_ok; vm_compute; reflexivity|].
  split; [intros n Hn; cbn [C09_ex vnodes vbound In] in *; lia|].
  split; [vm_compute; reflexivity|].
  split; [apply vok_check_ok; vm_compute; reflexivity|].
  split; [intros n Hn; cbn [C09b_dir vnodes vbound In] in *; lia|].
  vm_compute; reflexivity.
Qed.

Definition C09b_run_indices (v : view) (debug : bool) : list (list nat) * list (res N) :=
  match tarjan_run v debug with
  | Ok (t, out) => (out, map (node_component_index t debug) (vnodes v))
  | _ => ([], [])
  end.

Example C09b_tarjan_ex_values :
  kosaraju_scc C09_ex = Ok [[5]; [3; 4]; [0; 1; 2]]
  /\ tarjan_scc C09_ex true = Ok [[4; 3]; [2; 1; 0]; [5]]
  /\ C09b_run_indices C09_ex true =
       ([[4; 3]; [2; 1; 0]; [5]], [Ok 1; Ok 1; Ok 1; Ok 0; Ok 0; Ok 2]%N)
  /\ kosaraju_scc C09b_dir = Ok [[5]; [2; 3]; [0; 1]; [4]]
  /\ tarjan_scc C09b_dir true = Ok [[2; 3]; [1; 0]; [4]; [5]]
  /\ C09b_run_indices C09b_dir false =
       ([[2; 3]; [1; 0]; [4]; [5]], [Ok 1; Ok 1; Ok 0; Ok 0; Ok 2; Ok 3]%N).
Proof. vm_compute. repeat split; reflexivity. Qed.

(* ------------------------------------------------------------------ *)

Check C09b_tarjan_components_are_sccs : forall v debug ls,
  VOk v -> (forall n, In n (vnodes v) -> n < vbound v) ->
  (N.of_nat (length (vnodes v)) < USIZE_MAX)%N ->
  tarjan_scc v debug = Ok ls -> Forall (scc_class v) ls.
Check C09b_tarjan_order : forall v debug ls,
  VOk v -> (forall n, In n (vnodes v) -> n < vbound v) ->
  (N.of_nat (length (vnodes v)) < USIZE_MAX)%N ->
  tarjan_scc v debug = Ok ls -> no_later_reach v ls.
Check C09b_tarjan_scc_all : forall v debug,
  VOk v -> (forall n, In n (vnodes v) -> n < vbound v) ->
  (N.of_nat (length (vnodes v)) < USIZE_MAX)%N ->
  exists ls, tarjan_scc v debug = Ok ls /\
    NoDup (concat ls) /\ (forall x, In x (concat ls) <-> In x (vnodes v)) /\
    (NoDup (vnodes v) -> Permutation (concat ls) (vnodes v)) /\
    Forall (fun c => c <> []) ls /\
    Forall (scc_class v) ls /\ no_later_reach v ls.
Check C09b_tarjan_kosaraju_same_classes : forall v debug lk lt,
  VOk v -> (forall n, In n (vnodes v) -> n < vbound v) ->
  (N.of_nat (length (vnodes v)) < USIZE_MAX)%N ->
  kosaraju_scc v = Ok lk -> tarjan_scc v debug = Ok lt ->
  (forall c, In c lt -> exists c', In c' lk /\ forall z, In z c <-> In z c') /\
  (forall c', In c' lk -> exists c, In c lt /\ forall z, In z c' <-> In z c) /\
  length lt = length lk.
Check C09b_tarjan_run_total : forall v debug,
  VOk v -> (forall n, In n (vnodes v) -> n < vbound v) ->
  (N.of_nat (length (vnodes v)) < USIZE_MAX)%N ->
  exists t out, tarjan_run v debug = Ok (t, out) /\ tarjan_scc v debug = Ok out.
Check C09b_tarjan_component_index : forall v debug t out,
  VOk v -> (forall n, In n (vnodes v) -> n < vbound v) ->
  (N.of_nat (length (vnodes v)) < USIZE_MAX)%N ->
  tarjan_run v debug = Ok (t, out) ->
  (forall i c z, nth_error out i = Some c -> In z c ->
     node_component_index t debug z = Ok (N.of_nat i)) /\
  (forall z, In z (vnodes v) ->
     exists i c, nth_error out i = Some c /\ In z c /\
                 node_component_index t debug z = Ok (N.of_nat i)).
Check C09b_cond_graph_viewb_sound : forall v, graph_viewb v = true -> graph_view v.
Check C09b_cond_step_symb_sound : forall v, VOk v -> step_symb v = true -> step_sym v.
Check C09b_cond_total : forall v make_acyclic,
  graph_view v -> exists members es, condensation v make_acyclic = Ok (members, es).
Check C09b_cond_members : forall v make_acyclic sccs members es,
  graph_view v -> kosaraju_scc v = Ok sccs -> condensation v make_acyclic = Ok (members, es) ->
  length members = length sccs /\
  Forall2 (fun m c => (forall x, In x m <-> In x c) /\ StronglySorted lt m) members sccs.
Check C09b_cond_members_partition : forall v make_acyclic sccs members es,
  graph_view v -> kosaraju_scc v = Ok sccs -> condensation v make_acyclic = Ok (members, es) ->
  Forall (scc_class v) members /\ NoDup (concat members) /\
  (forall x, In x (concat members) <-> In x (vnodes v)) /\
  Permutation (concat members) (vnodes v).
Check C09b_cond_edges_plain : forall v sccs members es,
  graph_view v -> kosaraju_scc v = Ok sccs -> condensation v false = Ok (members, es) ->
  exists ci : nat -> nat,
    (forall x, In x (vnodes v) ->
       comp_index sccs x 0 = Some (ci x) /\
       exists m, nth_error members (ci x) = Some m /\ In x m) /\
    (forall q, In q (verefs v) -> In (esrc q) (vnodes v) /\ In (etgt q) (vnodes v)) /\
    es = map (fun q => (ci (esrc q), ci (etgt q), snd q)) (verefs v).
Check C09b_cond_acyclic_no_loop : forall v sccs members es,
  graph_view v -> kosaraju_scc v = Ok sccs -> condensation v true = Ok (members, es) ->
  forall s t w, In (s, t, w) es -> s <> t.
Check C09b_cond_acyclic_edge_order : forall v sccs members es,
  graph_view v -> kosaraju_scc v = Ok sccs -> condensation v true = Ok (members, es) ->
  forall s t w, In (s, t, w) es -> t < s.
Check C09b_cond_acyclic_no_closed_walk : forall v sccs members es,
  graph_view v -> kosaraju_scc v = Ok sccs -> condensation v true = Ok (members, es) ->
  forall s, ~ ewalk es s s.
Check C09b_cond_acyclic_edge_iff : forall v sccs members es,
  graph_view v -> kosaraju_scc v = Ok sccs -> condensation v true = Ok (members, es) ->
  forall k1 k2, k1 <> k2 ->
  ((In (k1, k2) (map fst es) \/ (vdirected v = false /\ In (k2, k1) (map fst es))) <->
   exists q m1 m2, In q (verefs v) /\
     nth_error members k1 = Some m1 /\ nth_error members k2 = Some m2 /\
     joins_lists (vdirected v) q m1 m2).
Check C09b_cond_acyclic_unique : forall v sccs members es,
  graph_view v -> kosaraju_scc v = Ok sccs -> condensation v true = Ok (members, es) ->
  NoDup (map fst es) /\
  (vdirected v = false -> forall s t, In (s, t) (map fst es) -> ~ In (t, s) (map fst es)).
Check C09b_cond_acyclic_weight_last : forall v sccs members es,
  graph_view v -> kosaraju_scc v = Ok sccs -> condensation v true = Ok (members, es) ->
  forall s t w, In (s, t, w) es ->
  exists pre q post m1 m2,
    verefs v = pre ++ q :: post /\ snd q = w /\
    nth_error members s = Some m1 /\ nth_error members t = Some m2 /\
    joins_lists (vdirected v) q m1 m2 /\
    forall q', In q' post -> ~ joins_lists (vdirected v) q' m1 m2.
Check C09b_cond_acyclic_symmetric_empty : forall v sccs members es,
  graph_view v -> kosaraju_scc v = Ok sccs -> condensation v true = Ok (members, es) ->
  step_sym v -> es = [].


Print Assumptions C09b_tarjan_components_are_sccs.
Print Assumptions C09b_tarjan_order.
Print Assumptions C09b_tarjan_scc_all.
Print Assumptions C09b_tarjan_kosaraju_same_classes.
Print Assumptions C09b_tarjan_run_total.
Print Assumptions C09b_tarjan_component_index.
Print Assumptions C09b_tarjan_ex_ok.
Print Assumptions C09b_tarjan_ex_values.
Print Assumptions C09b_cond_graph_viewb_sound.
Print Assumptions C09b_cond_step_symb_sound.
Print Assumptions C09b_cond_total.
Print Assumptions C09b_cond_members.
Print Assumptions C09b_cond_members_partition.
Print Assumptions C09b_cond_edges_plain.
Print Assumptions C09b_cond_acyclic_no_loop.
Print Assumptions C09b_cond_acyclic_edge_order.
Print Assumptions C09b_cond_acyclic_no_closed_walk.
Print Assumptions C09b_cond_acyclic_edge_iff.
Print Assumptions C09b_cond_acyclic_unique.
Print Assumptions C09b_cond_acyclic_weight_last.
Print Assumptions C09b_cond_acyclic_symmetric_empty.
Print Assumptions C09b_cond_ex_ok.
Print Assumptions C09b_cond_ex_values.
