(* C20 — the remaining algorithms: maximal_cliques, dsatur_coloring, greedy_feedback_arc_set,
   dag_to_toposorted_adjacency_list + dag_transitive_reduction_closure, all_simple_paths,
   steiner_tree.  Model/MiscM.v holds a reference (maximal cliques), checkers of the result
   (colouring, feedback arc set, Steiner tree) and mirrors of the code (tred, all_simple_paths);
   this file says what each of them means.  It holds only the property theorems (closed by
   [exact]), their pinned statements ([Check]), their assumptions, and non-vacuity examples.

   Vocabulary (Spec/MiscSpec.v, Spec/Reach.v, Spec/Forest.v):
     sublist c l           c is a subsequence of l
     Clique v c            every two different members of c are adjacent (adj_u: in either direction)
     MaximalClique v c     a clique, listed in node order, that no node of the graph extends
     same_set c1 c2        the same members
     ColTotal v col        col : list (node, colour) colours every node exactly once and nothing else
     ColProper v col       the ends of every non-loop edge are coloured, differently
     ColRange col k        the colours used are exactly 0 .. k-1
     TwoColourable v       the view has a proper 2-colouring (a self-loop has none)
     TwoColourableNL v     the same, self-loops ignored
     symmetric v, loop_free v
     inout_ids_ok v        in-lists and out-lists describe the same edges (ids and weights included)
     erefs_out_ok v        edge_references and the out-lists describe the same edges, ids distinct
     FasOK v ids           distinct edge ids, all self-loops among them, the rest is acyclic
     al_step G i j, al_plus G i j, DagAL G   adjacency lists: edge, non-empty path, DAG in topological numbering
     al_sub, al_same_closure                 subgraph, same reachability
     topo_order v order    every node once, every edge pointing forward (what toposort returns)
     no_parallel_in v      no in-list names a neighbour twice
     topo_adj_ok v order g revmap   g = the edges of v over the ranks of order, revmap = the ranks
     vplus v a b           b is reachable from a by a non-empty path
     SimplePath v a b p, inter p, no_parallel v      simple paths, number of intermediate nodes
     IsTree V prs, degree x es, St1 .. St5, SteinerTreeOf v T K F   (Steiner checker)
     (Spec/Forest.v) uconn, acyclic_edges, ends, weight, gedges, MOk *)
From Coq Require Import Sorted.
From PG Require Import Lib.Io Model.View Model.Traversal Model.AlgoBasic Model.MstM Model.MiscM
                       Spec.Reach Spec.AlgoSpec Spec.Partition Spec.Forest Spec.MiscSpec
                       Proofs.MiscCliqueP Proofs.MiscColorP Proofs.MiscFasP Proofs.MiscCheckP
                       Proofs.MiscTopoAdjP Proofs.MiscTredP Proofs.MiscTredViewP Proofs.MiscPathsP
                       Proofs.MiscSteinerP1 Proofs.MiscSteinerP2 Proofs.MiscSteinerP.

(* ------------------------------------------------------------------ *)
(* Q1. maximal_cliques (reference = the definition)                     *)

(* the members of the reference are exactly the maximal cliques, listed in node order *)
Theorem C20_cliques_iff : forall v c,
  In c (maximal_cliques_ref v) <->
  (sublist c (vnodes v) /\ Clique v c /\ forall x, In x (vnodes v) -> ~ In x c -> ~ Clique v (x :: c)).
Proof. intros v c. exact (cliques_iff v c). Qed.

(* each once *)
Theorem C20_cliques_NoDup : forall v, NoDup (vnodes v) -> NoDup (maximal_cliques_ref v).
Proof. intros v Hn. exact (cliques_NoDup v Hn). Qed.

(* two different members differ as sets; moreover none contains another *)
Theorem C20_cliques_distinct_sets : forall v c1 c2, NoDup (vnodes v) ->
  In c1 (maximal_cliques_ref v) -> In c2 (maximal_cliques_ref v) ->
  (c1 <> c2 -> ~ same_set c1 c2) /\ (incl c1 c2 -> c1 = c2).
Proof.
  intros v c1 c2 Hn H1 H2.
  exact (conj (cliques_distinct_sets v c1 c2 Hn H1 H2) (cliques_antichain v c1 c2 Hn H1 H2)).
Qed.

(* the empty graph has one maximal clique, the empty one (as the code returns) *)
Theorem C20_cliques_empty : forall v, vnodes v = [] -> maximal_cliques_ref v = [[]].
Proof. intros v E. exact (cliques_empty v E). Qed.

(* ------------------------------------------------------------------ *)
(* Q2. dsatur_coloring (checker)                                        *)

(* no hypothesis on the view; the last clause through the computed bipartite_all *)
Theorem C20_coloring_check_partial : forall v col k,
  coloring_check v col k = 0 <->
  (ColTotal v col /\ ColProper v col /\ ColRange col k /\ (bipartite_all v = true -> k <= 2)).
Proof. intros v col k. exact (coloring_check_partial v col k). Qed.

(* bipartite_all decides 2-colourability of the whole view (from C09_bipartite, per component) *)
Theorem C20_bipartite_all_iff : forall v, VOk v -> symmetric v ->
  (bipartite_all v = true <-> TwoColourable v).
Proof. intros v Hv Hs. exact (bipartite_all_iff Hv Hs). Qed.

(* accepted = a proper colouring of exactly the nodes, with exactly the colours 0..k-1, and
   k <= 2 when the graph is 2-colourable *)
Theorem C20_coloring_check_iff : forall v col k, VOk v -> symmetric v ->
  (coloring_check v col k = 0 <->
   (ColTotal v col /\ ColProper v col /\ ColRange col k /\ (TwoColourable v -> k <= 2))).
Proof. intros v col k Hv Hs. exact (coloring_check_iff col k Hv Hs). Qed.

(* the statement with self-loops ignored in "2-colourable" is right on loop-free views only
   (see C20_coloring_loop_counterexample) *)
Theorem C20_coloring_check_iff_loop_free : forall v col k, VOk v -> symmetric v -> loop_free v ->
  (coloring_check v col k = 0 <->
   (ColTotal v col /\ ColProper v col /\ ColRange col k /\
    ((exists c : nat -> bool, forall a b, In a (vnodes v) -> In b (neighbors v a) -> a <> b -> c a <> c b)
     -> k <= 2))).
Proof. intros v col k Hv Hs Hl. exact (coloring_check_iff_loop_free v col k Hv Hs Hl). Qed.

(* every verdict is the number of the first failing clause *)
Theorem C20_coloring_check_verdicts : forall v col k,
  (coloring_check v col k = 1 <-> ~ ColTotal v col) /\
  (coloring_check v col k = 2 <-> ColTotal v col /\ ~ ColProper v col) /\
  (coloring_check v col k = 3 <-> ColTotal v col /\ ColProper v col /\ ~ ColRange col k) /\
  (coloring_check v col k = 4 <->
     ColTotal v col /\ ColProper v col /\ ColRange col k /\ bipartite_all v = true /\ 2 < k) /\
  coloring_check v col k <= 4.
Proof. intros v col k. exact (coloring_check_verdicts v col k). Qed.

(* ------------------------------------------------------------------ *)
(* Q3. greedy_feedback_arc_set (checker)                                *)

(* what is left after removing the listed ids: the edges of v whose id is not listed *)
Theorem C20_without_edges_step : forall v ids a b,
  step (without_edges v ids) a b <-> exists e w, In (e, b, w) (out_edges v a) /\ ~ In e ids.
Proof. intros v ids a b. exact (without_edges_step v ids a b). Qed.

Theorem C20_without_edges_VOk : forall v ids, VOk v -> inout_ids_ok v -> VOk (without_edges v ids).
Proof. intros v ids Hv Hi. exact (without_edges_VOk ids Hv Hi). Qed.

(* accepted = distinct edge ids, every self-loop among them, the rest acyclic *)
Theorem C20_fas_check_iff : forall v ids, VOk v -> inout_ids_ok v ->
  (fas_check v ids = 0 <->
   (NoDup ids /\ incl ids (edge_ids v) /\
    (forall e s w, In (e, s, s, w) (verefs v) -> In e ids) /\
    acyclic (without_edges v ids))).
Proof. intros v ids Hv Hi. exact (fas_check_iff v ids Hv Hi). Qed.

Theorem C20_fas_check_verdicts : forall v ids, VOk v -> inout_ids_ok v ->
  (fas_check v ids = 1 <-> ~ (NoDup ids /\ incl ids (edge_ids v))) /\
  (fas_check v ids = 2 <-> (NoDup ids /\ incl ids (edge_ids v)) /\
                           exists e s w, In (e, s, s, w) (verefs v) /\ ~ In e ids) /\
  (fas_check v ids = 3 <-> (NoDup ids /\ incl ids (edge_ids v)) /\
                           (forall e s w, In (e, s, s, w) (verefs v) -> In e ids) /\
                           exists n, In n (vnodes v) /\ on_cycle (without_edges v ids) n) /\
  fas_check v ids <= 3.
Proof. intros v ids Hv Hi. exact (fas_check_verdicts v ids Hv Hi). Qed.

(* with edge_references consistent with the out-lists the first clauses read on the out-lists,
   and the self-loop clause follows from acyclicity *)
Theorem C20_fas_clauses_out : forall v ids, erefs_out_ok v ->
  (incl ids (edge_ids v) <->
     forall e, In e ids -> exists a t w, In a (vnodes v) /\ In (e, t, w) (out_edges v a)) /\
  ((forall e s w, In (e, s, s, w) (verefs v) -> In e ids) <->
     forall a e w, In a (vnodes v) -> In (e, a, w) (out_edges v a) -> In e ids) /\
  (acyclic (without_edges v ids) -> forall e s w, In (e, s, s, w) (verefs v) -> In e ids).
Proof.
  intros v ids He. destruct (fas_clauses_out v ids He) as [H1 H2].
  exact (conj H1 (conj H2 (fas_loops_from_acyclic v ids He))).
Qed.

(* ------------------------------------------------------------------ *)
(* Q4. dag_to_toposorted_adjacency_list + dag_transitive_reduction_closure (mirrors) *)

(* first half: on a topological order of a well-formed view there is no panic; revmap is the rank
   of every node, the adjacency list has exactly the edges of the view over the ranks, all
   forward, rows sorted (strictly without parallel edges) *)
Theorem C20_topo_adj_correct : forall v order,
  VOk v -> (forall a, In a (vnodes v) -> a < vbound v) ->
  NoDup order -> (forall x, In x order <-> In x (vnodes v)) ->
  (forall l1 u l2 w, order = l1 ++ u :: l2 -> step v u w -> In w l2) ->
  exists g revmap,
    dag_to_toposorted_adjacency_list v order = Ok (g, revmap) /\
    length g = length order /\ length revmap = vbound v /\
    (forall i x, nth_error order i = Some x -> nth_error revmap x = Some i) /\
    (forall x, x < vbound v -> ~ In x order -> nth_error revmap x = Some 0) /\
    (forall i j, In j (nth i g []) <->
                 exists a b, nth_error order i = Some a /\ nth_error order j = Some b /\ step v a b) /\
    (forall i j, In j (nth i g []) -> i < j < length order) /\
    (forall i, StronglySorted le (nth i g [])) /\
    ((forall b, In b (vnodes v) -> NoDup (neighbors_in v b)) -> forall i, StronglySorted lt (nth i g [])).
Proof. intros v order Hv Hb H1 H2 H3. exact (topo_adj_correct_unfolded v order Hv Hb H1 H2 H3). Qed.

(* ... hence a DAG adjacency list in topological numbering *)
Theorem C20_topo_adj_DagAL : forall v order g revmap,
  VOk v -> (forall a, In a (vnodes v) -> a < vbound v) -> topo_order v order ->
  (forall b, In b (vnodes v) -> NoDup (neighbors_in v b)) ->
  dag_to_toposorted_adjacency_list v order = Ok (g, revmap) -> DagAL g.
Proof. intros v order g revmap Hv Hb Ho Hp E. exact (topo_adj_DagAL v order g revmap Hv Hb Ho Hp E). Qed.

(* second half: no panic; tclos is exactly reachability by a non-empty path, tred exactly the
   edges not implied by a longer path; no row repeats an entry *)
Theorem C20_tred_closure_correct : forall G, DagAL G ->
  exists tred tclos,
    dag_transitive_reduction_closure G = Ok (tred, tclos) /\
    length tred = length G /\ length tclos = length G /\
    forall i,
      (forall j, In j (nth i tclos []) <-> al_plus G i j) /\
      NoDup (nth i tclos []) /\
      (forall j, In j (nth i tred []) <->
                 al_step G i j /\ ~ exists k, al_plus G i k /\ al_plus G k j) /\
      NoDup (nth i tred []) /\
      StronglySorted lt (nth i tred []).
Proof. intros G HG. exact (tred_closure_correct G HG). Qed.

(* the closure of tred = tclos = the closure of G *)
Theorem C20_tred_same_closure : forall G tred tclos, DagAL G ->
  dag_transitive_reduction_closure G = Ok (tred, tclos) ->
  forall i j, (al_plus tred i j <-> al_plus G i j) /\ (In j (nth i tclos []) <-> al_plus G i j) /\
              (al_plus tclos i j <-> In j (nth i tclos [])).
Proof.
  intros G tred tclos HG E i j. destruct (tclos_transitive G tred tclos HG E i j) as [H1 [H2 H3]].
  exact (conj (tred_same_closure G tred tclos HG E i j) (conj H2 H1)).
Qed.

(* tred is a subgraph of G with the same closure, contained in every other one: the unique minimal one *)
Theorem C20_tred_minimal_unique : forall G tred tclos, DagAL G ->
  dag_transitive_reduction_closure G = Ok (tred, tclos) ->
  (al_sub tred G /\ al_same_closure tred G) /\
  forall H, length H = length G -> al_sub H G -> al_same_closure H G -> al_sub tred H.
Proof. intros G tred tclos HG E. exact (tred_minimal_unique G tred tclos HG E). Qed.

(* both halves after toposort, read on the view *)
Theorem C20_tred_of_view : forall v order,
  VOk v -> (forall a, In a (vnodes v) -> a < vbound v) -> no_parallel_in v ->
  toposort v = Ok (inr order) ->
  exists g revmap tred tclos,
    dag_to_toposorted_adjacency_list v order = Ok (g, revmap) /\ topo_adj_ok v order g revmap /\ DagAL g /\
    dag_transitive_reduction_closure g = Ok (tred, tclos) /\
    length tred = length order /\ length tclos = length order /\
    (forall i j, In j (nth i tclos []) <->
       exists a b, nth_error order i = Some a /\ nth_error order j = Some b /\ vplus v a b) /\
    (forall i j, In j (nth i tred []) <->
       exists a b, nth_error order i = Some a /\ nth_error order j = Some b /\ step v a b /\
                   ~ exists c, vplus v a c /\ vplus v c b) /\
    (forall i, NoDup (nth i tred []) /\ NoDup (nth i tclos [])).
Proof. intros v order Hv Hb Hp E. exact (tred_of_view v order Hv Hb Hp E). Qed.

(* ------------------------------------------------------------------ *)
(* Q5. all_simple_paths (mirror)                                        *)

(* the loop invariant, for any fuel and any state: visited = the current path, stack = the children
   left at each level, acc = the paths found so far (newest first); a result is acc followed by
   the reference enumeration (Spec/MiscSpec.v: enum_stack, paths_from) of what is left *)
Theorem C20_asp_loop_invariant : forall v to min_len max_len fuel visited stack acc r,
  asp_loop fuel v to min_len max_len visited stack acc = Ok r ->
  r = rev acc ++ enum_stack v to min_len max_len visited stack.
Proof.
  intros v to min_len max_len fuel visited stack acc r H.
  exact (@asp_loop_inv v to min_len max_len fuel visited stack acc r H).
Qed.

(* an Ok result lists exactly the simple paths from -> to whose number of intermediate nodes is
   between min_i and the bound (max_i, by default node_count - 2), each once without parallel
   edges.  With the default bound a view without nodes must not have the edge from -> to. *)
Theorem C20_all_simple_paths_correct : forall v from to min_i max_i debug ps,
  from <> to ->
  (max_i = None -> vnodes v = [] -> ~ step v from to) ->
  all_simple_paths v from to min_i max_i debug = Ok ps ->
  (forall p, In p ps <->
             (SimplePath v from to p /\ min_i <= inter p /\ inter p <= inter_bound v max_i)) /\
  (no_parallel v -> NoDup ps).
Proof.
  intros v from to min_i max_i debug ps Hft Hwf H.
  exact (@all_simple_paths_correct v from to min_i max_i debug ps Hft Hwf H).
Qed.

(* the hypothesis on the empty node list cannot be dropped (release build: Ok []) *)
Theorem C20_all_simple_paths_hyp_needed : forall v from to,
  from <> to -> vnodes v = [] -> step v from to ->
  all_simple_paths v from to 0 None false = Ok [] /\
  SimplePath v from to [from; to] /\ 0 <= inter [from; to] /\ inter [from; to] <= inter_bound v None.
Proof. intros v from to Hft Hn Hs. exact (@all_simple_paths_hyp_needed v from to Hft Hn Hs). Qed.

(* the default bound node_count - 1 on the path length is no bound at all on a well-formed view *)
Theorem C20_all_simple_paths_default : forall v from to min_i debug ps,
  from <> to -> nodes_ok v -> NoDup (vnodes v) ->
  all_simple_paths v from to min_i None debug = Ok ps ->
  (forall p, In p ps <-> (SimplePath v from to p /\ min_i <= inter p)) /\
  (no_parallel v -> NoDup ps).
Proof.
  intros v from to min_i debug ps Hft Hn Hd H.
  exact (@asp_default_all v from to min_i debug ps Hft Hn Hd H).
Qed.

(* ------------------------------------------------------------------ *)
(* Q6. steiner_tree (checker)                                           *)

Theorem C20_tree_check_iff : forall nodes es bound,
  tree_check nodes es bound = true <->
  ((nodes = [] /\ es = []) \/
   (nodes <> [] /\ S (length es) = length nodes /\
    (forall a b w, In (a, b, w) es -> a < bound /\ b < bound) /\ acyclic_edges (ends es))).
Proof. intros nodes es bound. exact (tree_check_iff nodes es bound). Qed.

(* on distinct nodes holding the endpoints: tree_check = the edges form a tree on exactly these nodes *)
Theorem C20_tree_check_tree : forall nodes es bound,
  NoDup nodes -> (forall a b w, In (a, b, w) es -> In a nodes /\ In b nodes) ->
  (forall a, In a nodes -> a < bound) -> nodes <> [] ->
  (tree_check nodes es bound = true <-> IsTree nodes (ends es)).
Proof. intros nodes es bound H1 H2 H3 H4. exact (tree_check_tree nodes es bound H1 H2 H3 H4). Qed.

(* accepted: a subgraph with the right weights, a tree, holding every terminal, every leaf a
   terminal, at most twice steiner_opt *)
Theorem C20_steiner_check_sound : forall v T nodes es, MOk v -> steiner_check v T nodes es = 0 ->
  (incl nodes (vnodes v) /\
   forall a b w, In (a, b, w) es -> exists i, In (i, a, b, w) (verefs v) \/ In (i, b, a, w) (verefs v)) /\
  ((nodes = [] /\ es = []) \/ IsTree nodes (ends es)) /\
  incl T nodes /\
  (2 <= length nodes -> forall x, In x nodes -> degree x es = 1 -> In x T) /\
  (forall opt, steiner_opt v T = Some opt -> (sumw es <= 2 * opt)%Z).
Proof. intros v T nodes es Hm E. exact (steiner_check_sound v T nodes es Hm E). Qed.

(* every verdict is the number of the first failing clause *)
Theorem C20_steiner_check_verdicts : forall v T nodes es, MOk v ->
  steiner_check v T nodes es <= 5 /\
  (steiner_check v T nodes es = 0 <->
     St1 v nodes es /\ St2 nodes es /\ St3 T nodes /\ St4 T nodes es /\ St5 v T es) /\
  (steiner_check v T nodes es = 1 <-> ~ St1 v nodes es) /\
  (steiner_check v T nodes es = 2 <-> St1 v nodes es /\ ~ St2 nodes es) /\
  (steiner_check v T nodes es = 3 <-> St1 v nodes es /\ St2 nodes es /\ ~ St3 T nodes) /\
  (steiner_check v T nodes es = 4 <-> St1 v nodes es /\ St2 nodes es /\ St3 T nodes /\ ~ St4 T nodes es) /\
  (steiner_check v T nodes es = 5 <->
     St1 v nodes es /\ St2 nodes es /\ St3 T nodes /\ St4 T nodes es /\ ~ St5 v T es).
Proof. intros v T nodes es Hm. exact (steiner_check_verdicts v T nodes es Hm). Qed.

(* steiner_opt is the minimum weight of a tree of the graph that holds the terminals: attained, and
   a lower bound; None exactly when there is no such tree *)
Theorem C20_steiner_opt_minimum : forall v T w, MOk v -> steiner_opt v T = Some w ->
  (exists K F, sublist K (vnodes v) /\ incl F (gedges (induced_view v K)) /\
               SteinerTreeOf v T K F /\ weight F = w) /\
  (forall K' F', SteinerTreeOf v T K' F' -> (w <= weight F')%Z).
Proof. intros v T w Hm E. exact (steiner_opt_minimum v T w Hm E). Qed.

Theorem C20_steiner_opt_none : forall v T, MOk v -> steiner_opt v T = None ->
  forall K' F', ~ SteinerTreeOf v T K' F'.
Proof. intros v T Hm E. exact (steiner_opt_none v T Hm E). Qed.

(* hence: an accepted result weighs at most twice any tree of the graph holding the terminals *)
Theorem C20_steiner_check_two_approx : forall v T nodes es, MOk v -> steiner_check v T nodes es = 0 ->
  forall K' F', SteinerTreeOf v T K' F' -> (sumw es <= 2 * weight F')%Z.
Proof. intros v T nodes es Hm E. exact (steiner_check_two_approx v T nodes es Hm E). Qed.

(* ------------------------------------------------------------------ *)
(* Q7. Non-vacuity                                                      *)

(* two triangles {0,1,2} and {2,3,4} sharing the node 2, and a pendant node 5 on 4 (undirected:
   every edge listed from both ends) *)
Definition C20_U : view :=
  let o := [(0, [(0,1,1%Z); (2,2,1%Z)]);
            (1, [(0,0,1%Z); (1,2,1%Z)]);
            (2, [(1,1,1%Z); (2,0,1%Z); (3,3,1%Z); (5,4,1%Z)]);
            (3, [(3,2,1%Z); (4,4,1%Z)]);
            (4, [(4,3,1%Z); (5,2,1%Z); (6,5,1%Z)]);
            (5, [(6,4,1%Z)])] in
  mkView false 6 (Some 6) [0;1;2;3;4;5] o o 7 7
    [(0,0,1,1%Z); (1,1,2,1%Z); (2,0,2,1%Z); (3,2,3,1%Z); (4,3,4,1%Z); (5,2,4,1%Z); (6,4,5,1%Z)].

(* a path 0 - 1 - 2 (2-colourable), and the same with a self-loop at 0 *)
Definition C20_P : view :=
  let o := [(0, [(0,1,1%Z)]); (1, [(0,0,1%Z); (1,2,1%Z)]); (2, [(1,1,1%Z)])] in
  mkView false 3 (Some 3) [0;1;2] o o 2 2 [(0,0,1,1%Z); (1,1,2,1%Z)].
Definition C20_PL : view :=
  let o := [(0, [(2,0,1%Z); (0,1,1%Z)]); (1, [(0,0,1%Z); (1,2,1%Z)]); (2, [(1,1,1%Z)])] in
  mkView false 3 (Some 3) [0;1;2] o o 3 3 [(0,0,1,1%Z); (1,1,2,1%Z); (2,0,0,1%Z)].

Example C20_U_ok :
  VOk C20_U /\ symmetric C20_U /\ loop_free C20_U /\ NoDup (vnodes C20_U) /\
  VOk C20_P /\ symmetric C20_P /\ loop_free C20_P /\ VOk C20_PL /\ symmetric C20_PL.
Proof.
  split; [apply vok_check_ok; vm_compute; reflexivity|].
  split; [apply symmetricb_ok; vm_compute; reflexivity|].
  split; [apply loop_freeb_ok; vm_compute; reflexivity|].
  split; [apply nodupb_iff; vm_compute; reflexivity|].
  split; [apply vok_check_ok; vm_compute; reflexivity|].
  split; [apply symmetricb_ok; vm_compute; reflexivity|].
  split; [apply loop_freeb_ok; vm_compute; reflexivity|].
  split; [apply vok_check_ok; vm_compute; reflexivity|].
  apply symmetricb_ok; vm_compute; reflexivity.
Qed.

Example C20_ex_cliques : maximal_cliques_ref C20_U = [[0;1;2]; [2;3;4]; [4;5]].
Proof. vm_compute. reflexivity. Qed.

(* a proper 3-colouring accepted; 1: node 5 not coloured / node 0 coloured twice; 2: the edge 0-1
   inside one colour; 3: k = 4 with three colours used / a colour 3 with k = 3; 4: three colours
   on the 2-colourable path *)
Example C20_ex_coloring :
  coloring_check C20_U [(0,0); (1,1); (2,2); (3,0); (4,1); (5,0)] 3 = 0 /\
  coloring_check C20_U [(0,0); (1,1); (2,2); (3,0); (4,1)] 3 = 1 /\
  coloring_check C20_U [(0,0); (0,1); (1,1); (2,2); (3,0); (4,1); (5,0)] 3 = 1 /\
  coloring_check C20_U [(0,0); (1,0); (2,2); (3,0); (4,1); (5,0)] 3 = 2 /\
  coloring_check C20_U [(0,0); (1,1); (2,2); (3,0); (4,1); (5,0)] 4 = 3 /\
  coloring_check C20_U [(0,0); (1,1); (2,3); (3,0); (4,1); (5,0)] 3 = 3 /\
  coloring_check C20_P [(0,0); (1,1); (2,2)] 3 = 4 /\
  coloring_check C20_P [(0,0); (1,1); (2,0)] 2 = 0 /\
  bipartite_all C20_U = false /\ bipartite_all C20_P = true.
Proof. vm_compute. repeat split; reflexivity. Qed.

(* the accepted colouring through the theorem *)
Example C20_ex_coloring_meaning :
  ColTotal C20_U [(0,0); (1,1); (2,2); (3,0); (4,1); (5,0)] /\
  ColProper C20_U [(0,0); (1,1); (2,2); (3,0); (4,1); (5,0)] /\
  ColRange [(0,0); (1,1); (2,2); (3,0); (4,1); (5,0)] 3 /\ ~ TwoColourable C20_U.
Proof.
  destruct C20_U_ok as [Hv [Hs _]].
  assert (E : coloring_check C20_U [(0,0); (1,1); (2,2); (3,0); (4,1); (5,0)] 3 = 0) by (vm_compute; reflexivity).
  apply (coloring_check_iff _ _ Hv Hs) in E. destruct E as [H1 [H2 [H3 H4]]].
  split; [exact H1|]. split; [exact H2|]. split; [exact H3|].
  intros H. specialize (H4 H). lia.
Qed.

(* Counterexample to the statement with "2-colourable, self-loops ignored" on a view with a
   self-loop: the path 0 - 1 - 2 with a loop at 0 is 2-colourable in that sense, three colours
   are accepted (is_bipartite_undirected answers false on a self-loop) *)
Example C20_coloring_loop_counterexample :
  coloring_check C20_PL [(0,0); (1,1); (2,2)] 3 = 0 /\ TwoColourableNL C20_PL /\
  ~ ColoringOK_NL C20_PL [(0,0); (1,1); (2,2)] 3.
Proof.
  assert (H2 : TwoColourableNL C20_PL).
  { exists Nat.even. intros a b Ha Hb Hab. cbn [C20_PL vnodes In] in Ha.
    destruct Ha as [<-|[<-|[<-|[]]]]; vm_compute in Hb.
    - destruct Hb as [<-|[<-|[]]]; [contradiction | discriminate].
    - destruct Hb as [<-|[<-|[]]]; discriminate.
    - destruct Hb as [<-|[]]; discriminate. }
  split; [vm_compute; reflexivity|]. split; [exact H2|].
  intros [_ [_ [_ H]]]. specialize (H H2). lia.
Qed.

(* a directed view: the 2-cycle 0 <-> 1, the edge 1 -> 2, a self-loop at 2 *)
Definition C20_D : view :=
  mkView true 3 (Some 3) [0;1;2]
    [(0, [(0,1,1%Z)]); (1, [(1,0,1%Z); (2,2,1%Z)]); (2, [(3,2,1%Z)])]
    [(0, [(1,1,1%Z)]); (1, [(0,0,1%Z)]); (2, [(2,1,1%Z); (3,2,1%Z)])]
    4 4 [(0,0,1,1%Z); (1,1,0,1%Z); (2,1,2,1%Z); (3,2,2,1%Z)].

Example C20_D_ok : VOk C20_D /\ inout_ids_ok C20_D /\ erefs_out_ok C20_D.
Proof.
  split; [apply vok_check_ok; vm_compute; reflexivity|].
  split; [apply inout_ids_okb_ok; vm_compute; reflexivity|].
  apply erefs_out_okb_ok; vm_compute; reflexivity.
Qed.

(* accepted: one arc of the 2-cycle and the self-loop (also with the other arc, or with more);
   1: an id that is no edge / an id twice; 2: the self-loop 3 is missing; 3: the 2-cycle remains *)
Example C20_ex_fas :
  fas_check C20_D [1; 3] = 0 /\ fas_check C20_D [3; 0] = 0 /\ fas_check C20_D [0; 1; 2; 3] = 0 /\
  fas_check C20_D [1; 3; 7] = 1 /\ fas_check C20_D [1; 3; 1] = 1 /\
  fas_check C20_D [1] = 2 /\ fas_check C20_D [3] = 3 /\ fas_check C20_D [2; 3] = 3.
Proof. vm_compute. repeat split; reflexivity. Qed.

Example C20_ex_fas_meaning : acyclic (without_edges C20_D [1; 3]) /\ ~ acyclic (without_edges C20_D [2; 3]).
Proof.
  destruct C20_D_ok as [Hv [Hi _]]. split.
  - assert (E : fas_check C20_D [1; 3] = 0) by (vm_compute; reflexivity).
    apply (C20_fas_check_iff _ _ Hv Hi) in E. apply E.
  - intros Ha. assert (E : fas_check C20_D [2; 3] = 0).
    { apply (C20_fas_check_iff _ _ Hv Hi). split; [apply nodupb_iff; vm_compute; reflexivity|].
      split; [|split; [|exact Ha]].
      - intros e He. apply mem_In. cbn [In] in He. destruct He as [<-|[<-|[]]]; vm_compute; reflexivity.
      - intros e s w Hin. apply mem_In. cbn [C20_D verefs In] in Hin.
        destruct Hin as [Hq|[Hq|[Hq|[Hq|[]]]]]; injection Hq as <- Hs1 Hs2 _; try lia; vm_compute; reflexivity. }
    vm_compute in E. discriminate E.
Qed.

(* a 6-node DAG 0->1, 1->2, 0->2 (the shortcut), 2->3, 3->4, 1->5, 5->4: ranks, adjacency list,
   reduction (the shortcut is gone), closure *)
Example C20_ex_tred :
  toposort topo_adj_ex = Ok (inr [0; 1; 5; 2; 3; 4]) /\
  dag_to_toposorted_adjacency_list topo_adj_ex [0; 1; 5; 2; 3; 4]
    = Ok ([[1; 3]; [2; 3]; [5]; [4]; [5]; []], [0; 1; 3; 4; 5; 2]) /\
  dag_transitive_reduction_closure [[1; 3]; [2; 3]; [5]; [4]; [5]; []]
    = Ok ([[1]; [2; 3]; [5]; [4]; [5]; []], [[1; 2; 5; 3; 4]; [2; 5; 3; 4]; [5]; [4; 5]; [5]; []]) /\
  dag_transitive_reduction_closure [[1;2;3]; [3]; [3;4]; [5]; [5]; []]
    = Ok ([[1;2]; [3]; [3;4]; [5]; [5]; []], [[1;3;5;2;4]; [3;5]; [3;5;4]; [5]; [5]; []]).
Proof. vm_compute. repeat split; reflexivity. Qed.

Example C20_ex_tred_ok :
  VOk topo_adj_ex /\ (forall a, In a (vnodes topo_adj_ex) -> a < vbound topo_adj_ex) /\ no_parallel_in topo_adj_ex.
Proof. exact topo_adj_ex_ok. Qed.

(* 5 nodes, edges 0->1 0->2 0->4 1->2 1->4 2->3 2->0 3->4 3->1 (Proofs/MiscPathsP.v: asp_ex):
   the simple paths 0 -> 4, without bounds, with at least one / at most one / no intermediate node;
   a parallel edge repeats a path *)
Example C20_ex_paths :
  vok_check asp_ex = true /\
  all_simple_paths asp_ex 0 4 0 None true
    = Ok [[0; 1; 2; 3; 4]; [0; 1; 4]; [0; 2; 3; 4]; [0; 2; 3; 1; 4]; [0; 4]] /\
  all_simple_paths asp_ex 0 4 1 None true = Ok [[0; 1; 2; 3; 4]; [0; 1; 4]; [0; 2; 3; 4]; [0; 2; 3; 1; 4]] /\
  all_simple_paths asp_ex 0 4 0 (Some 1) true = Ok [[0; 1; 4]; [0; 4]] /\
  all_simple_paths asp_ex 0 4 0 (Some 0) true = Ok [[0; 4]] /\
  all_simple_paths asp_ex 0 4 2 (Some 2) true = Ok [[0; 2; 3; 4]] /\
  all_simple_paths asp_ex 4 0 0 None true = Ok [] /\
  all_simple_paths asp_par 0 1 0 None true = Ok [[0; 1]; [0; 1]].
Proof. vm_compute. repeat split; reflexivity. Qed.

(* the Steiner examples: Proofs/MiscSteinerP.v (st_view: 6 nodes, 8 weighted edges, terminals 0, 2, 4) *)
Example C20_ex_steiner :
  MOk st_view /\ steiner_opt st_view st_T = Some 6%Z /\
  steiner_check st_view st_T [0; 1; 2; 4] [(0, 1, 2%Z); (2, 1, 2%Z); (1, 4, 2%Z)] = 0 /\
  steiner_check st_view st_T [0; 2; 4] [(0, 2, 4%Z); (4, 2, 4%Z)] = 0 /\
  steiner_check st_view st_T [0; 2; 4] [(0, 2, 5%Z); (2, 4, 4%Z)] = 1 /\
  steiner_check st_view st_T [0; 1; 2; 4] [(0, 1, 2%Z); (1, 2, 2%Z); (0, 2, 4%Z)] = 2 /\
  steiner_check st_view st_T [0; 1; 2] [(0, 1, 2%Z); (1, 2, 2%Z)] = 3 /\
  steiner_check st_view st_T [0; 2; 4; 5] [(0, 2, 4%Z); (2, 4, 4%Z); (4, 5, 1%Z)] = 4 /\
  steiner_check st_view st_T [0; 3; 5; 4; 2] [(0, 3, 9%Z); (3, 5, 7%Z); (5, 4, 1%Z); (2, 4, 4%Z)] = 5.
Proof. split; [exact st_view_MOk|]. vm_compute. repeat split; reflexivity. Qed.

(* ------------------------------------------------------------------ *)
(* Pinned statements and assumptions                                   *)

Check C20_cliques_iff : forall v c,
  In c (maximal_cliques_ref v) <->
  (sublist c (vnodes v) /\ Clique v c /\ forall x, In x (vnodes v) -> ~ In x c -> ~ Clique v (x :: c)).
Check C20_cliques_NoDup : forall v, NoDup (vnodes v) -> NoDup (maximal_cliques_ref v).
Check C20_cliques_distinct_sets : forall v c1 c2, NoDup (vnodes v) ->
  In c1 (maximal_cliques_ref v) -> In c2 (maximal_cliques_ref v) ->
  (c1 <> c2 -> ~ same_set c1 c2) /\ (incl c1 c2 -> c1 = c2).
Check C20_cliques_empty : forall v, vnodes v = [] -> maximal_cliques_ref v = [[]].
Check C20_coloring_check_partial : forall v col k,
  coloring_check v col k = 0 <->
  (ColTotal v col /\ ColProper v col /\ ColRange col k /\ (bipartite_all v = true -> k <= 2)).
Check C20_bipartite_all_iff : forall v, VOk v -> symmetric v ->
  (bipartite_all v = true <-> TwoColourable v).
Check C20_coloring_check_iff : forall v col k, VOk v -> symmetric v ->
  (coloring_check v col k = 0 <->
   (ColTotal v col /\ ColProper v col /\ ColRange col k /\ (TwoColourable v -> k <= 2))).
Check C20_coloring_check_iff_loop_free : forall v col k, VOk v -> symmetric v -> loop_free v ->
  (coloring_check v col k = 0 <->
   (ColTotal v col /\ ColProper v col /\ ColRange col k /\
    ((exists c : nat -> bool, forall a b, In a (vnodes v) -> In b (neighbors v a) -> a <> b -> c a <> c b)
     -> k <= 2))).
Check C20_coloring_check_verdicts : forall v col k,
  (coloring_check v col k = 1 <-> ~ ColTotal v col) /\
  (coloring_check v col k = 2 <-> ColTotal v col /\ ~ ColProper v col) /\
  (coloring_check v col k = 3 <-> ColTotal v col /\ ColProper v col /\ ~ ColRange col k) /\
  (coloring_check v col k = 4 <->
     ColTotal v col /\ ColProper v col /\ ColRange col k /\ bipartite_all v = true /\ 2 < k) /\
  coloring_check v col k <= 4.
Check C20_without_edges_step : forall v ids a b,
  step (without_edges v ids) a b <-> exists e w, In (e, b, w) (out_edges v a) /\ ~ In e ids.
Check C20_without_edges_VOk : forall v ids, VOk v -> inout_ids_ok v -> VOk (without_edges v ids).
Check C20_fas_check_iff : forall v ids, VOk v -> inout_ids_ok v ->
  (fas_check v ids = 0 <->
   (NoDup ids /\ incl ids (edge_ids v) /\
    (forall e s w, In (e, s, s, w) (verefs v) -> In e ids) /\
    acyclic (without_edges v ids))).
Check C20_fas_check_verdicts : forall v ids, VOk v -> inout_ids_ok v ->
  (fas_check v ids = 1 <-> ~ (NoDup ids /\ incl ids (edge_ids v))) /\
  (fas_check v ids = 2 <-> (NoDup ids /\ incl ids (edge_ids v)) /\
                           exists e s w, In (e, s, s, w) (verefs v) /\ ~ In e ids) /\
  (fas_check v ids = 3 <-> (NoDup ids /\ incl ids (edge_ids v)) /\
                           (forall e s w, In (e, s, s, w) (verefs v) -> In e ids) /\
                           exists n, In n (vnodes v) /\ on_cycle (without_edges v ids) n) /\
  fas_check v ids <= 3.
Check C20_fas_clauses_out : forall v ids, erefs_out_ok v ->
  (incl ids (edge_ids v) <->
     forall e, In e ids -> exists a t w, In a (vnodes v) /\ In (e, t, w) (out_edges v a)) /\
  ((forall e s w, In (e, s, s, w) (verefs v) -> In e ids) <->
     forall a e w, In a (vnodes v) -> In (e, a, w) (out_edges v a) -> In e ids) /\
  (acyclic (without_edges v ids) -> forall e s w, In (e, s, s, w) (verefs v) -> In e ids).
Check C20_topo_adj_correct : forall v order,
  VOk v -> (forall a, In a (vnodes v) -> a < vbound v) ->
  NoDup order -> (forall x, In x order <-> In x (vnodes v)) ->
  (forall l1 u l2 w, order = l1 ++ u :: l2 -> step v u w -> In w l2) ->
  exists g revmap,
    dag_to_toposorted_adjacency_list v order = Ok (g, revmap) /\
    length g = length order /\ length revmap = vbound v /\
    (forall i x, nth_error order i = Some x -> nth_error revmap x = Some i) /\
    (forall x, x < vbound v -> ~ In x order -> nth_error revmap x = Some 0) /\
    (forall i j, In j (nth i g []) <->
                 exists a b, nth_error order i = Some a /\ nth_error order j = Some b /\ step v a b) /\
    (forall i j, In j (nth i g []) -> i < j < length order) /\
    (forall i, StronglySorted le (nth i g [])) /\
    ((forall b, In b (vnodes v) -> NoDup (neighbors_in v b)) -> forall i, StronglySorted lt (nth i g [])).
Check C20_topo_adj_DagAL : forall v order g revmap,
  VOk v -> (forall a, In a (vnodes v) -> a < vbound v) -> topo_order v order ->
  (forall b, In b (vnodes v) -> NoDup (neighbors_in v b)) ->
  dag_to_toposorted_adjacency_list v order = Ok (g, revmap) -> DagAL g.
Check C20_tred_closure_correct : forall G, DagAL G ->
  exists tred tclos,
    dag_transitive_reduction_closure G = Ok (tred, tclos) /\
    length tred = length G /\ length tclos = length G /\
    forall i,
      (forall j, In j (nth i tclos []) <-> al_plus G i j) /\
      NoDup (nth i tclos []) /\
      (forall j, In j (nth i tred []) <->
                 al_step G i j /\ ~ exists k, al_plus G i k /\ al_plus G k j) /\
      NoDup (nth i tred []) /\
      StronglySorted lt (nth i tred []).
Check C20_tred_same_closure : forall G tred tclos, DagAL G ->
  dag_transitive_reduction_closure G = Ok (tred, tclos) ->
  forall i j, (al_plus tred i j <-> al_plus G i j) /\ (In j (nth i tclos []) <-> al_plus G i j) /\
              (al_plus tclos i j <-> In j (nth i tclos [])).
Check C20_tred_minimal_unique : forall G tred tclos, DagAL G ->
  dag_transitive_reduction_closure G = Ok (tred, tclos) ->
  (al_sub tred G /\ al_same_closure tred G) /\
  forall H, length H = length G -> al_sub H G -> al_same_closure H G -> al_sub tred H.
Check C20_tred_of_view : forall v order,
  VOk v -> (forall a, In a (vnodes v) -> a < vbound v) -> no_parallel_in v ->
  toposort v = Ok (inr order) ->
  exists g revmap tred tclos,
    dag_to_toposorted_adjacency_list v order = Ok (g, revmap) /\ topo_adj_ok v order g revmap /\ DagAL g /\
    dag_transitive_reduction_closure g = Ok (tred, tclos) /\
    length tred = length order /\ length tclos = length order /\
    (forall i j, In j (nth i tclos []) <->
       exists a b, nth_error order i = Some a /\ nth_error order j = Some b /\ vplus v a b) /\
    (forall i j, In j (nth i tred []) <->
       exists a b, nth_error order i = Some a /\ nth_error order j = Some b /\ step v a b /\
                   ~ exists c, vplus v a c /\ vplus v c b) /\
    (forall i, NoDup (nth i tred []) /\ NoDup (nth i tclos [])).
Check C20_asp_loop_invariant : forall v to min_len max_len fuel visited stack acc r,
  asp_loop fuel v to min_len max_len visited stack acc = Ok r ->
  r = rev acc ++ enum_stack v to min_len max_len visited stack.
Check C20_all_simple_paths_correct : forall v from to min_i max_i debug ps,
  from <> to ->
  (max_i = None -> vnodes v = [] -> ~ step v from to) ->
  all_simple_paths v from to min_i max_i debug = Ok ps ->
  (forall p, In p ps <->
             (SimplePath v from to p /\ min_i <= inter p /\ inter p <= inter_bound v max_i)) /\
  (no_parallel v -> NoDup ps).
Check C20_all_simple_paths_hyp_needed : forall v from to,
  from <> to -> vnodes v = [] -> step v from to ->
  all_simple_paths v from to 0 None false = Ok [] /\
  SimplePath v from to [from; to] /\ 0 <= inter [from; to] /\ inter [from; to] <= inter_bound v None.
Check C20_all_simple_paths_default : forall v from to min_i debug ps,
  from <> to -> nodes_ok v -> NoDup (vnodes v) ->
  all_simple_paths v from to min_i None debug = Ok ps ->
  (forall p, In p ps <-> (SimplePath v from to p /\ min_i <= inter p)) /\
  (no_parallel v -> NoDup ps).
Check C20_tree_check_iff : forall nodes es bound,
  tree_check nodes es bound = true <->
  ((nodes = [] /\ es = []) \/
   (nodes <> [] /\ S (length es) = length nodes /\
    (forall a b w, In (a, b, w) es -> a < bound /\ b < bound) /\ acyclic_edges (ends es))).
Check C20_tree_check_tree : forall nodes es bound,
  NoDup nodes -> (forall a b w, In (a, b, w) es -> In a nodes /\ In b nodes) ->
  (forall a, In a nodes -> a < bound) -> nodes <> [] ->
  (tree_check nodes es bound = true <-> IsTree nodes (ends es)).
Check C20_steiner_check_sound : forall v T nodes es, MOk v -> steiner_check v T nodes es = 0 ->
  (incl nodes (vnodes v) /\
   forall a b w, In (a, b, w) es -> exists i, In (i, a, b, w) (verefs v) \/ In (i, b, a, w) (verefs v)) /\
  ((nodes = [] /\ es = []) \/ IsTree nodes (ends es)) /\
  incl T nodes /\
  (2 <= length nodes -> forall x, In x nodes -> degree x es = 1 -> In x T) /\
  (forall opt, steiner_opt v T = Some opt -> (sumw es <= 2 * opt)%Z).
Check C20_steiner_check_verdicts : forall v T nodes es, MOk v ->
  steiner_check v T nodes es <= 5 /\
  (steiner_check v T nodes es = 0 <->
     St1 v nodes es /\ St2 nodes es /\ St3 T nodes /\ St4 T nodes es /\ St5 v T es) /\
  (steiner_check v T nodes es = 1 <-> ~ St1 v nodes es) /\
  (steiner_check v T nodes es = 2 <-> St1 v nodes es /\ ~ St2 nodes es) /\
  (steiner_check v T nodes es = 3 <-> St1 v nodes es /\ St2 nodes es /\ ~ St3 T nodes) /\
  (steiner_check v T nodes es = 4 <-> St1 v nodes es /\ St2 nodes es /\ St3 T nodes /\ ~ St4 T nodes es) /\
  (steiner_check v T nodes es = 5 <->
     St1 v nodes es /\ St2 nodes es /\ St3 T nodes /\ St4 T nodes es /\ ~ St5 v T es).
Check C20_steiner_opt_minimum : forall v T w, MOk v -> steiner_opt v T = Some w ->
  (exists K F, sublist K (vnodes v) /\ incl F (gedges (induced_view v K)) /\
               SteinerTreeOf v T K F /\ weight F = w) /\
  (forall K' F', SteinerTreeOf v T K' F' -> (w <= weight F')%Z).
Check C20_steiner_opt_none : forall v T, MOk v -> steiner_opt v T = None ->
  forall K' F', ~ SteinerTreeOf v T K' F'.
Check C20_steiner_check_two_approx : forall v T nodes es, MOk v -> steiner_check v T nodes es = 0 ->
  forall K' F', SteinerTreeOf v T K' F' -> (sumw es <= 2 * weight F')%Z.

Print Assumptions C20_cliques_iff.
Print Assumptions C20_cliques_NoDup.
Print Assumptions C20_cliques_distinct_sets.
Print Assumptions C20_cliques_empty.
Print Assumptions C20_coloring_check_partial.
Print Assumptions C20_bipartite_all_iff.
Print Assumptions C20_coloring_check_iff.
Print Assumptions C20_coloring_check_iff_loop_free.
Print Assumptions C20_coloring_check_verdicts.
Print Assumptions C20_without_edges_step.
Print Assumptions C20_without_edges_VOk.
Print Assumptions C20_fas_check_iff.
Print Assumptions C20_fas_check_verdicts.
Print Assumptions C20_fas_clauses_out.
Print Assumptions C20_topo_adj_correct.
Print Assumptions C20_topo_adj_DagAL.
Print Assumptions C20_tred_closure_correct.
Print Assumptions C20_tred_same_closure.
Print Assumptions C20_tred_minimal_unique.
Print Assumptions C20_tred_of_view.
Print Assumptions C20_asp_loop_invariant.
Print Assumptions C20_all_simple_paths_correct.
Print Assumptions C20_all_simple_paths_hyp_needed.
Print Assumptions C20_all_simple_paths_default.
Print Assumptions C20_tree_check_iff.
Print Assumptions C20_tree_check_tree.
Print Assumptions C20_steiner_check_sound.
Print Assumptions C20_steiner_check_verdicts.
Print Assumptions C20_steiner_opt_minimum.
Print Assumptions C20_steiner_opt_none.
Print Assumptions C20_steiner_check_two_approx.
Print Assumptions C20_U_ok.
Print Assumptions C20_ex_cliques.
Print Assumptions C20_ex_coloring.
Print Assumptions C20_ex_coloring_meaning.
Print Assumptions C20_coloring_loop_counterexample.
Print Assumptions C20_D_ok.
Print Assumptions C20_ex_fas.
Print Assumptions C20_ex_fas_meaning.
Print Assumptions C20_ex_tred.
Print Assumptions C20_ex_tred_ok.
Print Assumptions C20_ex_paths.
Print Assumptions C20_ex_steiner.
